"""Shared rule helpers: call events with helper inlining, guards on call results, value flow."""
import re

from .facts import call_matches, op_place, op_local, rvalue_places

# Calls through which a value (its identity) is considered to flow from an argument to the
# result: conversions, derefs, pin projections, Option/Result plumbing.
_FLOW_RX = re.compile(
    r"(::deref(_mut)?$|::as_ref$|::as_mut$|::into$|::from$|::borrow(_mut)?$|Pin<.*>::(get_mut|get_ref|"
    r"into_inner|new_unchecked|new|as_mut|as_ref|get_unchecked_mut|map_unchecked_mut)|"
    r"::into_iter$|::branch$|::from_residual$|::from_output$|::clone$|"
    r"core::mem::manually_drop::ManuallyDrop::<.*>::new$|"
    r"::unwrap$|::expect$|::unwrap_or_default$|::project$|::try_into$|::cast$|::cast_mut$|"
    r"::as_ptr$|::as_mut_ptr$|NonNull::<.*>::new_unchecked$|::as_raw_fd$|::as_fd$)"
)


def flow_call(t):
    """Default `through_calls` for CFG.origins / derived_locals: first argument flows through
    identity-like calls."""
    if call_matches(t, _FLOW_RX):
        return 0
    return None


def rx(pat):
    return pat if hasattr(pat, "search") else re.compile(pat)


def calls(fn, pat, include_cleanup=False):
    """[(bb, term)] of call sites in fn whose declared/resolved callee matches pat."""
    p = rx(pat)
    return [(bb, t) for bb, t in fn.calls(include_cleanup) if call_matches(t, p)]


class Summaries:
    """may / must call summaries over the workspace call graph (bounded depth)."""

    def __init__(self, db, pat, depth=4):
        self.db = db
        self.pat = rx(pat)
        self.depth = depth
        self._may = {}
        self._must = {}

    def direct(self, t):
        return call_matches(t, self.pat)

    def may(self, f, depth=None, _stack=None):
        depth = self.depth if depth is None else depth
        key = f.id
        if key in self._may:
            return self._may[key]
        _stack = _stack or set()
        if key in _stack:
            return False
        _stack.add(key)
        res = False
        for bb, t in f.calls(include_cleanup=False):
            if self.direct(t):
                res = True
                break
        if not res and depth > 0:
            for g in self.db.succ_fns(f):
                if self.may(g, depth - 1, _stack):
                    res = True
                    break
        _stack.discard(key)
        self._may[key] = res
        return res

    def event_blocks(self, f, mode="may", depth=None):
        """Blocks of f whose call terminator matches directly or calls a helper that
        may/must reach a match."""
        depth = self.depth if depth is None else depth
        out = []
        for bb, t in f.calls(include_cleanup=False):
            if self.direct(t):
                out.append(bb)
                continue
            if depth <= 0:
                continue
            hit = False
            for g in self.db.callee_fns(t):
                g = self.db.body_of(g)
                ok = self.may(g, depth - 1) if mode == "may" else self.must(g, depth - 1)
                if ok:
                    out.append(bb)
                    hit = True
                    break
            if hit or mode != "may":
                continue
            # a closure passed as an argument is assumed to be invoked by the callee
            for a in t.get("args", []):
                p = op_place(a)
                if p is None:
                    continue
                for r in f.cfg.origins(p["l"]):
                    if r[0] == "agg" and r[3]["r"].get("x") in ("closure", "coroutine"):
                        g = self.db.fns.get(r[3]["r"]["def"])
                        if g is not None and self.may(g, depth - 1):
                            out.append(bb)
                            hit = True
                            break
                if hit:
                    break
        return out

    def must(self, f, depth=None, _stack=None):
        """Every normal path entry->return of f passes a matching call (directly or through a
        must-calling helper)."""
        depth = self.depth if depth is None else depth
        key = f.id
        if key in self._must:
            return self._must[key]
        _stack = _stack or set()
        if key in _stack:
            return False
        _stack.add(key)
        blocks = set()
        for bb, t in f.calls(include_cleanup=False):
            if self.direct(t):
                blocks.add(bb)
            elif depth > 0:
                for g in self.db.callee_fns(t, expand_traits=False):
                    g = self.db.body_of(g)
                    if self.must(g, depth - 1, _stack):
                        blocks.add(bb)
                        break
        cfg = f.cfg
        res = bool(blocks)
        if res:
            reach = cfg.reach_from_block(0, avoid=blocks) if 0 not in blocks else set()
            res = not any(r in reach for r in cfg.returns)
        _stack.discard(key)
        self._must[key] = res
        return res


def dominated_by_any(fn, blocks, b, strict=True):
    cfg = fn.cfg
    for a in blocks:
        if a == b and strict:
            continue
        if cfg.dominates(a, b):
            return a
    return None


def postdominated_by_any(fn, blocks, b):
    """Every normal path from b to return passes one of `blocks` (as a set)."""
    cfg = fn.cfg
    blocks = set(blocks)
    if b in blocks:
        return True
    reach = cfg.reach_set([b], avoid=blocks)
    return not any(r in reach for r in cfg.returns)


# ---- guards -------------------------------------------------------------------

def value_switches(fn, src_local, through_calls=flow_call):
    """Switches whose scrutinee derives from src_local. Returns list of dicts:
    {bb, kind: 'bool'|'int'|'discr', inverted: bool, targets: {val: bb}, otherwise: bb}.
    Tracks boolean negation (`Not`) and discriminant reads / Try::branch."""
    cfg = fn.cfg
    # local -> (inverted, via_discr)
    state = {src_local: (False, False)}
    changed = True
    while changed:
        changed = False
        for b in fn.blocks:
            for s in b["st"]:
                if "a" not in s or s["a"]["p"]:
                    continue
                r = s["r"]
                dst = s["a"]["l"]
                k = r["k"]
                srcs = [p["l"] for p in rvalue_places(r)]
                hit = [x for x in srcs if x in state]
                if not hit:
                    continue
                inv, disc = state[hit[0]]
                if k == "use" or k == "cast" or k == "ref":
                    new = (inv, disc)
                elif k == "un" and r.get("x") == "Not":
                    new = (not inv, disc)
                elif k == "discr":
                    new = (inv, True)
                elif k == "bin" and r.get("x") in ("Eq", "Ne"):
                    # comparison with constant: x == 0 inverts for bool-ish
                    ops = r["ops"]
                    const = [o for o in ops if "k" in o]
                    if const and const[0].get("v") in ("0", "1"):
                        v = const[0]["v"]
                        flip = (r["x"] == "Eq" and v == "0") or (r["x"] == "Ne" and v == "1")
                        new = (inv != flip, disc)
                    else:
                        continue
                else:
                    continue
                if dst not in state:
                    state[dst] = new
                    changed = True
            t = b["t"]
            if t["k"] == "call" and through_calls is not None:
                idx = through_calls(t)
                if idx is not None and idx < len(t["args"]):
                    p = op_place(t["args"][idx])
                    if p is not None and p["l"] in state and t["dst"]["l"] not in state:
                        state[t["dst"]["l"]] = state[p["l"]]
                        changed = True
    out = []
    for bi, b in enumerate(fn.blocks):
        t = b["t"]
        if t["k"] != "switch":
            continue
        l = op_local(t["op"])
        if l is None or l not in state:
            continue
        inv, disc = state[l]
        kind = "discr" if disc else ("bool" if t.get("oty") == "bool" else "int")
        out.append({"bb": bi, "kind": kind, "inverted": inv,
                    "targets": {v: tb for v, tb in t["tg"]}, "otherwise": t["ow"]})
    return out


def bool_edges(fn, call_bb):
    """For a call returning bool at block call_bb: list of (switch_bb, true_target, false_target)."""
    t = fn.blocks[call_bb]["t"]
    dst = t["dst"]["l"]
    out = []
    for sw in value_switches(fn, dst):
        if sw["kind"] != "bool":
            continue
        f_t = sw["targets"].get("0")
        t_t = sw["otherwise"]
        if f_t is None:
            # switch [1: T] otherwise F ?
            if "1" in sw["targets"]:
                t_t = sw["targets"]["1"]
                f_t = sw["otherwise"]
            else:
                continue
        if sw["inverted"]:
            t_t, f_t = f_t, t_t
        out.append((sw["bb"], t_t, f_t))
    return out


def _helper_implies(db, g, call_pat, want, depth=2, _seen=None):
    """For a bool-returning workspace helper g: does `g(..) == want` imply that the call matching call_pat
    (made inside g) returned `want`?  (`a() && b()` helpers for want=True, `a() || b()` for want=False.)"""
    _seen = _seen or set()
    if g.id in _seen or not g.locals or g.locals[0][0] != "bool":
        return False
    _seen.add(g.id)
    inner = calls(g, call_pat)
    if not inner:
        return False
    inner_dsts = set()
    for cbb, t in inner:
        inner_dsts |= same_value_locals(g, t["dst"]["l"])
    ok_any = False
    for bi, si, s in g.stmts():
        if "a" not in s or s["a"]["l"] != 0 or s["a"]["p"]:
            continue
        r = s["r"]
        ops = r.get("ops", [])
        if r["k"] == "use" and ops and ops[0].get("k") == ("false" if want else "true"):
            continue                      # the other outcome: no constraint
        if r["k"] == "use" and ops and op_place(ops[0]) is not None and op_place(ops[0])["l"] in inner_dsts:
            ok_any = True                 # returns the call's own result
            continue
        if guarded_by_bool(g, bi, call_pat, want, db=db, depth=depth - 1) is not None:
            ok_any = True
            continue
        return False
    for bb, t in g.calls():
        if t["dst"]["l"] == 0:
            if call_matches(t, call_pat):
                ok_any = True
            elif guarded_by_bool(g, bb, call_pat, want, db=db, depth=depth - 1) is not None:
                ok_any = True
            else:
                return False
    return ok_any


def guarded_by_bool(fn, event_bb, call_pat, want, summaries=None, db=None, depth=2):
    """Is event_bb dominated by the `want` (True/False) edge of a switch on the result of a call
    matching call_pat — directly, or through a bool-returning workspace helper whose result implies it?
    Returns the guarding call block or None."""
    cfg = fn.cfg
    for cbb, t in calls(fn, call_pat):
        for (sbb, tt, ft) in bool_edges(fn, cbb):
            tgt = tt if want else ft
            if tgt == (ft if want else tt):
                continue
            if cfg.edge_dominates(sbb, tgt, event_bb):
                return cbb
    db = db or fn.db
    if depth > 0 and db is not None:
        for cbb, t in fn.calls():
            if call_matches(t, call_pat) or fn.local_ty(t["dst"]["l"]) != "bool":
                continue
            for g in db.callee_fns(t, expand_traits=False):
                if not _helper_implies(db, g, call_pat, want, depth):
                    continue
                for (sbb, tt, ft) in bool_edges(fn, cbb):
                    tgt = tt if want else ft
                    if tgt != (ft if want else tt) and cfg.edge_dominates(sbb, tgt, event_bb):
                        return cbb
    return None


def guarded_everywhere(db, f, event_pat, guard_pat, want, depth=2, _seen=None):
    """Helper-aware GUARD: every call matching event_pat that f reaches (directly, or inside workspace helpers /
    closures up to `depth`) is dominated, in the function that contains it or at the call of the helper that
    contains it, by the `want` edge of a test on guard_pat. Returns (n_events, [unguarded (fn, bb)])."""
    _seen = _seen if _seen is not None else set()
    if f.id in _seen:
        return 0, []
    _seen.add(f.id)
    summ = Summaries(db, event_pat, depth=depth)
    n = 0
    bad = []
    for bb in summ.event_blocks(f, "may", depth=depth):
        t = f.blocks[bb]["t"]
        if guarded_by_bool(f, bb, guard_pat, want, db=db) is not None:
            n += 1
            continue
        if call_matches(t, event_pat):
            n += 1
            bad.append((f, bb))
            continue
        if depth <= 0:
            bad.append((f, bb))
            continue
        # the event lies inside a helper (or a closure handed to one): it must be guarded in there
        inner = []
        for g in db.callee_fns(t):
            inner.append(db.body_of(g))
        for a in t.get("args", []):
            p = op_place(a)
            if p is None:
                continue
            for r in f.cfg.origins(p["l"]):
                if r[0] == "agg" and r[3]["r"].get("x") in ("closure", "coroutine"):
                    g = db.fns.get(r[3]["r"]["def"])
                    if g is not None:
                        inner.append(g)
        for g in inner:
            if not summ.may(g, depth - 1):
                continue
            k, b2 = guarded_everywhere(db, g, event_pat, guard_pat, want, depth - 1, _seen)
            n += k
            bad.extend(b2)
    return n, bad


def _inner_bodies(db, f, t):
    inner = [db.body_of(g) for g in db.callee_fns(t)]
    for a in t.get("args", []):
        p = op_place(a)
        if p is None:
            continue
        for r in f.cfg.origins(p["l"]):
            if r[0] == "agg" and r[3]["r"].get("x") in ("closure", "coroutine"):
                g = db.fns.get(r[3]["r"]["def"])
                if g is not None:
                    inner.append(g)
    return inner


def ordered_everywhere(db, f, first_pat, second_pat, depth=2, _seen=None):
    """Helper-aware ORD: every call matching second_pat that f reaches (directly or inside helpers / closures) is
    dominated by a call that (may-)reaches first_pat — in the function that contains it, or at the call site of the
    helper that contains both. Returns (n_second_events, [unordered (fn, bb)])."""
    _seen = _seen if _seen is not None else set()
    if f.id in _seen:
        return 0, []
    _seen.add(f.id)
    s1 = Summaries(db, first_pat, depth=depth)
    s2 = Summaries(db, second_pat, depth=depth)
    e1 = s1.event_blocks(f, "may", depth=depth)
    n, bad = 0, []
    for bb in s2.event_blocks(f, "may", depth=depth):
        t = f.blocks[bb]["t"]
        if any(a != bb and f.cfg.dominates(a, bb) for a in e1):
            n += 1
            continue
        if call_matches(t, second_pat) or depth <= 0:
            n += 1
            bad.append((f, bb))
            continue
        for g in _inner_bodies(db, f, t):
            if not s2.may(g, depth - 1):
                continue
            k, b2 = ordered_everywhere(db, g, first_pat, second_pat, depth - 1, _seen)
            n += k
            bad.extend(b2)
    return n, bad


def discr_edges(fn, call_bb):
    """For a call returning an enum (Option/Result/Poll/ControlFlow...) at call_bb:
    list of (switch_bb, {variant_index_str: target}, otherwise)."""
    t = fn.blocks[call_bb]["t"]
    dst = t["dst"]["l"]
    out = []
    for sw in value_switches(fn, dst):
        if sw["kind"] != "discr":
            continue
        out.append((sw["bb"], sw["targets"], sw["otherwise"]))
    return out


def guarded_by_variant(fn, event_bb, call_pat, variant_idx):
    """event_bb dominated by the edge `discriminant == variant_idx` of a switch on the result
    (or its Try::branch) of a call matching call_pat."""
    cfg = fn.cfg
    for cbb, t in calls(fn, call_pat):
        for (sbb, targets, ow) in discr_edges(fn, cbb):
            tgt = targets.get(str(variant_idx))
            if tgt is None:
                continue
            others = [x for v, x in targets.items() if v != str(variant_idx)]
            if tgt in others:
                continue
            if cfg.edge_dominates(sbb, tgt, event_bb):
                return cbb
    return None


def guarded_by_variant_strict(fn, event_bb, call_pat, variant_idx):
    """Like guarded_by_variant, but the switch must be on the discriminant of the call's result *itself* (whole-value
    copies / moves and `?`), not of a payload extracted from it (`match e { Full(..) => .. }` inside the Err arm)."""
    cfg = fn.cfg
    for cbb, t in calls(fn, call_pat):
        same = {t["dst"]["l"]}
        changed = True
        while changed:
            changed = False
            for b in fn.blocks:
                for st in b["st"]:
                    if "a" not in st or st["a"]["p"]:
                        continue
                    r = st["r"]
                    if r.get("k") == "use" and r.get("ops"):
                        pl = op_place(r["ops"][0])
                        if pl is not None and not pl["p"] and pl["l"] in same and st["a"]["l"] not in same:
                            same.add(st["a"]["l"])
                            changed = True
                tt = b["t"]
                if tt["k"] == "call" and call_matches(tt, r"Try::branch$") and tt.get("args"):
                    pl = op_place(tt["args"][0])
                    if pl is not None and not pl["p"] and pl["l"] in same and tt["dst"]["l"] not in same:
                        same.add(tt["dst"]["l"])
                        changed = True
        discr = set()
        for b in fn.blocks:
            for st in b["st"]:
                r = st.get("r", {})
                if r.get("k") == "discr" and "pl" in r and not r["pl"]["p"] and r["pl"]["l"] in same:
                    discr.add(st["a"]["l"])
        for bi, b in enumerate(fn.blocks):
            tt = b["t"]
            if tt["k"] != "switch":
                continue
            pl = op_place(tt["op"])
            if pl is None or pl["l"] not in discr:
                continue
            tg = dict(tt["tg"])
            tgt = tg.get(str(variant_idx))
            if tgt is None:
                continue
            others = [x for v, x in tg.items() if v != str(variant_idx)] + [tt["ow"]]
            if tgt in others:
                continue
            if cfg.edge_dominates(bi, tgt, event_bb):
                return cbb
    return None


# ---- value flow ---------------------------------------------------------------

def arg_origin_calls(fn, term, arg_idx, through_calls=flow_call, follow_fields=False):
    """Calls whose result flows (through copies/casts/refs/identity calls) into argument
    arg_idx of `term`. Returns list of terminators. follow_fields: also through `&x.field`
    (the argument is a part of the call's result)."""
    p = op_place(term["args"][arg_idx]) if arg_idx < len(term.get("args", [])) else None
    if p is None:
        return []
    roots = fn.cfg.origins(p["l"], through_calls=through_calls, follow_fields=follow_fields)
    return [r[2] for r in roots if r[0] == "call"]


def arg_origin_fields(fn, term, arg_idx, through_calls=flow_call):
    """Field names (of any place) the argument derives from."""
    p = op_place(term["args"][arg_idx]) if arg_idx < len(term.get("args", [])) else None
    if p is None:
        return []
    out = [e[2] for e in p["p"] if isinstance(e, list) and e[0] == "f"]
    roots = fn.cfg.origins(p["l"], through_calls=through_calls)
    for r in roots:
        if r[0] == "place":
            out.extend(e[2] for e in r[3]["p"] if isinstance(e, list) and e[0] == "f")
    return out


def arg_origin_args(fn, term, arg_idx, through_calls=flow_call):
    """Function parameters (local indices) the argument derives from."""
    p = op_place(term["args"][arg_idx]) if arg_idx < len(term.get("args", [])) else None
    if p is None:
        return []
    roots = fn.cfg.origins(p["l"], through_calls=through_calls)
    return [r[1] for r in roots if r[0] == "arg"]


def receiver_field(fn, term, through_calls=flow_call):
    """Field names the receiver (arg 0) of a method call derives from, e.g. `self.in_flight`."""
    return arg_origin_fields(fn, term, 0, through_calls)


def field_writes(fn, field, owner_rx=None):
    """[(bb, idx, stmt)] assignments whose destination place ends in field `field`."""
    out = []
    for bi, si, s in fn.stmts():
        if "a" not in s:
            continue
        pr = s["a"]["p"]
        for e in pr:
            pass
        last = [e for e in pr if isinstance(e, list) and e[0] == "f"]
        if last and last[-1][2] == field and (owner_rx is None or re.search(owner_rx, last[-1][3])):
            # ensure the field is the final projection (a write to the field itself)
            if pr and isinstance(pr[-1], list) and pr[-1][0] == "f" and pr[-1][2] == field:
                out.append((bi, si, s))
    return out


def field_reads(fn, owner_rx=None):
    """set of (owner, field) read or borrowed anywhere in fn (non-cleanup)."""
    out = set()
    def add(p):
        for e in p["p"]:
            if isinstance(e, list) and e[0] == "f":
                if owner_rx is None or re.search(owner_rx, e[3]):
                    out.add((e[3], e[2]))
    for bi, si, s in fn.stmts():
        if "a" in s:
            for p in rvalue_places(s["r"]):
                add(p)
            # projections in the destination before the final field are reads too
            pr = s["a"]["p"]
            if len(pr) > 1:
                add({"l": 0, "p": pr[:-1]})
    for b in fn.blocks:
        if b["cl"]:
            continue
        t = b["t"]
        for op in (t.get("args") or []):
            p = op_place(op)
            if p:
                add(p)
        if t["k"] == "switch":
            p = op_place(t["op"])
            if p:
                add(p)
        if t["k"] == "drop":
            add(t["pl"])
    return out


# ---- full data dependence ---------------------------------------------------------

def data_deps(fn, local, stop_call=None):
    """Backward data dependence: every local / call / const the value of `local` may be computed
    from (all rvalue operands, all call arguments). Returns (locals, calls[(bb, term)], places)."""
    cfg = fn.cfg
    seen = set()
    work = [local]
    call_roots = []
    places = []
    while work:
        l = work.pop()
        if l in seen:
            continue
        seen.add(l)
        for d in cfg.defs.get(l, []):
            if d[0] == "call":
                t = d[2]
                call_roots.append((d[1], t))
                if stop_call is not None and stop_call(t):
                    continue
                for a in t.get("args", []):
                    p = op_place(a)
                    if p:
                        places.append(p)
                        work.append(p["l"])
            elif d[0] == "assign":
                for p in rvalue_places(d[3]["r"]):
                    places.append(p)
                    work.append(p["l"])
    return seen, call_roots, places


def deep_deps(db, fn, local, depth=3, _seen=None):
    """Backward data dependence of `local` that also descends into the *return value* of workspace callees
    (helpers may be inlined or extracted freely). Returns (callee names, field names)."""
    _seen = _seen if _seen is not None else set()
    names, fields = set(), set()
    locs, cr, places = data_deps(fn, local)
    for pl in places:
        for e in pl["p"]:
            if isinstance(e, list) and e[0] == "f":
                fields.add(e[2])
    for bb, t in cr:
        names.add(t.get("rfn") or t.get("fn") or "")
        if t.get("fn"):
            names.add(t["fn"])
        if depth > 0:
            for g in db.callee_fns(t, expand_traits=False):
                g = db.body_of(g)
                if g.id in _seen:
                    continue
                _seen.add(g.id)
                n2, f2 = deep_deps(db, g, 0, depth - 1, _seen)
                names |= n2
                fields |= f2
    return names, fields


def taint_forward(fn, sources, sanitiser=None):
    """Forward data dependence from source locals: every local computed (through any rvalue or
    call) from a tainted one. `sanitiser(term)` -> True stops propagation through that call."""
    tainted = set(sources)
    changed = True
    while changed:
        changed = False
        for b in fn.blocks:
            for s in b["st"]:
                if "a" not in s:
                    continue
                if any(p["l"] in tainted for p in rvalue_places(s["r"])):
                    if s["a"]["l"] not in tainted:
                        tainted.add(s["a"]["l"])
                        changed = True
            t = b["t"]
            if t["k"] == "call":
                if sanitiser is not None and sanitiser(t):
                    continue
                if any((op_place(a) or {}).get("l") in tainted for a in t.get("args", [])):
                    if t["dst"]["l"] not in tainted:
                        tainted.add(t["dst"]["l"])
                        changed = True
    return tainted


def same_value_locals(fn, local):
    """locals holding the same value as `local` (copies / moves / int casts), both directions."""
    grp = {local}
    changed = True
    while changed:
        changed = False
        for b in fn.blocks:
            for s in b["st"]:
                if "a" not in s or s["a"]["p"]:
                    continue
                r = s["r"]
                if r["k"] in ("use", "cast") and len(r.get("ops", [])) == 1:
                    p = op_place(r["ops"][0])
                    if p is None or p["p"]:
                        continue
                    a, c = s["a"]["l"], p["l"]
                    if (a in grp) != (c in grp):
                        grp.add(a)
                        grp.add(c)
                        changed = True
    return grp


def upper_bounded_at(fn, local, bb, tainted):
    """Is the value of `local` bounded above by an untainted value at block bb, through a dominating
    comparison `local <= U` / `local < U` (any spelling / polarity)?"""
    grp = same_value_locals(fn, local)
    cfg = fn.cfg
    for bi, b in enumerate(fn.blocks):
        for s in b["st"]:
            if "a" not in s or s["r"]["k"] != "bin" or s["r"].get("x") not in ("Lt", "Le", "Gt", "Ge"):
                continue
            ops = s["r"]["ops"]
            pa, pb = op_place(ops[0]), op_place(ops[1])
            la = pa["l"] if pa and not pa["p"] else None
            lb = pb["l"] if pb and not pb["p"] else None
            op = s["r"]["x"]
            # normalise to: x OP other
            if la in grp and (lb is None or lb not in tainted):
                rel = op           # x op U
            elif lb in grp and (la is None or la not in tainted):
                rel = {"Lt": "Gt", "Le": "Ge", "Gt": "Lt", "Ge": "Le"}[op]   # U op x  ==  x rel U
            else:
                continue
            cmp_local = s["a"]["l"]
            for sw in value_switches(fn, cmp_local, through_calls=None):
                if sw["kind"] != "bool":
                    continue
                f_t = sw["targets"].get("0")
                t_t = sw["otherwise"]
                if f_t is None:
                    continue
                if sw["inverted"]:
                    t_t, f_t = f_t, t_t
                # x < U or x <= U holds on the true edge of Lt/Le, on the false edge of Gt/Ge
                good = t_t if rel in ("Lt", "Le") else f_t
                if good is not None and good != (f_t if good == t_t else t_t) and cfg.edge_dominates(sw["bb"], good, bb):
                    return True
    return False


def loop_exits(fn, bb):
    """Normal-edge exits (s, t) of the strongly connected component (cycle set) that contains block bb."""
    cfg = fn.cfg
    fwd = cfg.reach_set([bb])
    if bb not in fwd:
        return None            # bb is not in a cycle
    scc = {b for b in fwd if bb in cfg.reach_set([b])} | {bb}
    out = []
    for s_ in sorted(scc):
        for t_ in cfg.succ[s_]:
            if t_ not in scc and cfg.can_return(t_):      # `unreachable` arms of discriminant switches are no exits
                out.append((s_, t_))
    return scc, out


def indirect_calls(fn, field):
    """[(bb, term)] calls through a function pointer loaded from a struct field named `field`
    (vtable-style dispatch)."""
    out = []
    for bb, t in fn.calls():
        if "fnop" not in t:
            continue
        p = op_place(t["fnop"])
        if p is None:
            continue
        names = [e[2] for e in p["p"] if isinstance(e, list) and e[0] == "f"]
        if field in names:
            out.append((bb, t))
            continue
        for r in fn.cfg.origins(p["l"]):
            if r[0] == "place" and any(isinstance(e, list) and e[0] == "f" and e[2] == field for e in r[3]["p"]):
                out.append((bb, t))
                break
    return out


def const_arg(t, idx):
    """literal constant value ('true'/'false'/number) of argument idx, or None."""
    if idx >= len(t.get("args", [])):
        return None
    a = t["args"][idx]
    return a.get("k") if "k" in a else None


# ---- ESCAPE: address-of-local provenance -------------------------------------------------------

_VIEW_TY = re.compile(r"^(&|\*const |\*mut |usize$|u\d+$|i\d+$|bool$|\(\)$|compio_driver::sys::sys_slice::SysSlice$|"
                      r"io_uring::types::|core::ptr::non_null::NonNull<|std::os::fd::|core::option::Option<&|"
                      r"core::option::Option<core::ptr)")


def stack_address_roots(fn, local, max_steps=300):
    """Locals L (with storage of their own: not references / pointers / scalars / pointer-like views) such
    that the value in `local` may contain the address of L itself (taken with `&L`, `&raw L`, `&L.field`
    — no deref in the place), possibly laundered through calls (a call's result may point into any of
    its arguments' referents). Returns list of (L, line)."""
    cfg = fn.cfg
    out = []
    seen = set()
    work = [local]
    steps = 0
    while work and steps < max_steps:
        l = work.pop()
        if l in seen:
            continue
        seen.add(l)
        steps += 1
        for d in cfg.defs.get(l, []):
            if d[0] == "call":
                for a in d[2].get("args", []):
                    p = op_place(a)
                    if p is not None:
                        work.append(p["l"])
            elif d[0] == "assign":
                r = d[3]["r"]
                if r["k"] in ("ref", "rawptr"):
                    p = r["pl"]
                    if "*" in p["p"]:
                        work.append(p["l"])          # points into what p.l points to
                    else:
                        base_ty = fn.local_ty(p["l"])
                        is_arg = 1 <= p["l"] <= fn.argc
                        if not _VIEW_TY.search(base_ty) and not is_arg:
                            out.append((p["l"], d[3].get("ln", 0)))
                        elif is_arg and not _VIEW_TY.search(base_ty):
                            out.append((p["l"], d[3].get("ln", 0)))   # address of a by-value parameter
                        else:
                            work.append(p["l"])
                else:
                    for p in rvalue_places(r):
                        work.append(p["l"])
    return out


def waker_refresh_ok(db, f):
    """A function that stores the caller's (cloned) waker into a slot may skip the store only when the stored
    waker `will_wake` the caller's: returns (applicable, ok). Applicable iff f (or its closures) clones a Waker."""
    bodies = [f] + [db.fns[c] for c in f.closures() if c in db.fns]
    clones = [(g, bb) for g in bodies for bb, t in g.calls()
              if call_matches(t, r"core::clone::Clone::clone$") and t.get("ga") and t["ga"][0].endswith("task::wake::Waker")]
    if not clones:
        return False, True
    uses_will_wake = any(calls(g, r"^core::task::wake::Waker::will_wake$") for g in bodies)
    conditional = False
    for g, bb in clones:
        if not g.cfg.postdominates(bb, 0):
            conditional = True
        if g is not f:
            # the clone sits in a closure: conditional unless the closure is called unconditionally (unknown) -> conservative
            conditional = True
    return True, (not conditional) or uses_will_wake
