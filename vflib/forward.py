"""FORWARD (I/O traits): an impl of a compio-io I/O trait method whose body consists of exactly one call to an I/O
trait method (a *forwarder*: `&mut A`, `Box<A>`, split halves, `&File` -> `File`, `TcpStream` -> `&TcpStream`, the
pass-through directions of BufReader / BufWriter, Cursor -> the positional trait ...) calls the method of the same
name and passes every one of its own parameters on. (A `flush` that forwards to `shutdown`, a `write_at` that drops
`pos`, a `read_vectored` that forwards to `read` all compile and all lose or misplace bytes.)"""
import re

from .facts import op_place
from .util import data_deps

IOT = re.compile(r"^compio_io::(read|write)::(\w+::)?(AsyncRead|AsyncReadAt|AsyncBufRead|AsyncWrite|AsyncWriteAt|AsyncWriteZerocopy|"
                 r"AsyncReadManaged|AsyncReadManagedAt|AsyncReadMulti|AsyncReadMultiAt)::(\w+)$")

# legitimate adapters: (impl self type regex, method) -> forwarded method, with the reason
ADAPTERS = [
    (r"^std::io::cursor::Cursor<", None, lambda m: m + "_at",
     "Cursor adapts the sequential traits to the positional ones at its own position"),
    (r"^\[u8(; LEN)?\]$", "write_vectored_at", lambda m: "write_at",
     "the slice writer walks the members and writes each with write_at at the running position"),
]


def forwarders(db, crates):
    for f in db.fns.values():
        if not f.impl or not f.impl.get("trait"):
            continue
        if not re.match(r"compio_io::(read|write)::", f.impl["trait"]):
            continue
        if not f.id.startswith(crates):
            continue
        body = db.body_of(f)
        cs = [(bb, t) for bb, t in body.calls() if IOT.match(t.get("fn") or "")]
        if len(cs) != 1:
            continue
        yield f, body, cs[0]


def _params(f, body):
    if body is f:
        return [i for i in range(2, f.argc + 1)]
    out = []
    for i, (ty, name) in enumerate(body.locals):
        if not name or name in ("self", "_task_context"):
            continue
        for d in body.cfg.defs.get(i, []):
            if d[0] == "assign" and d[3]["r"].get("k") == "use" and d[3]["r"].get("ops"):
                p = op_place(d[3]["r"]["ops"][0])
                if p is not None and p["l"] == 1 and p["p"]:
                    out.append(i)
    return out


def rule_io_forwarders(ctx, db, rid, crates, floor):
    ctx.rule(rid, "FORWARD", "an I/O-trait method that only forwards (one I/O-trait call in its body) calls the method of the "
             "same name on the wrapped value and hands on every parameter (buffer, position, amount)")
    n = 0
    for f, body, (bb, t) in forwarders(db, crates):
        n += 1
        nm = IOT.match(t["fn"]).group(4)
        want = {f.short}
        st = f.impl.get("self") or f.impl.get("self_adt") or ""
        for rx_, meth, mp, _why in ADAPTERS:
            if re.search(rx_, st) and (meth is None or meth == f.short):
                want = {mp(f.short)}
        ctx.ob(rid, "forwards-same-method:" + f.name, nm in want,
               "forwards to `%s` (expected %s)" % (nm, " / ".join(sorted(want))), f)
        deps = set()
        for a in t["args"]:
            p = op_place(a)
            if p is not None:
                deps |= data_deps(body, p["l"])[0]
        miss = [body.locals[i][1] or ("_%d" % i) for i in _params(f, body) if i not in deps]
        ctx.ob(rid, "forwards-every-parameter:" + f.name, not miss,
               "every parameter reaches the forwarded call" if not miss else "parameter(s) %s do not reach the forwarded call" % ", ".join(miss), f)
    ctx.floor(rid, "forwarding I/O-trait methods in " + ", ".join(c.rstrip(":") for c in crates), n, floor)
