"""Shared analyses over driver op codes: direction typing (DIR), backend parity (PARITY),
result-length mapping (ADV). Used by C08 (file/pipe ops) and C14 (socket ops)."""
import re
from collections import defaultdict

from .facts import call_matches, op_place, rvalue_places
from .util import calls, flow_call, arg_origin_calls, data_deps

IOUR_OP = "compio_driver::sys::driver::iour::op::OpCode"
POLL_OP = "compio_driver::sys::driver::poll::op::OpCode"
READ_BOUNDS = ("compio_buf::io_buf::IoBufMut", "compio_buf::io_vec_buf::IoVectoredBufMut")
WRITE_BOUNDS = ("compio_buf::io_buf::IoBuf", "compio_buf::io_vec_buf::IoVectoredBuf")

INIT_SIDE = {
    "compio_buf::io_buf::IoBuf::as_init", "compio_buf::io_buf::IoBufExt::buf_ptr",
    "compio_buf::io_buf::IoBufExt::as_slice",
    "compio_driver::sys::sys_slice::IoBufExt::sys_slice",
    "compio_buf::io_vec_buf::IoVectoredBuf::iter_slice",
    "compio_driver::sys::sys_slice::IoVectoredBufExt::sys_slices",
}
CAP_SIDE = {
    "compio_buf::io_buf::IoBufMut::as_uninit", "compio_buf::io_buf::IoBufMutExt::buf_mut_ptr",
    "compio_driver::sys::sys_slice::IoBufMutExt::sys_slice_mut",
    "compio_buf::io_vec_buf::IoVectoredBufMut::iter_uninit_slice",
    "compio_driver::sys::sys_slice::IoVectoredBufMutExt::sys_slices_mut",
    "compio_buf::io_buf::IoBufMutExt::as_mut_slice", "compio_buf::io_buf::IoBufMut::as_mut_slice",
}
SOCKET_RX = re.compile(r"::(Recv|Send|Accept|Connect|Bind|Listen|Shutdown|CreateSocket|CloseSocket)\w*$")


def is_socket_op(adt_name):
    return SOCKET_RX.search(adt_name) is not None


def strip_ref(s):
    s = s.strip()
    while s.startswith("&"):
        s = s[1:].lstrip()
        if s.startswith("mut "):
            s = s[4:]
        if s.startswith("'"):
            s = s.split(" ", 1)[1] if " " in s else s
    return s


def op_impls(db, trait):
    """[(impl record, self_adt, {method name: Fn})] for impls of an OpCode trait."""
    out = []
    for imp in db.impls:
        info = imp["info"]
        if info.get("trait") != trait or not info.get("self_adt"):
            continue
        ms = {}
        for nm, fid in imp["items"]:
            if fid in db.fns:
                ms[nm] = db.fns[fid]
        out.append((imp, info["self_adt"], ms))
    return out


def dir_params(preds):
    """{param: 'read'|'write'} from the impl's where-clauses."""
    out = {}
    for p in preds:
        m = re.match(r"^(\w+): (.+)$", p)
        if not m:
            continue
        name, bound = m.group(1), m.group(2)
        if bound in READ_BOUNDS:
            out[name] = "read"
        elif bound in WRITE_BOUNDS and out.get(name) != "read":
            out.setdefault(name, "write")
    return out


def accessors(db, fn, param, depth=4, _seen=None):
    """Buffer accessor calls reachable from fn whose Self type is the generic `param` (followed
    through generic helpers by mapping generic arguments to the callee's parameter names, and
    into closures, which share their parent's generics). Yields (accessor, Fn, bb)."""
    if _seen is None:
        _seen = set()
    key = (fn.id, param)
    if key in _seen:
        return
    _seen.add(key)
    bodies = [fn] + [db.fns[c] for c in fn.closures() if c in db.fns]
    for b in bodies:
        if b is not fn:
            k2 = (b.id, param)
            if k2 in _seen:
                continue
            _seen.add(k2)
            # nested closures
            bodies.extend(db.fns[c] for c in b.closures() if c in db.fns and db.fns[c] not in bodies)
        for bb, t in b.calls(include_cleanup=False):
            ga = t.get("ga") or []
            tr = t.get("tr") or ""
            name = t.get("fn") or ""
            if ga and strip_ref(ga[0]) == param and (tr.startswith("compio_buf::") or "sys_slice" in tr):
                yield (name, b, bb)
                continue
            if depth <= 0:
                continue
            for g in db.callee_fns(t, expand_traits=False):
                gen = g.rec.get("generics", [])
                for i, a in enumerate(ga):
                    if strip_ref(a) == param and i < len(gen):
                        yield from accessors(db, g, gen[i], depth - 1, _seen)


def reach_fns(db, fn, depth=3):
    """fn, its closures and workspace callees (depth-bounded), for field-use summaries."""
    out = []
    seen = set()
    work = [(fn, depth)]
    while work:
        f, d = work.pop()
        if f.id in seen:
            continue
        seen.add(f.id)
        out.append(f)
        for c in f.closures():
            if c in db.fns:
                work.append((db.fns[c], d))
        if d > 0:
            for g in db.succ_fns(f, expand_traits=False):
                if g.id.startswith("compio_driver::"):
                    work.append((g, d - 1))
    return out


def fields_read(db, fn, owner, depth=3):
    """names of fields of ADT `owner` read (or borrowed) by fn and what it reaches."""
    out = set()
    for f in reach_fns(db, fn, depth):
        def add(p):
            for e in p["p"]:
                if isinstance(e, list) and e[0] == "f" and e[3] == owner:
                    out.add(e[2])
        for bi, b in enumerate(f.blocks):
            if b["cl"]:
                continue
            for s in b["st"]:
                if "a" in s:
                    for p in rvalue_places(s["r"]):
                        add(p)
                    pr = s["a"]["p"]
                    if len(pr) > 1:
                        add({"l": 0, "p": pr[:-1]})
            t = b["t"]
            for op in (t.get("args") or []):
                p = op_place(op)
                if p:
                    add(p)
            if t["k"] == "switch":
                p = op_place(t["op"])
                if p:
                    add(p)
    return out


def ctor_inputs(db, adt_name):
    """Fields of the op struct that a constructor fills from its parameters.
    Returns {field: set(ctor names)}; constructors = inherent fns building the aggregate."""
    out = defaultdict(set)
    adt = db.adts.get(adt_name)
    if adt is None:
        return out
    for f in db.fns.values():
        if not f.impl or f.impl.get("self_adt") != adt_name or f.impl.get("trait"):
            continue
        if f.argc == 0:
            continue
        sig = f.rec.get("sig", "")
        if "self" in (f.locals[1][1] or "") and f.locals[1][1] == "self":
            # builder-style setter: fields assigned from other params
            for bi, si, s in f.stmts():
                if "a" in s and s["a"]["l"] == 1 or ("a" in s and any(isinstance(e, list) and e[0] == "f" and e[3] == adt_name for e in s["a"]["p"])):
                    fl = [e for e in s["a"]["p"] if isinstance(e, list) and e[0] == "f" and e[3] == adt_name]
                    if fl and isinstance(s["a"]["p"][-1], list) and s["a"]["p"][-1] == fl[-1]:
                        for p in rvalue_places(s["r"]):
                            if any(r[0] == "arg" and r[1] != 1 for r in f.cfg.origins(p["l"], through_calls=_any_arg)):
                                out[fl[-1][2]].add(f.short)
            continue
        for bi, si, s in f.stmts():
            r = s.get("r")
            if not r or r["k"] != "agg" or r.get("adt") != adt_name:
                continue
            for fname, op in zip(r.get("fields", []), r.get("ops", [])):
                p = op_place(op)
                if p is None:
                    continue
                roots = f.cfg.origins(p["l"], through_calls=_any_arg)
                if any(x[0] == "arg" for x in roots):
                    out[fname].add(f.short)
    return out


def _any_arg(t):
    """value flow through any call: result depends on every argument (constructor plumbing)."""
    n = len(t.get("args", []))
    return 0 if n else None


def builds_sqe(db, fn):
    """Does fn (transitively, depth 3) build an io_uring SQE?"""
    return db.reach(fn, lambda t: call_matches(t, r"^io_uring::opcode::\w+::build$"), depth=3, expand_traits=False) is not None


# ---------------------------------------------------------------------------------------------
# Rules shared by C08 / C14

ASYNC_SET = ("init", "create_entry", "create_entry_fallback", "set_result", "push_multishot")
BLOCK_SET = ("init", "call_blocking", "set_result")
POLL_SET = ("init", "pre_submit", "operate", "op_type", "set_result")

# PARITY exceptions: (backend, op base name, field) -> reason. One line each, confirmed by reading.
PARITY_EXCEPTIONS = {
}


def short(adt):
    return adt.split("::op::")[-1]


def rule_dir(ctx, db, rid, want_socket):
    """DIR: a buffer bound by IoBufMut / IoVectoredBufMut (read direction: the kernel writes into
    it) is exposed to the kernel through capacity-side accessors only."""
    n = 0
    for trait, backend in ((IOUR_OP, "iour"), (POLL_OP, "poll")):
        for imp, adt, ms in op_impls(db, trait):
            if is_socket_op(adt) != want_socket:
                continue
            dp = dir_params(imp["info"]["preds"])
            for P, d in sorted(dp.items()):
                acc = []
                for nm, f in ms.items():
                    for a, g, bb in accessors(db, f, P):
                        acc.append((nm, a, g, bb))
                    ctx.analysed(f)
                ctx.sites(len(acc))
                if d == "read":
                    n += 1
                    bad = [(nm, a, g, bb) for nm, a, g, bb in acc if a in INIT_SIDE]
                    where = bad[0][2] if bad else (ms.get("init") or ms.get("create_entry") or next(iter(ms.values()), None))
                    ctx.ob(rid, "read-buffer-capacity-side:%s/%s/%s" % (backend, short(adt), P), not bad,
                           "read-direction buffer %s (bound %s) must be handed to the OS through its spare capacity "
                           "(as_uninit / sys_slice_mut / sys_slices_mut / iter_uninit_slice), never through the "
                           "initialised part%s" % (P, "IoBufMut/IoVectoredBufMut",
                                                   (": uses " + ", ".join(sorted(set(a.rsplit("::", 1)[-1] + " in " + nm for nm, a, g, bb in bad)))) if bad else ""),
                           where)
                    # the op struct holds the buffer directly -> some backend entry must expose its capacity
                    a_rec = db.adts.get(adt)
                    direct = a_rec and any(fl["ty"] == P for _, fl in db.adt_fields(a_rec))
                    if direct:
                        ctx.ob(rid, "read-buffer-exposed:%s/%s/%s" % (backend, short(adt), P),
                               any(a in CAP_SIDE for nm, a, g, bb in acc),
                               "the buffer's capacity is given to the OS by this backend", where)
                else:
                    a_rec = db.adts.get(adt)
                    direct = a_rec and any(fl["ty"] == P for _, fl in db.adt_fields(a_rec))
                    if direct:
                        n += 1
                        ctx.ob(rid, "write-buffer-exposed:%s/%s/%s" % (backend, short(adt), P),
                               any(a in INIT_SIDE for nm, a, g, bb in acc),
                               "the initialised part of the write buffer is given to the OS by this backend",
                               ms.get("init") or ms.get("create_entry") or next(iter(ms.values()), None))
    return n


def rule_parity(ctx, db, rid, want_socket):
    """PARITY: every backend of an op consumes every constructor-supplied field."""
    n = 0
    impls = {"iour": {a: ms for imp, a, ms in op_impls(db, IOUR_OP)},
             "poll": {a: ms for imp, a, ms in op_impls(db, POLL_OP)}}
    adts = sorted(set(impls["iour"]) | set(impls["poll"]))
    for adt in adts:
        if is_socket_op(adt) != want_socket:
            continue
        inp = ctor_inputs(db, adt)
        if not inp:
            continue
        a_rec = db.adts.get(adt)
        nested = {}
        for _, fl in db.adt_fields(a_rec):
            if fl["name"] in inp:
                for h in fl["adts"]:
                    if h.startswith("compio_driver::sys::op::") and h in db.adts and h != adt and fl["ty"].startswith(h):
                        hi = ctor_inputs(db, h)
                        if hi:
                            nested[h] = set(hi)
        sets = []
        if adt in impls["iour"]:
            ms = impls["iour"][adt]
            if "create_entry" in ms and builds_sqe(db, ms["create_entry"]):
                sets.append(("iour-async", [ms[m] for m in ASYNC_SET if m in ms]))
            if "call_blocking" in ms:
                sets.append(("iour-blocking", [ms[m] for m in BLOCK_SET if m in ms]))
        if adt in impls["poll"]:
            ms = impls["poll"][adt]
            sets.append(("poll", [ms[m] for m in POLL_SET if m in ms]))
        for backend, fns in sets:
            read = set()
            nread = {h: set() for h in nested}
            for f in fns:
                ctx.analysed(f)
                read |= fields_read(db, f, adt)
                for h in nested:
                    nread[h] |= fields_read(db, f, h)
            dpa = dir_params(a_rec.get("preds", []))
            buf_fields = {fl["name"] for _, fl in db.adt_fields(a_rec) if fl["ty"] in dpa}
            for fld in sorted(inp):
                if (backend, short(adt), fld) in PARITY_EXCEPTIONS:
                    continue
                n += 1
                ctx.ob(rid, "uses-input:%s/%s.%s" % (backend, short(adt), fld), fld in read,
                       "every backend must consume the constructor-supplied field `%s` (an ignored offset / flag / "
                       "length makes this driver differ from the OS call and from the other drivers)" % fld, fns[0] if fns else None)
                if fld in buf_fields or fld not in read:
                    continue   # buffers: decided by the direction-typing rule
                n += 1
                ctx.ob(rid, "input-reaches-os:%s/%s.%s" % (backend, short(adt), fld),
                       any(field_reaches_os(db, f, adt, fld) for f in fns),
                       "the constructor-supplied `%s` must flow into (or decide) an argument of the OS call / SQE / "
                       "control block of this backend — reading it without passing it on (e.g. a positional op that "
                       "calls the non-positional syscall) makes this driver differ from the OS" % fld, fns[0] if fns else None)
            for h, hin in nested.items():
                for fld in sorted(hin):
                    n += 1
                    ctx.ob(rid, "uses-input:%s/%s.%s.%s" % (backend, short(adt), short(h), fld), fld in nread[h],
                           "every backend must consume `%s.%s`" % (short(h), fld), fns[0] if fns else None)
    return n


READ_ADV = {"single": r"^compio_driver::sys::op::ext::BufResultExt::map_advanced$",
            "vectored": r"^compio_driver::sys::op::ext::VecBufResultExt::map_vec_advanced$"}
MANAGED_ADV = r"^compio_driver::sys::op::ext::(ResultTakeBuffer|TakeBuffer)::take_buffer$|^compio_buf::io_buf::SetLenExt::advance_to$"


def op_ctor_calls(db, crate_rx):
    """[(Fn, bb, term, adt name)] calls of `<op>::new` of driver ops inside crates matching crate_rx."""
    out = []
    rx = re.compile(r"^(compio_driver::sys::op::[\w:]+?)(::<.*>)?::new$")
    for f in db.fns.values():
        if not re.search(crate_rx, f.id):
            continue
        for bb, t in f.calls(include_cleanup=False):
            m = rx.match(t.get("fn") or "")
            if m and m.group(1) in db.adts:
                out.append((f, bb, t, m.group(1)))
    return out


def _ancestors(db, f):
    out = []
    cur = f
    while cur.parent and cur.parent in db.fns:
        cur = db.fns[cur.parent]
        out.append(cur)
    return out


def _adv_after(db, f, bb, pat):
    """an advance call matching pat after the constructor call at (f, bb): dominated in f itself, or
    anywhere in an enclosing body when the op is built inside a nested closure."""
    if any(f.cfg.dominates(bb, b2) for b2, _ in calls(f, pat)):
        return True
    return any(calls(g, pat) for g in _ancestors(db, f))


def rule_adv(ctx, db, rid, want_socket, crate_rx):
    """ADV: a function that submits a read-direction op maps the returned length onto the buffer."""
    n = 0
    for f, bb, t, adt in op_ctor_calls(db, crate_rx):
        if is_socket_op(adt) != want_socket:
            continue
        a_rec = db.adts[adt]
        dp = dir_params(a_rec.get("preds", []))
        kinds = set()
        for P, d in dp.items():
            if d == "read":
                vect = any(p == "%s: compio_buf::io_vec_buf::IoVectoredBufMut" % P for p in a_rec["preds"])
                kinds.add("vectored" if vect else "single")
        managed = "::managed::" in adt
        if not kinds and not managed:
            continue
        n += 1
        ctx.sites()
        if managed:
            adv = _adv_after(db, f, bb, MANAGED_ADV)
            # multishot stream factories hand the op to SubmitMultiStream: the stream adapter takes the buffer
            if not adv and (re.search(r"Multi", adt) or db.reach(db.root_fn(f), lambda tt: call_matches(tt, r"SubmitMulti"), depth=1)):
                ctx.ob(rid, "managed-stream:%s@%s" % (short(adt), db.root_fn(f).name), True,
                       "managed multishot op is consumed by the stream adapter (C07-R4 decides the buffer hand-over)", f)
                continue
            ok = adv
            ctx.ob(rid, "managed-result-takes-buffer:%s@%s" % (short(adt), db.root_fn(f).name), ok,
                   "the selected pool buffer is taken out of the op and advanced to the returned length", f)
            continue
        want = "vectored" if "vectored" in kinds else "single"
        ok = _adv_after(db, f, bb, READ_ADV[want])
        ctx.ob(rid, "result-length-becomes-buffer-length:%s@%s" % (short(adt), db.root_fn(f).name), ok,
               "after a read-direction op the returned byte count is recorded as the buffer's new length "
               "(%s)" % ("map_vec_advanced" if want == "vectored" else "map_advanced"), f)
    return n


def fields_written(db, fn, owner, depth=3):
    """fields of ADT `owner` assigned, mutably borrowed or raw-mut-borrowed by fn and what it reaches
    (a pointer handed to the kernel counts as a write)."""
    out = set()
    for f in reach_fns(db, fn, depth):
        for bi, si, s in f.stmts():
            if "a" not in s:
                continue
            pr = s["a"]["p"]
            fl = [e for e in pr if isinstance(e, list) and e[0] == "f" and e[3] == owner]
            if fl:
                out.add(fl[0][2])
            r = s["r"]
            if r["k"] in ("ref", "rawptr") and str(r.get("x", "")).lower().startswith("mut"):
                for e in r["pl"]["p"]:
                    if isinstance(e, list) and e[0] == "f" and e[3] == owner:
                        out.add(e[2])
    return out


def rule_outputs(ctx, db, rid, want_socket):
    """OUT: every field the op's IntoInner reads that is not a constructor input (an *output*:
    accepted fd, address length, control length, message flags ...) is produced by every backend."""
    n = 0
    impls = {"iour": {a: ms for imp, a, ms in op_impls(db, IOUR_OP)},
             "poll": {a: ms for imp, a, ms in op_impls(db, POLL_OP)}}
    for adt in sorted(set(impls["iour"]) | set(impls["poll"])):
        if is_socket_op(adt) != want_socket:
            continue
        into = [f for f in db.fns.values() if f.impl and f.impl.get("self_adt") == adt and
                f.impl.get("trait") == "compio_buf::IntoInner" and f.short == "into_inner"]
        if not into:
            continue
        a_rec = db.adts[adt]
        inp = set(ctor_inputs(db, adt))
        dp = dir_params(a_rec.get("preds", []))
        owners = {adt: inp}
        for _, fl in db.adt_fields(a_rec):
            for h in fl["adts"]:
                if h.startswith("compio_driver::sys::op::") and h in db.adts and h != adt and fl["ty"].startswith(h):
                    owners[h] = set(ctor_inputs(db, h))
        outs = []
        for own, oin in owners.items():
            rec = db.adts[own]
            buf_fields = {fl["name"] for _, fl in db.adt_fields(rec) if fl["ty"] in dp}
            nested = {fl["name"] for _, fl in db.adt_fields(rec) if any(fl["ty"].startswith(h) for h in owners if h != own)}
            for fld in sorted(fields_read(db, into[0], own)):
                if fld in oin or fld in buf_fields or fld in nested:
                    continue
                outs.append((own, fld))
        if not outs:
            continue
        sets = []
        if adt in impls["iour"]:
            ms = impls["iour"][adt]
            if "create_entry" in ms and builds_sqe(db, ms["create_entry"]):
                sets.append(("iour-async", [ms[m] for m in ASYNC_SET if m in ms]))
            if "call_blocking" in ms:
                sets.append(("iour-blocking", [ms[m] for m in BLOCK_SET if m in ms]))
        if adt in impls["poll"]:
            ms = impls["poll"][adt]
            sets.append(("poll", [ms[m] for m in POLL_SET if m in ms]))
        for backend, fns in sets:
            for own, fld in outs:
                w = set()
                for f in fns:
                    w |= fields_written(db, f, own)
                n += 1
                ctx.ob(rid, "produces-output:%s/%s%s.%s" % (backend, short(adt), ("." + short(own).rsplit("::", 1)[-1]) if own != adt else "", fld), fld in w,
                       "the value `%s` handed to the caller by into_inner() is written by this backend "
                       "(address / control length, flags, accepted descriptor come back from the OS)" % fld,
                       fns[0] if fns else None)
    return n


# ---------------------------------------------------------------------------------------------
# PARITY-strong: a constructor input must *reach the OS* (flow into an argument of a syscall wrapper /
# SQE builder, or decide a branch that leads to one) in every backend.

OS_SINK = re.compile(r"^(rustix|libc|io_uring|socket2|nix|std::fs|std::net|std::os|std::process|polling)::|"
                     r"^compio_driver::sys::driver::poll::op::(Decision|WaitArg|OpType)::|"
                     r"^compio_driver::buffer_pool::BufferPool::|"
                     r"^core::ops::function::FnOnce::call_once$|^core::mem::manually_drop::ManuallyDrop::<T>::drop$")


def _field_sources(f, owner, field):
    """locals of f that are assigned (a reference to / copy of) owner.field, and call sites that take
    a place inside owner.field directly as an argument."""
    srcs = set()
    direct_calls = []
    def hit(p):
        return any(isinstance(e, list) and e[0] == "f" and e[2] == field and e[3] == owner for e in p["p"])
    for bi, si, s in f.stmts():
        if "a" not in s:
            continue
        for p in rvalue_places(s["r"]):
            if hit(p):
                srcs.add(s["a"]["l"])
    for bb, t in f.calls():
        for i, a in enumerate(t.get("args", [])):
            p = op_place(a)
            if p and hit(p):
                direct_calls.append((bb, t, i))
    sw = []
    for bi, b in enumerate(f.blocks):
        t = b["t"]
        if t["k"] == "switch":
            p = op_place(t["op"])
            if p and hit(p):
                sw.append(bi)
    return srcs, direct_calls, sw


def _reaches_os_from(db, f, tainted0, depth, seen):
    """does a value in `tainted0` (locals of f) flow into an OS sink (or control one)?"""
    from .util import taint_forward
    tainted = taint_forward(f, tainted0)
    has_sink_after = lambda bb: any(call_matches(t2, OS_SINK) for b2, t2 in f.calls() if b2 in f.cfg.reach_from_block(bb))
    # storing into the op's control block (the msghdr / iovec / aiocb the kernel is pointed at) reaches the OS
    if f.argc >= 2 and "Control" in f.local_ty(2):
        for bi, si, s in f.stmts():
            if "a" in s and s["a"]["l"] == 2 and s["a"]["p"] and any(p["l"] in tainted for p in rvalue_places(s["r"])):
                return True
    for bi, b in enumerate(f.blocks):
        if b["cl"]:
            continue
        t = b["t"]
        if t["k"] == "switch":
            p = op_place(t["op"])
            if p and p["l"] in tainted and has_sink_after(bi):
                return True
        if t["k"] != "call":
            continue
        targs = [i for i, a in enumerate(t.get("args", [])) if (op_place(a) or {}).get("l") in tainted]
        if not targs:
            continue
        if call_matches(t, OS_SINK):
            return True
        if depth > 0:
            for g in db.callee_fns(t, expand_traits=False):
                if not g.id.startswith("compio_driver::"):
                    continue
                key = (g.id, tuple(targs))
                if key in seen:
                    continue
                seen.add(key)
                if _reaches_os_from(db, g, {i + 1 for i in targs}, depth - 1, seen):
                    return True
            # a tainted closure environment: closures built from tainted captures are analysed as bodies below
    # closures capturing tainted locals
    for bi, si, s in f.stmts():
        r = s.get("r", {})
        if r.get("k") == "agg" and r.get("x") in ("closure", "coroutine") and s["a"]["l"] in tainted:
            g = db.fns.get(r["def"])
            if g is not None and (g.id, "env") not in seen:
                seen.add((g.id, "env"))
                if _reaches_os_from(db, g, {1}, depth, seen):
                    return True
    return False


def field_reaches_os(db, fn, owner, field, depth=3):
    """Does owner.field, read somewhere in fn / its closures / the driver helpers it calls (passing self),
    flow into an OS call?"""
    seen = set()
    for f in reach_fns(db, fn, depth):
        srcs, dcalls, sw = _field_sources(f, owner, field)
        if sw and any(call_matches(t2, OS_SINK) for b2, t2 in f.calls()):
            return True
        for bb, t, i in dcalls:
            if call_matches(t, OS_SINK):
                return True
            for g in db.callee_fns(t, expand_traits=False):
                if g.id.startswith("compio_driver::") and _reaches_os_from(db, g, {i + 1}, depth, seen):
                    return True
            # the call's result is derived from the field
            srcs.add(t["dst"]["l"])
        # helper methods that read the field and return a value derived from / decided by it
        for bb, t in f.calls():
            for g in db.callee_fns(t, expand_traits=False):
                if g is not f and g.id.startswith("compio_driver::") and g.locals and g.locals[0][0] != "()" and \
                        field in fields_read(db, g, owner, depth=1):
                    srcs.add(t["dst"]["l"])
        if srcs and _reaches_os_from(db, f, srcs, depth, seen):
            return True
    return False


def rule_forward(ctx, db, rid, want_socket=None):
    """FORWARD: an op that wraps another op (its trait methods forward to the same trait's methods of an
    inner op) forwards *every* method the inner op's impl overrides."""
    n = 0
    for trait in (IOUR_OP, POLL_OP):
        tshort = "iour" if trait == IOUR_OP else "poll"
        impls = {a: (imp, ms) for imp, a, ms in op_impls(db, trait)}
        for adt, (imp, ms) in sorted(impls.items()):
            if want_socket is not None and is_socket_op(adt) != want_socket:
                continue
            # inner op types whose trait methods this wrapper calls
            inner = {}
            for nm, f in ms.items():
                for g in reach_fns(db, f, depth=1):
                    for bb, t in g.calls():
                        if t.get("tr") == trait or t.get("itr") == trait:
                            rid_ = t.get("rfnid") or ""
                            tgt = db.fns.get(rid_)
                            if tgt is not None and tgt.impl and tgt.impl.get("self_adt") and tgt.impl["self_adt"] != adt:
                                inner.setdefault(tgt.impl["self_adt"], set()).add((nm, tgt.short))
            for x, pairs in sorted(inner.items()):
                if x not in impls:
                    continue
                over = set(impls[x][1].keys())
                fwd = {callee for (nm, callee) in pairs}
                if len(fwd) < 2:
                    continue      # not a forwarding wrapper (uses one helper of the inner op only)
                for mth in sorted(over):
                    # entry builders are the wrapper's own business (it submits a different opcode); call_blocking is
                    # only reachable when the wrapper's entries are unsupported — 2 of 5 zero-copy siblings and the
                    # multishot accept do not forward it (triage note F12 in DESIGN.md, not armed)
                    if mth in ("Control", "create_entry", "create_entry_fallback", "call_blocking"):
                        continue
                    n += 1
                    ctx.ob(rid, "wrapper-forwards:%s/%s->%s.%s" % (tshort, short(adt), short(x), mth), mth in fwd,
                           "the wrapper op forwards `%s` to the inner op, which overrides it (a default no-op on the "
                           "wrapper silently drops what the inner op does there, e.g. recording the received length or "
                           "copying address / control lengths back at completion)" % mth,
                           ms.get(mth) or next(iter(ms.values())))
    return n


# ---- readiness interest of polling ops ----------------------------------------------------------------------------
_RD_SYS = re.compile(r"(::|^)(recv|recvfrom|recvmsg|read|readv|accept|accept4|accept_with|acceptfrom|acceptfrom_with|recv_uninit|read_uninit)$")
_WR_SYS = re.compile(r"(::|^)(send|sendto|sendmsg|sendmsg_addr|write|writev|connect|sendmsg_v4|sendmsg_v6|sendmsg_unix)$")


def _interests(f):
    out = set()
    for bb, t in f.calls():
        n = t.get("rfn") or t.get("fn") or ""
        if n.endswith("Decision::wait_readable"):
            out.add("Readable")
        elif n.endswith("Decision::wait_writable"):
            out.add("Writable")
        elif n.endswith("::decide") or n.endswith("Decision::wait_for"):
            pl = op_place(t["args"][1]) if len(t.get("args", [])) > 1 else None
            if pl is not None:
                locs, cr, places = data_deps(f, pl["l"])
                for l in locs | {pl["l"]}:
                    for d in f.cfg.defs.get(l, []):
                        if d[0] == "assign" and d[3]["r"].get("k") == "agg" and (d[3]["r"].get("adt") or "").endswith("Interest"):
                            out.add(d[3]["r"].get("var"))
    return out


def rule_interest(ctx, db, rid, want_socket):
    """A polling op that has to wait registers the readiness that matches its system call: Readable for the receiving /
    reading / accepting calls, Writable for the sending / writing / connecting ones. (Waiting for the wrong direction
    compiles and passes every test that never meets a full or empty socket buffer; under back-pressure the op hangs.)"""
    n = 0
    for imp, adt, ms in op_impls(db, POLL_OP):
        if want_socket is not None and is_socket_op(adt) != want_socket:
            continue
        ints, cls = set(), set()
        for f in ms.values():
            for g in reach_fns(db, f, depth=3):
                if g.id.startswith("compio_driver::sys::op"):
                    ints |= _interests(g)
                for bb, t in g.calls():
                    nm = t.get("rfn") or t.get("fn") or ""
                    if nm.startswith(("rustix::", "libc::", "socket2::")):
                        if _RD_SYS.search(nm):
                            cls.add("Readable")
                        if _WR_SYS.search(nm):
                            cls.add("Writable")
        if not ints or len(cls) != 1:
            continue
        n += 1
        want = next(iter(cls))
        ctx.ob(rid, "interest-matches-syscall:" + short(adt) + "@" + imp["info"].get("id", "")[-12:], ints == {want},
               "waits for %s, its system call needs %s" % ("/".join(sorted(ints)), want), next(iter(ms.values()), None))
    return n
