"""Fact extraction: runs the factdrv rustc driver over /repo under cargo +nightly check.

Facts are cached per configuration and keyed by a content hash of /repo's
current working tree (every *.rs, Cargo.toml, Cargo.lock, build.rs) plus the
driver binary; a check re-extracts iff the key changed, so every check decides
from the *current* tree.
"""
import fcntl
import glob
import hashlib
import json
import os
import shutil
import subprocess
import sys
import time
import uuid

VERIF = os.path.dirname(os.path.dirname(os.path.abspath(__file__)))
REPO = os.environ.get("VF_REPO", "/repo")
CACHE = os.environ.get("VF_CACHE", os.path.join(VERIF, ".cache"))
DRIVER = os.path.join(VERIF, "factdrv", "target", "debug", "factdrv")

CONFIGS = {
    # id: (cargo args, crates that must produce facts, description)
    "A": (["--workspace"], "all", "pinned build: io_uring driver only"),
    "B": (["--workspace", "--features", "compio/polling"], "all",
          "fusion: io_uring + polling drivers, fallback pool, fused ops"),
    "C": (["-p", "compio-driver", "--no-default-features", "--features", "polling"],
          ["compio_driver", "compio_buf", "compio_log"], "polling-only driver"),
    "D": (["--workspace", "--features", "compio/polling,compio-driver/sync"], "all",
          "fusion + cross-thread SharedFd (sync primitives)"),
    "E": (["--workspace", "--features", "compio/all,compio/polling"], "all",
          "everything: fusion (io_uring + polling) plus every optional feature (io-compat, codecs, fs-dir, "
          "native-tls, rustls, quic/h3, ws, process, time ...)"),
}

MEMBERS = [
    "compio", "compio_actor", "compio_buf", "compio_dispatcher", "compio_driver",
    "compio_fs", "compio_io", "compio_log", "compio_macros", "compio_net",
    "compio_process", "compio_quic", "compio_runtime", "compio_executor",
    "compio_signal", "compio_term", "compio_tls", "compio_ws", "compio_compat",
]


def log(*a):
    print("[vf]", *a, file=sys.stderr, flush=True)


def nightly_sysroot():
    return subprocess.check_output(["rustc", "+nightly", "--print", "sysroot"], text=True).strip()


def source_key(repo=None):
    repo = repo or REPO
    h = hashlib.sha256()
    files = []
    for root, dirs, fs in os.walk(repo):
        dirs[:] = sorted(d for d in dirs if d not in ("target", ".git", "node_modules"))
        for f in sorted(fs):
            if f.endswith(".rs") or f in ("Cargo.toml", "Cargo.lock", "build.rs"):
                files.append(os.path.join(root, f))
    for p in files:
        h.update(os.path.relpath(p, repo).encode())
        h.update(b"\0")
        try:
            with open(p, "rb") as fh:
                h.update(fh.read())
        except OSError:
            h.update(b"<unreadable>")
        h.update(b"\0")
    try:
        with open(DRIVER, "rb") as fh:
            h.update(hashlib.sha256(fh.read()).digest())
    except OSError:
        h.update(b"<no-driver>")
    h.update(repo.encode())
    return h.hexdigest(), len(files)


class ExtractError(Exception):
    pass


def build_driver():
    env = dict(os.environ)
    env["CARGO_NET_OFFLINE"] = "true"
    r = subprocess.run(["cargo", "+nightly", "build", "--offline"],
                       cwd=os.path.join(VERIF, "factdrv"), env=env,
                       stdout=subprocess.PIPE, stderr=subprocess.STDOUT, text=True)
    if r.returncode != 0 or not os.path.exists(DRIVER):
        raise ExtractError("building factdrv failed:\n" + r.stdout[-4000:])


def facts_dir(cfg):
    return os.path.join(CACHE, "facts-" + cfg)


def ensure(cfg, force=False):
    """Make sure facts for `cfg` correspond to the current working tree. Returns dict info."""
    os.makedirs(CACHE, exist_ok=True)
    if not os.path.exists(DRIVER):
        build_driver()
    lock = open(os.path.join(CACHE, "lock-" + cfg), "w")
    fcntl.flock(lock, fcntl.LOCK_EX)
    try:
        key, nfiles = source_key()
        fdir = facts_dir(cfg)
        keyfile = os.path.join(fdir, "KEY.json")
        if not force and os.path.exists(keyfile):
            try:
                info = json.load(open(keyfile))
                if info.get("key") == key and info.get("ok"):
                    info["cached"] = True
                    return info
            except Exception:
                pass
        t0 = time.time()
        args, expect, _desc = CONFIGS[cfg]
        target = os.path.join(CACHE, "target-" + cfg)
        # cargo's freshness cache would skip the wrapper for unchanged members
        for d in glob.glob(os.path.join(target, "debug", ".fingerprint", "compio*")):
            shutil.rmtree(d, ignore_errors=True)
        tmp = fdir + ".new"
        shutil.rmtree(tmp, ignore_errors=True)
        os.makedirs(tmp)
        nonce = uuid.uuid4().hex
        env = dict(os.environ)
        env.update({
            "CARGO_NET_OFFLINE": "true",
            "LD_LIBRARY_PATH": nightly_sysroot() + "/lib" + (":" + env["LD_LIBRARY_PATH"] if env.get("LD_LIBRARY_PATH") else ""),
            "RUSTFLAGS": "-Zmir-opt-level=0 -Awarnings",
            "RUSTC_WORKSPACE_WRAPPER": DRIVER,
            "CARGO_TARGET_DIR": target,
            "VF_FACTS_DIR": tmp,
            "VF_NONCE": nonce,
        })
        env.pop("RUSTC_WRAPPER", None)
        cmd = ["cargo", "+nightly", "check", "--offline"] + args
        log("extracting facts: config", cfg, " ".join(cmd))
        r = subprocess.run(cmd, cwd=REPO, env=env, stdout=subprocess.PIPE,
                           stderr=subprocess.STDOUT, text=True)
        if r.returncode != 0:
            shutil.rmtree(tmp, ignore_errors=True)
            raise ExtractError("cargo check failed for config %s (the tree does not type-check "
                               "in this configuration):\n%s" % (cfg, r.stdout[-6000:]))
        produced = {}
        for p in glob.glob(os.path.join(tmp, "*.jsonl")):
            with open(p) as fh:
                head = json.loads(fh.readline())
            if head.get("nonce") != nonce:
                raise ExtractError("stale fact file " + p)
            produced[head["name"]] = os.path.basename(p)
        # fail closed: every body must be the pre-transform MIR (never the stolen fallback)
        stolen = subprocess.run("grep -l '\"stolen\":true' %s/*.jsonl" % tmp, shell=True, stdout=subprocess.PIPE, text=True).stdout.split()
        if stolen:
            shutil.rmtree(tmp, ignore_errors=True)
            raise ExtractError("mir_promoted was stolen for some bodies in %s (extraction is not faithful)" % stolen)
        want = MEMBERS if expect == "all" else expect
        missing = [m for m in want if m not in produced]
        if missing:
            shutil.rmtree(tmp, ignore_errors=True)
            raise ExtractError("no facts produced for %s in config %s (driver skipped?)" % (missing, cfg))
        info = {"key": key, "ok": True, "config": cfg, "nonce": nonce, "files": produced,
                "source_files_hashed": nfiles, "extract_s": round(time.time() - t0, 2),
                "cmd": " ".join(cmd)}
        json.dump(info, open(os.path.join(tmp, "KEY.json"), "w"), indent=1)
        shutil.rmtree(fdir, ignore_errors=True)
        os.rename(tmp, fdir)
        info["cached"] = False
        log("config %s extracted in %.1fs (%d crates)" % (cfg, time.time() - t0, len(produced)))
        return info
    finally:
        fcntl.flock(lock, fcntl.LOCK_UN)
        lock.close()
