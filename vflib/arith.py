"""Justification of checked subtractions and open-ended slice indexing ("b <= a is established before
`a - b` / `x[b..]` / `x[..b]`"), used by C11 for the in-memory readers / writers, Take and Buffer.

A site is *justified* when one of the enumerated idioms of this repository establishes  b <= a:
  J1  a dominating comparison edge (any spelling / polarity, also the else-edge: `if p <= len {..} else { p - len }`)
      whose operands are the same *expressions* as a and b (value numbering over copies, casts, field loads
      and pure accessor calls such as len()/buf_len()/buf_capacity());
  J2  b is the result of `min(.., a)` (Ord::min / cmp::min, through casts);
  J3  a = len(X), b = len(Y) and Y is a re-slice of X (`this = &this[n..]` loops);
  J4  b is the count returned by a workspace copy helper whose result is `min(len(arg0), ..)` and a is
      len(arg0) of that very call (slice_to_buf / slice_to_uninit).
Stores between the comparison and the use are not tracked (stated in DESIGN §5)."""
import re

from .facts import call_matches, op_place
from .util import value_switches

PURE = re.compile(r"(::len|::buf_len|::buf_capacity|::capacity|::as_init|::as_slice|::as_ref|::deref|::deref_mut|"
                  r"::begin|::position|::get_ref|::as_inner|::borrow|::as_mut_slice|::as_uninit|::into|::from|::try_into|::unwrap)$")
LEN = re.compile(r"(::len|::buf_len)$")
MIN = re.compile(r"(core::cmp::Ord::min|core::cmp::min)$")
INDEX = re.compile(r"ops::index::Index(Mut)?::index(_mut)?$")


class Sigs:
    """Expression signatures of locals of one function (hash-consing value numbering)."""

    def __init__(self, fn):
        self.fn = fn
        self.memo = {}
        self.busy = set()

    def place(self, p):
        base = self.local(p["l"])
        proj = tuple((e[2] if isinstance(e, list) and e[0] == "f" else (tuple(e) if isinstance(e, list) else e))
                     for e in p["p"] if e != "*")
        return ("pl", base, proj) if proj else base

    def operand(self, op):
        p = op_place(op)
        if p is not None:
            return self.place(p)
        return ("const", op.get("v"), op.get("k"))

    def local(self, l):
        if l in self.memo:
            return self.memo[l]
        if l in self.busy:
            return ("local", l)
        self.busy.add(l)
        fn = self.fn
        ds = fn.cfg.defs.get(l, [])
        sig = ("local", l)
        if len(ds) == 1:
            d = ds[0]
            if d[0] == "arg":
                sig = ("arg", l)
            elif d[0] == "assign" and not d[3]["a"]["p"]:
                r = d[3]["r"]
                if r["k"] in ("use", "cast", "ref", "rawptr") and len(r.get("ops", [])) + (1 if "pl" in r else 0) == 1:
                    pls = [r["pl"]] if "pl" in r else [op_place(o) for o in r["ops"]]
                    if pls[0] is not None:
                        sig = self.place(pls[0])
                    else:
                        sig = self.operand(r["ops"][0])
            elif d[0] == "call":
                t = d[2]
                if call_matches(t, PURE):
                    nm = (t.get("fn") or "").rsplit("::", 1)[-1]
                    if nm in ("into", "from", "try_into", "unwrap", "deref", "deref_mut", "as_ref", "borrow", "as_slice", "as_init",
                              "as_mut_slice"):
                        # identity-like for the purposes of length reasoning
                        sig = self.operand(t["args"][0]) if t["args"] else sig
                    else:
                        if nm == "buf_len":
                            nm = "len"
                        sig = ("call", nm, tuple(self.operand(a) for a in t["args"]))
        self.busy.discard(l)
        self.memo[l] = sig
        return sig


def _cmp_edges(fn):
    """All comparisons `x OP y` with their (switch bb, true target, false target)."""
    out = []
    for bi, b in enumerate(fn.blocks):
        for s in b["st"]:
            if "a" not in s or s["r"]["k"] != "bin" or s["r"].get("x") not in ("Lt", "Le", "Gt", "Ge"):
                continue
            for sw in value_switches(fn, s["a"]["l"], through_calls=None):
                if sw["kind"] != "bool":
                    continue
                f_t = sw["targets"].get("0")
                t_t = sw["otherwise"]
                if f_t is None:
                    if "1" in sw["targets"]:
                        t_t, f_t = sw["targets"]["1"], sw["otherwise"]
                    else:
                        continue
                if sw["inverted"]:
                    t_t, f_t = f_t, t_t
                out.append((s["r"]["x"], s["r"]["ops"], sw["bb"], t_t, f_t))
    return out


def established_le(fn, sigs, b_sig, a_sig, bb):
    """J1: is `b <= a` implied by a comparison edge that dominates block bb?"""
    cfg = fn.cfg
    for op, ops, sbb, t_t, f_t in _cmp_edges(fn):
        x, y = sigs.operand(ops[0]), sigs.operand(ops[1])
        # edge on which (lo <= hi) holds
        # x<y / x<=y true edge: x<=y ; Gt/Ge false edge: x<=y ; Lt/Le false edge: y<=x (y<x) ; Gt/Ge true edge: y<=x
        if op in ("Lt", "Le"):
            rels = [(x, y, t_t), (y, x, f_t)]
        else:
            rels = [(y, x, t_t), (x, y, f_t)]
        for lo, hi, edge in rels:
            if edge is None or lo != b_sig or hi != a_sig:
                continue
            other = f_t if edge == t_t else t_t
            if edge == other:
                continue
            if cfg.edge_dominates(sbb, edge, bb):
                return True
    return False


def _strip(sig):
    return sig


def min_of(fn, sigs, local, seen=None):
    """If `local` is (a copy / cast of) the result of min(p, q): return [sig(p), sig(q)], else None."""
    seen = seen or set()
    if local in seen:
        return None
    seen.add(local)
    ds = fn.cfg.defs.get(local, [])
    if len(ds) != 1:
        return None
    d = ds[0]
    if d[0] == "call":
        t = d[2]
        if call_matches(t, MIN) and len(t["args"]) == 2:
            return [sigs.operand(t["args"][0]), sigs.operand(t["args"][1])]
        if call_matches(t, r"(::into|::from|::try_into|::unwrap)$") and t["args"]:
            p = op_place(t["args"][0])
            if p is not None and not p["p"]:
                return min_of(fn, sigs, p["l"], seen)
        return None
    if d[0] == "assign" and not d[3]["a"]["p"]:
        r = d[3]["r"]
        if r["k"] in ("use", "cast") and r.get("ops"):
            p = op_place(r["ops"][0])
            if p is not None and not p["p"]:
                return min_of(fn, sigs, p["l"], seen)
    return None


def reslice_of(fn, sigs, y_local, x_sig, depth=0, seen=None):
    """J3: every origin of slice local y is x itself or a re-slice (Index with a range) of such a value."""
    seen = seen if seen is not None else set()
    if y_local in seen:
        return True
    seen.add(y_local)
    if sigs.local(y_local) == x_sig:
        return True
    ds = fn.cfg.defs.get(y_local, [])
    if not ds:
        return False
    for d in ds:
        if d[0] == "arg":
            return False
        if d[0] == "call":
            t = d[2]
            if call_matches(t, INDEX) or call_matches(t, r"(::deref|::as_ref|::as_slice|::as_init|::borrow)$"):
                if sigs.operand(t["args"][0]) == x_sig:
                    continue
                p = op_place(t["args"][0])
                if p is None or not reslice_of(fn, sigs, p["l"], x_sig, depth + 1, seen):
                    return False
            else:
                return False
        else:
            s = d[3]
            if s["a"]["p"]:
                return False
            r = s["r"]
            if r["k"] not in ("use", "cast", "ref"):
                return False
            pls = [r["pl"]] if "pl" in r else [op_place(o) for o in r.get("ops", [])]
            for p in pls:
                if p is None:
                    return False
                if sigs.place(p) == x_sig:
                    continue
                if not reslice_of(fn, sigs, p["l"], x_sig, depth + 1, seen):
                    return False
    return True


def _returns_min_of_len_arg0(db, g, depth=2):
    """Does workspace fn g return min(len(arg0), ..) (possibly via one more helper)?"""
    if g is None or depth < 0:
        return False
    sg = Sigs(g)
    # return local 0
    work = [0]
    seen = set()
    while work:
        l = work.pop()
        if l in seen:
            continue
        seen.add(l)
        m = min_of(g, sg, l)
        if m is not None:
            for s in m:
                if s[0] == "call" and s[1] == "len" and s[2] and s[2][0] == ("arg", 1):
                    return True
        for d in g.cfg.defs.get(l, []):
            if d[0] == "assign" and d[3]["r"]["k"] in ("use", "cast"):
                for o in d[3]["r"].get("ops", []):
                    p = op_place(o)
                    if p is not None and not p["p"]:
                        work.append(p["l"])
            elif d[0] == "call":
                t = d[2]
                for h in db.callee_fns(t, expand_traits=False):
                    if t["args"] and sg.operand(t["args"][0]) == ("arg", 1) and _returns_min_of_len_arg0(db, h, depth - 1):
                        return True
    return False


def helper_count_of(db, fn, sigs, local, seen=None):
    """J4: local is the count returned by a copy helper -> sig of that call's arg0, else None."""
    seen = seen or set()
    if local in seen:
        return None
    seen.add(local)
    ds = fn.cfg.defs.get(local, [])
    if len(ds) != 1:
        return None
    d = ds[0]
    if d[0] == "call":
        t = d[2]
        for g in db.callee_fns(t, expand_traits=False):
            if t["args"] and _returns_min_of_len_arg0(db, g):
                return sigs.operand(t["args"][0])
        return None
    if d[0] == "assign" and not d[3]["a"]["p"] and d[3]["r"]["k"] in ("use", "cast") and d[3]["r"].get("ops"):
        p = op_place(d[3]["r"]["ops"][0])
        if p is not None and not p["p"]:
            return helper_count_of(db, fn, sigs, p["l"], seen)
    return None


CAPS = ("capacity", "buf_capacity")


def _contract(a_sig, b_sig):
    """J5: b = len(X) and a = capacity(X) of the same buffer X (or a = the spare-capacity slice of X)."""
    if b_sig[0] != "call" or b_sig[1] != "len":
        return False
    if a_sig[0] == "call" and a_sig[1] in CAPS and a_sig[2] == b_sig[2]:
        return True
    if a_sig[0] == "call" and a_sig[1] == "len" and a_sig[2] and a_sig[2][0][0] == "call" and a_sig[2][0][1] == "as_uninit" \
            and a_sig[2][0][2] == b_sig[2]:
        return True
    return False


def justify(db, fn, sigs, a_op, b_op, bb, a_is_len_of=None, contract=False):
    """Return the name of the idiom establishing b <= a at block bb, or None.
    a_op / b_op: MIR operands (a may be None when a_is_len_of is given: then a = len(that sig))."""
    b_sig = sigs.operand(b_op)
    if a_is_len_of is not None:
        a_sigs = [("call", "len", (a_is_len_of,))]
    else:
        a_sigs = [sigs.operand(a_op)]
    bp = op_place(b_op)
    if bp is None:
        # constant subtrahend: `x - 1` style needs x >= 1 ; accept only const 0
        return "const-0" if str(b_op.get("v")) == "0" else None
    for a_sig in a_sigs:
        if contract and _contract(a_sig, b_sig):
            return "J5 len <= capacity of the same buffer (the IoBuf contract)"
        if established_le(fn, sigs, b_sig, a_sig, bb):
            return "J1 dominating comparison"
        if not bp["p"]:
            m = min_of(fn, sigs, bp["l"])
            if m is not None and a_sig in m:
                return "J2 min()"
            src = helper_count_of(db, fn, sigs, bp["l"])
            if src is not None and a_sig == ("call", "len", (src,)):
                return "J4 count of a copy helper bounded by len(src)"
        # J3
        if a_sig[0] == "call" and a_sig[1] == "len" and b_sig[0] == "call" and b_sig[1] == "len":
            pass
    # J3 needs locals, not sigs: a = len(X), b = len(Y)
    if a_is_len_of is None:
        ap = op_place(a_op)
        if ap is not None and not ap["p"] and not bp["p"]:
            xa = _len_receiver(fn, ap["l"])
            yb = _len_receiver(fn, bp["l"])
            if xa is not None and yb is not None:
                x_sig = sigs.operand(xa)
                yp = op_place(yb)
                if yp is not None and reslice_of(fn, sigs, yp["l"], x_sig):
                    return "J3 length of a re-slice"
    return None


def _len_receiver(fn, local):
    ds = fn.cfg.defs.get(local, [])
    if len(ds) != 1 or ds[0][0] != "call":
        return None
    t = ds[0][2]
    if call_matches(t, LEN) and t["args"]:
        return t["args"][0]
    return None


def sites(fn):
    """Yield ('sub', bb, a_op, b_op, line) for checked subtractions and
    ('idx', bb, target_op, bound_op, kind, line) for x[b..] / x[..b]."""
    for bi, b in enumerate(fn.blocks):
        if b["cl"]:
            continue
        for s in b["st"]:
            r = s.get("r", {})
            if r.get("k") == "bin" and r.get("x") == "SubWithOverflow":
                yield ("sub", bi, r["ops"][0], r["ops"][1], s.get("ln"))
        t = b["t"]
        if t["k"] == "call" and call_matches(t, INDEX) and len(t.get("ga") or []) >= 2:
            rng = t["ga"][1]
            m = re.search(r"range::(RangeFrom|RangeTo)<usize>$", rng)
            if not m:
                continue
            # find the aggregate that built the range
            p = op_place(t["args"][1])
            bound = None
            if p is not None:
                for d in fn.cfg.defs.get(p["l"], []):
                    if d[0] == "assign" and d[3]["r"]["k"] == "agg" and d[3]["r"].get("ops"):
                        bound = d[3]["r"]["ops"][0]
            if bound is not None:
                yield ("idx", bi, t["args"][0], bound, m.group(1), t.get("ln"))
