"""C04 — Task and join-handle lifecycle (structural clauses)."""
import re

from .. import engine
from ..facts import call_matches, op_place, rvalue_places
from ..util import (postdominated_by_any, Summaries, calls, dominated_by_any, guarded_by_bool, guarded_by_variant, discr_edges, bool_edges,
                    receiver_field, arg_origin_calls, data_deps, indirect_calls, const_arg, flow_call)

NOT_DECIDED = ("freedom from double free / double drop under every remote interleaving (loom's job), starvation "
               "bounds; the rules decide who may drop what, in which order, and which flags guard each step")

EX = r"^compio_executor::"


def m(db, adt, name, trait=""):
    return db.methods(self_adt=adt, name=name, trait=trait)


def rules(ctx, db):
    R = ctx.rule
    R("R1", "ORD+GUARD", "run(): unschedule, skip when cancelled, poll under catch_unwind, swap the future for its result, "
      "finish_running, wake the joiner only when a waker is set and not being set")
    R("R2", "PAIR", "remote JoinHandle::poll: the SETTING_WAKER critical section is closed exactly once on every path")
    R("R3", "WMC", "the future is dropped only by the executor side (Task::drop) or, for a stored result, by cancel / the last "
      "reference; deallocation only by the last reference; Task::drop only from tick and clear")
    R("R4", "ORD", "tick: bounded by max_interval; each hot task is made cold, taken and run; Ready ⇒ drop then remove, Pending ⇒ reset")
    R("R5", "ORD", "teardown: dropped flag before nulling the shared pointer; drop every task then wait for remote "
      "scheduling; clear before freeing the shared block; runtime teardown clears inside enter()")
    R("R6", "ORD", "cancel publishes the cancelled flag before it schedules the task, and a remote schedule does not "
      "refuse a cancelled task")
    R("R7", "TYPE", "JoinHandle<T> is Send only for T: Send; executor-side types have no unsafe Send/Sync impls")

    if not any(f.id.startswith("compio_executor::") for f in db.fns.values()):
        return
    T = r"^compio_executor::task::Task$"
    # ---------------- R1
    run = m(db, T, "run")
    if not run:
        ctx.missing("R1", "Task::run")
    for f in run:
        us = [bb for bb, _ in calls(f, r"State::unschedule$")]
        ww = [bb for bb, _ in calls(f, r"::with_waker$")]
        ok = len(us) == 1 and len(ww) == 1 and f.cfg.dominates(us[0], ww[0])
        ctx.ob("R1", "unschedule-first", ok, "run() clears SCHEDULED before anything else (a wake during the poll re-queues the task)", f)
        if ww:
            ctx.ob("R1", "skip-when-cancelled", guarded_by_bool(f, ww[0], r"Snapshot::is_cancelled$", False) is not None,
                   "a cancelled task's future is not polled", f)
            # the snapshot tested is the one returned by unschedule
            okc = False
            for bb, t in calls(f, r"Snapshot::is_cancelled$"):
                if any(call_matches(x, r"State::unschedule$") for x in arg_origin_calls(f, t, 0)):
                    okc = True
            ctx.ob("R1", "cancel-check-on-unschedule-snapshot", okc,
                   "the cancelled test reads the snapshot returned by unschedule (no window between the two)", f)
        for cid in f.closures():
            c = db.fns.get(cid)
            if c is None:
                continue
            rf = indirect_calls(c, "run_future")
            if not rf:
                continue
            from ..util import guarded_everywhere, ordered_everywhere
            FR = r"State::finish_running$"
            WK = r"^core::task::wake::Waker::wake_by_ref$"
            fre = Summaries(db, FR).event_blocks(c, "may")
            n1, bad1 = guarded_everywhere(db, c, FR, r"core::task::poll::Poll::<T>::is_ready$", True)
            ctx.ob("R1", "finish_running-after-ready", len(rf) == 1 and n1 == 1 and not bad1 and bool(fre) and
                   all(c.cfg.dominates(rf[0][0], b) for b in fre),
                   "COMPLETED|HAS_RESULT is published only after run_future returned Ready (result already stored)", c)
            n2, bad2 = ordered_everywhere(db, c, FR, WK)
            n3, bad3 = guarded_everywhere(db, c, WK, r"Snapshot::has_waker$", True)
            n4, bad4 = guarded_everywhere(db, c, WK, r"Snapshot::is_setting_waker$", False)
            ctx.ob("R1", "joiner-woken-iff-waker-set", n2 >= 1 and not bad2 and n3 >= 1 and not bad3 and n4 >= 1 and not bad4,
                   "the join handle's waker is used after finish_running, only if HAS_WAKER and not inside SETTING_WAKER", c)
    rfu = [f for f in db.fns.values() if re.search(r"^compio_executor::task::TaskAlloc::<F>::run_future$", f.name)]
    if not rfu:
        ctx.missing("R1", "TaskAlloc::run_future")
    cu = Summaries(db, r"^std::panic::catch_unwind$")
    fp = Summaries(db, r"core::future::future::Future::poll$")
    for f in rfu:
        ctx.ob("R1", "poll-under-catch_unwind", cu.may(f) and fp.may(f) and not calls(f, r"core::future::future::Future::poll$"),
               "the future is polled inside catch_unwind (a panicking task leaves the executor intact)", f)
        # drop of the future and write of the result happen in a closure, after Ready
        swp = [db.fns[c] for c in f.closures() if c in db.fns and calls(db.fns[c], r"^core::ptr::drop_in_place$") ]
        okd = False
        for c in swp:
            d = [bb for bb, _ in calls(c, r"^core::ptr::drop_in_place$")]
            w = [bb for bb, _ in calls(c, r"^core::ptr::write$")]
            if d and w and c.cfg.dominates(d[0], w[0]):
                okd = True
        ctx.ob("R1", "future-dropped-then-result-written", okd,
               "on completion the future is dropped in place and only then the result is written over it", f)

    # ---------------- R2
    rp = m(db, r"^compio_executor::task::remote::Remote$", "poll")
    if not rp:
        ctx.missing("R2", "Remote::poll")
    for f in rp:
        st = [bb for bb, _ in calls(f, r"State::start_setting_waker$")]
        fin = [bb for bb, _ in calls(f, r"State::finish_setting_waker$")]
        ctx.ob("R2", "section-exists", len(st) == 1 and len(fin) >= 1, "remote poll opens the SETTING_WAKER section once per iteration", f)
        if st and fin:
            esc = [r for r in f.cfg.returns if r in f.cfg.reach_set(st, avoid=set(fin))]
            ctx.ob("R2", "section-closed-on-every-path", not esc and st[0] not in f.cfg.reach_set(st, avoid=set(fin)),
                   "every path after start_setting_waker reaches finish_setting_waker before returning or looping", f)
            twice = [a for a in fin if any(b in f.cfg.reach_set([a], avoid=set(st)) for b in fin)]
            ctx.ob("R2", "section-closed-once", not twice, "finish_setting_waker runs once per opened section", f)
            # the waker cell is written only inside the section
            wm = [bb for bb, _ in calls(f, r"UnsafeCell::<T>::with_mut$")]
            ctx.ob("R2", "waker-written-inside-section", bool(wm) and all(f.cfg.dominates(st[0], b) for b in wm) and
                   all(any(b2 in f.cfg.reach_set([b]) for b2 in fin) for b in wm),
                   "the waker slot is mutated only between start_ and finish_setting_waker", f)

    # ---------------- R3
    df_sites = []
    for f in db.fns.values():
        if not f.id.startswith("compio_executor::"):
            continue
        for bb, t in indirect_calls(f, "drop_future"):
            df_sites.append((f, bb, t))
    ctx.floor("R3", "vtable.drop_future call sites", len(df_sites), 3)
    for f, bb, t in df_sites:
        flag = const_arg(t, 1)
        name = f.name
        if flag == "false":
            # by role: the executor-side teardown of a task is the function that marks it dropped
            ok = bool(calls(f, r"State::set_dropped$"))
            ctx.ob("R3", "future-dropped-by:" + name, ok,
                   "drop_future(_, false) — dropping a live future — only in the executor-side Task::drop (home thread)", f)
        elif flag == "true":
            ok = name in ("compio_executor::task::Task::cancel", "<compio_executor::task::Task as core::ops::drop::Drop>::drop")
            ctx.ob("R3", "result-dropped-by:" + name, ok,
                   "drop_future(_, true) — dropping a stored result — only in Task::cancel and in the last-reference Drop", f)
        else:
            ctx.ob("R3", "drop_future-flag-literal:" + name, False, "drop_future is called with a literal has_result flag", f)
    for f, bb, t in df_sites:
        if const_arg(t, 1) == "false":
            ctx.ob("R3", "future-drop-needs-not-completed", guarded_by_bool(f, bb, r"Snapshot::is_completed$", False) is not None,
                   "a live future is dropped only while the task has not completed (else the slot holds the result)", f)
        if const_arg(t, 1) == "true":
            ctx.ob("R3", "result-drop-needs-has_result:" + f.name, guarded_by_bool(f, bb, r"Snapshot::has_result$", True) is not None,
                   "a stored result is dropped only when HAS_RESULT was observed", f)
    de_sites = []
    for f in db.fns.values():
        if f.id.startswith("compio_executor::"):
            for bb, t in indirect_calls(f, "dealloc"):
                de_sites.append((f, bb, t))
    ctx.floor("R3", "vtable.dealloc call sites", len(de_sites), 1)
    for f, bb, t in de_sites:
        ctx.ob("R3", "dealloc-by:" + f.name, f.name == "<compio_executor::task::Task as core::ops::drop::Drop>::drop",
               "the allocation is freed only by the last Task reference", f)
        # guarded by count()>1 early return: dec() dominates, and a switch on Snapshot::count result guards
        dec = [b for b, _ in calls(f, r"State::dec$")]
        ctx.ob("R3", "dealloc-after-last-dec", bool(dec) and f.cfg.dominates(dec[0], bb) and bool(calls(f, r"Snapshot::count$")),
               "deallocation is decided from the count returned by the decrement", f)
    exec_drop = [f for f in db.fns.values() if f.self_adt == "compio_executor::task::Task" and not f.trait and calls(f, r"State::set_dropped$")]
    td = [(g, bb) for f in exec_drop for g, bb in db.callers().get(f.id, []) if not g.blocks[bb]["cl"]]
    ctx.floor("R3", "Task::drop (executor-side) call sites", len(td), 2)
    for f, bb in td:
        root = db.root_fn(f)
        ok = root.self_adt in ("compio_executor::Executor", "compio_executor::queue::TaskQueue")
        ctx.ob("R3", "Task::drop-caller:" + root.name, ok, "Task::drop is called only by Executor::tick and TaskQueue::clear", f)

    # ---------------- R4 tick
    tk = m(db, r"^compio_executor::Executor$", "tick")
    if not tk:
        ctx.missing("R4", "Executor::tick")
    for f in tk:
        mc = [bb for bb, _ in calls(f, r"TaskQueue::make_cold$")]
        tk_ = [bb for bb, _ in calls(f, r"TaskQueue::take$")]
        rn = [bb for bb, _ in calls(f, r"^compio_executor::task::Task::run$")]
        ok = len(mc) == 1 and len(tk_) == 1 and len(rn) == 1 and f.cfg.dominates(mc[0], tk_[0]) and f.cfg.dominates(tk_[0], rn[0])
        ctx.ob("R4", "cold-take-run", ok, "make_cold ≺ take ≺ run for every hot task", f)
        if ok:
            # a task taken out of the queue is always run before the loop goes on or tick returns (it is never dropped on the floor)
            reach = f.cfg.reach_set([tk_[0]], avoid=set(rn))
            ctx.ob("R4", "taken-task-always-run", not any(b in reach for b in mc + list(f.cfg.returns)),
                   "from take() neither the next make_cold nor a return is reachable without passing Task::run", f)
        lim = calls(f, r"core::iter::traits::iterator::Iterator::take$")
        okl = False
        for bb, t in lim:
            locs, cr, places = data_deps(f, op_place(t["args"][1])["l"]) if op_place(t["args"][1]) else (set(), [], [])
            if any(any(isinstance(e, list) and e[0] == "f" and e[2] == "max_interval" for e in p["p"]) for p in places):
                okl = True
        ctx.ob("R4", "bounded-by-max_interval", okl, "one tick runs at most max_interval tasks (I/O is polled in between)", f)
        dr = [bb for bb, _ in calls(f, r"^compio_executor::task::Task::drop$")]
        rm = [bb for bb, _ in calls(f, r"TaskQueue::remove$")]
        rs = [bb for bb, _ in calls(f, r"TaskQueue::reset$")]
        if rn:
            okr = bool(dr) and bool(rm) and f.cfg.dominates(dr[0], rm[0]) and guarded_by_bool(f, dr[0], r"Poll::<T>::is_ready$", True) is not None
            ctx.ob("R4", "ready-drop-then-remove", okr, "a finished (or cancelled) task is dropped, then removed from the queue", f)
            ctx.ob("R4", "pending-reset", bool(rs) and guarded_by_bool(f, rs[0], r"Poll::<T>::is_ready$", False) is not None,
                   "a pending task is put back", f)

    # ---------------- R5 teardown
    tdp = exec_drop
    if not tdp:
        ctx.missing("R5", "Task::drop")
    for f in tdp:
        sd = [bb for bb, _ in calls(f, r"State::set_dropped$")]
        stn = [bb for bb, t in calls(f, r"Atomic\w*(::<.*>)?::store$") if "shared" in receiver_field(f, t)]
        ctx.ob("R5", "dropped-flag-before-null", bool(sd) and bool(stn) and f.cfg.dominates(sd[0], stn[0]) and f.cfg.postdominates(stn[0], 0),
               "set_dropped (cancelled, no waker) precedes shared = null, on every path", f)
    qc = [f for f in db.fns.values() if f.id.startswith("compio_executor::queue::") and "clear" in f.id and
          calls(f, r"^compio_executor::task::Task::drop$")]
    if not qc:
        ctx.missing("R5", "TaskQueue::clear body")
    for f in qc:
        d = [bb for bb, _ in calls(f, r"^compio_executor::task::Task::drop$")]
        w = [bb for bb, _ in calls(f, r"Task::wait_for_scheduling$")]
        ctx.ob("R5", "wait_for_scheduling-on-every-path", bool(d) and bool(w) and all(postdominated_by_any(f, w, b) for b in d),
               "after a task was dropped by clear() every path to the return waits for in-progress remote scheduling", f)
        ctx.ob("R5", "drop-then-wait_for_scheduling", bool(d) and bool(w) and f.cfg.dominates(d[0], w[0]),
               "every task is dropped and then the executor waits until no remote waker is inside its scheduling section", f)
    ed = m(db, r"^compio_executor::Executor$", "drop", r"Drop$")
    if not ed:
        ctx.missing("R5", "impl Drop for Executor")
    for f in ed:
        cl = [bb for bb, _ in calls(f, r"^compio_executor::Executor::clear$")]
        fr = [bb for bb, _ in calls(f, r"alloc::boxed::Box::<T>::from_raw$")]
        ctx.ob("R5", "clear-before-free", bool(cl) and bool(fr) and f.cfg.dominates(cl[0], fr[0]),
               "the shared block is freed only after all tasks were dropped and remote scheduling has drained", f)
    if any(f.id.startswith("compio_runtime::") for f in db.fns.values()):
        clr = [(f, bb) for f, bb, t in db.callers_of(r"^compio_executor::Executor::clear$")
               if not f.blocks[bb]["cl"] and f.id.startswith("compio_runtime::")]
        ctx.floor("R5", "Executor::clear call sites in compio-runtime", len(clr), 2)
        for f, bb in clr:
            ctx.ob("R5", "clear-inside-enter:" + db.root_fn(f).name, f.kind == "closure" and
                   any(calls(g, r"Runtime::enter$") for g in [db.fns.get(f.parent)] if g),
                   "the runtime clears its tasks inside enter() so futures dropping I/O handles still find the runtime", f)

    # ---------------- R6
    cn = m(db, T, "cancel")
    if not cn:
        ctx.missing("R6", "Task::cancel")
    for f in cn:
        sc = [bb for bb, _ in calls(f, r"State::set_cancelled$")]
        sh = [bb for bb, _ in calls(f, r"^compio_executor::task::Task::schedule$")]
        ctx.ob("R6", "flag-before-schedule", len(sc) == 1 and len(sh) == 1 and f.cfg.dominates(sc[0], sh[0]),
               "cancel() must clear NOT_CANCELLED before it queues the task: a run between the two polls the future, "
               "parks it again, and the cancelled future is never dropped", f)
    rsch = m(db, r"^compio_executor::task::remote::Remote$", "schedule")
    for f in rsch:
        st = calls(f, r"State::start_scheduling$")
        push = [bb for bb, _ in calls(f, r"ArrayQueue::<T>::push$")]
        bad = False
        for bb, t in calls(f, r"Snapshot::is_cancelled$"):
            if st and any(call_matches(x, r"State::start_scheduling$") for x in arg_origin_calls(f, t, 0)):
                for (sbb, tt, ft) in bool_edges(f, bb):
                    if push and push[0] not in f.cfg.reach_from_block(tt):
                        bad = True
        ctx.ob("R6", "remote-schedule-accepts-cancelled", not bad,
               "a cancelled (but not yet dropped) task must still be queued by a remote wake: only the executor thread "
               "can drop its future", f)

    # ---------------- R7
    for imp in db.impls:
        info = imp["info"]
        tr = info.get("trait") or ""
        if tr not in ("core::marker::Send", "core::marker::Sync") or imp.get("negative"):
            continue
        sa = info.get("self_adt") or ""
        if sa == "compio_executor::join_handle::JoinHandle" and tr.endswith("Send"):
            ctx.ob("R7", "JoinHandle-Send-needs-T-Send", any(p == "T: core::marker::Send" for p in info["preds"]),
                   "unsafe impl Send for JoinHandle<T> carries the bound T: Send (the output crosses threads)")
        if sa in ("compio_executor::Executor", "compio_executor::queue::TaskQueue", "compio_executor::task::Task",
                  "compio_runtime::runtime::Runtime", "compio_runtime::Runtime"):
            ctx.ob("R7", "no-unsafe-auto-trait:%s/%s" % (sa, tr), False,
                   "executor-side types must stay !Send/!Sync (tasks are polled and dropped on their home thread)")
    jh = [i for i in db.impls if (i["info"].get("self_adt") == "compio_executor::join_handle::JoinHandle" and i["info"].get("trait") == "core::marker::Send")]
    ctx.ob("R7", "JoinHandle-Send-impl-found", len(jh) == 1, "the Send impl of JoinHandle is the one with the T: Send bound")


def rules_all(ctx, db):
    rules(ctx, db)
    if ctx.tier == "thorough" and ctx.cfg == "A":
        from .. import witness
        witness.obligations(ctx, "C04")


def check(tier):
    return engine.run("C04", tier, rules_all, NOT_DECIDED, [])
