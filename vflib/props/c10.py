"""C10 — All buffer views obey one contract (structural clauses)."""
import re

from .. import engine
from ..facts import call_matches, op_place, rvalue_places
from ..util import (Summaries, calls, dominated_by_any, guarded_by_bool, arg_origin_calls, data_deps, arg_origin_args,
                    arg_origin_fields)

NOT_DECIDED = ("the arithmetic of all compositions of views and all fill sequences (default_set_len distribution, "
               "VectoredBufIter bookkeeping): input-space quantities; the rules decide that offsets are applied "
               "symmetrically, ranges are clamped, and raw slices are built from one object's own pointer and length")

BUF = "compio_buf::"


def rules(ctx, db):
    R = ctx.rule
    R("R1", "PARITY", "a view that exposes its buffer from an offset records lengths from the same offset (set_len adds `begin`)")
    R("R2", "dataflow", "ranges used to index the inner buffer are clamped to its length / capacity; pool buffers clamp len <= cap <= full_cap")
    R("R3", "dataflow", "every raw slice is built from the pointer and the length/capacity of the same object")
    R("R4", "ORD", "slice() checks begin <= buf_len and begin <= end before constructing the view; set_begin checks before the unchecked setter")

    if not any(n.startswith(BUF) for n in db.adts):
        return
    # ---------------- R1
    views = [a for a in db.adts.values() if a["name"].startswith(BUF) and any(fl["name"] == "begin" and fl["ty"] == "usize" for _, fl in db.adt_fields(a))]
    ctx.floor("R1", "offset views (types with a `begin: usize` field)", len(views), 2)
    for a in views:
        sl = [f for f in db.fns.values() if f.impl and f.impl.get("self_adt") == a["name"] and (f.impl.get("trait") or "").endswith("::SetLen") and f.short == "set_len"]
        ctx.ob("R1", "view-has-set_len:" + a["name"], len(sl) == 1, "the view implements SetLen")
        for f in sl:
            inner = calls(f, r"compio_buf::io_buf::SetLen::set_len$")
            ok = False
            for bb, t in inner:
                p = op_place(t["args"][1])
                if p is None:
                    continue
                locs, cr, places = data_deps(f, p["l"])
                uses_len = 2 in locs
                uses_begin = any(any(isinstance(e, list) and e[0] == "f" and e[2] == "begin" and e[3] == a["name"] for e in pl["p"]) for pl in places)
                adds = any(s.get("r", {}).get("k") == "bin" and s["r"].get("x", "").startswith("Add") and s["a"]["l"] in locs for bi, si, s in f.stmts())
                if uses_len and uses_begin and adds:
                    ok = True
            ctx.ob("R1", "set_len-offset-by-begin:" + a["name"], ok,
                   "recording that n bytes were written through the view sets the inner length to begin + n (the bytes "
                   "were written at positions begin..begin+n of the inner buffer)", f)
        # the accessors use the offset
        acc = [f for f in db.fns.values() if f.impl and f.impl.get("self_adt") == a["name"] and f.short in
               ("as_init", "as_uninit", "deref", "deref_mut", "iter_slice", "iter_uninit_slice", "initialized_range", "range")]
        from ..opcodes import fields_read
        used = set()
        for f in acc:
            used |= fields_read(db, f, a["name"], depth=2)
        offs = {"begin"} if "idx" not in {fl["name"] for _, fl in db.adt_fields(a)} else {"idx", "offset"}
        ctx.ob("R1", "accessors-use-offset:" + a["name"], offs <= used,
               "the view's accessors start at its offset (%s)" % ",".join(sorted(offs)), acc[0] if acc else None)
    un = db.adts.get("compio_buf::uninit::Uninit")
    if un is None:
        ctx.missing("R1", "struct Uninit")
    else:
        f = [g for g in db.fns.values() if g.impl and g.impl.get("self_adt") == un["name"] and g.short == "new"]
        okn = False
        for g in f:
            for bb, t in calls(g, r"IoBufExt::slice$"):
                locs, cr, _ = data_deps(g, op_place(t["args"][1])["l"]) if op_place(t["args"][1]) else (set(), [], [])
                if any(call_matches(ct, r"IoBufExt::buf_len$|IoBuf::buf_len$") for _, ct in cr):
                    okn = True
        ctx.ob("R1", "uninit-starts-at-initialized-length", okn,
               "Uninit::new slices the buffer from its current initialised length (the view is the spare tail)", f[0] if f else None)
        au = [g for g in db.fns.values() if g.impl and g.impl.get("self_adt") == un["name"] and g.short == "as_uninit"]
        if not au:
            ctx.missing("R1", "Uninit::as_uninit")
        for g in au:
            from .. import arith
            inner = calls(g, r"as_uninit$")
            resl = calls(g, arith.INDEX)
            ctx.ob("R1", "uninit-view-as_uninit-is-the-full-region", bool(inner) and not resl,
                   "Uninit::as_uninit returns the whole writable region of the view (the contract of IoBufMut::as_uninit), so "
                   "the bytes as_init reports are a prefix of it; re-slicing it by the recorded length makes every generic "
                   "helper skip those bytes twice", g)
    # ---------------- R2
    sl = "compio_buf::slice::Slice"
    from ..util import deep_deps
    n2 = 0
    for nm, bound in (("deref", r"buf_len$"), ("deref_mut", r"buf_len$"), ("as_uninit", r"buf_capacity$")):
        fs = [f for f in db.fns.values() if f.impl and f.impl.get("self_adt") == sl and f.short == nm]
        if not fs:
            ctx.missing("R2", "Slice::" + nm)
        for f in fs:
            idx = calls(f, r"core::ops::index::Index(Mut)?::index(_mut)?$")
            ok = bool(idx)
            why = "indexes the inner buffer"
            for bb, t in idx:
                pl = op_place(t["args"][1])
                if pl is None:
                    ok = False
                    continue
                names, fields = deep_deps(db, f, pl["l"])
                has_min = any(re.search(r"core::cmp::(Ord::)?min$", n) for n in names)
                has_bound = any(re.search(bound, n) for n in names)
                if not (has_min and has_bound and "begin" in fields):
                    ok = False
                    why = "range deps: min=%s bound(%s)=%s begin=%s" % (has_min, bound.rstrip("$"), has_bound, "begin" in fields)
            n2 += 1
            ctx.ob("R2", "indexes-with-clamped-range:" + nm, ok,
                   "Slice::%s indexes the inner buffer with begin..min(end, %s) — the range is computed in the accessor or in "
                   "private helpers (%s)" % (nm, bound.rstrip("$"), why), f)
    ctx.floor("R2", "Slice accessors that index the inner buffer", n2, 3)
    br = "compio_driver::buffer_pool::BufferRef"
    if br in db.adts:
        for nm, fld, bound in (("set_len", "len", "cap"), ("set_capacity", "cap", "full_cap")):
            fs = [f for f in db.fns.values() if f.impl and f.impl.get("self_adt") == br and f.short == nm]
            if not fs:
                ctx.missing("R2", "BufferRef::" + nm)
            for f in fs:
                ok = False
                for bi, si, s in f.stmts():
                    if "a" in s and any(isinstance(e, list) and e[0] == "f" and e[2] == fld for e in s["a"]["p"]):
                        for p in rvalue_places(s["r"]):
                            locs, cr, places = data_deps(f, p["l"])
                            if any(call_matches(ct, r"core::cmp::Ord::min$") for _, ct in cr) and \
                                    any(any(isinstance(e, list) and e[0] == "f" and e[2] == bound for e in pl["p"]) for pl in places):
                                ok = True
                ctx.ob("R2", "pool-buffer-clamps:%s<=%s" % (fld, bound), ok, "BufferRef::%s clamps %s to %s" % (nm, fld, bound), f)
        for f in [g for g in db.fns.values() if g.impl and g.impl.get("self_adt") == br and g.short == "set_capacity"]:
            wc = [bi for bi, si, s in f.stmts() if "a" in s and any(isinstance(e, list) and e[0] == "f" and e[2] == "cap" for e in s["a"]["p"])]
            wl = [bi for bi, si, s in f.stmts() if "a" in s and any(isinstance(e, list) and e[0] == "f" and e[2] == "len" for e in s["a"]["p"])]
            okk = bool(wc) and bool(wl)
            for bl in wl:
                # position inside one block matters too: compare (block, statement index)
                pos_c = [(bi, si) for bi, si, s in f.stmts() if "a" in s and any(isinstance(e, list) and e[0] == "f" and e[2] == "cap" for e in s["a"]["p"])]
                pos_l = [(bi, si) for bi, si, s in f.stmts() if "a" in s and any(isinstance(e, list) and e[0] == "f" and e[2] == "len" for e in s["a"]["p"])]
                for (lb, ls) in pos_l:
                    if not any((cb == lb and cs < ls) or (cb != lb and f.cfg.dominates(cb, lb)) for (cb, cs) in pos_c):
                        okk = False
            ctx.ob("R2", "pool-buffer-len-clamped-to-new-cap", okk,
                   "set_capacity clamps len against the *new* capacity (cap is assigned before len is clamped): shrinking a "
                   "filled pool buffer must not leave len > cap", f)
        for nm, fld in (("deref", "len"), ("deref_mut", "len"), ("as_uninit", "cap")):
            fs = [f for f in db.fns.values() if f.impl and f.impl.get("self_adt") == br and f.short == nm]
            for f in fs:
                frp = calls(f, r"^core::slice::raw::from_raw_parts(_mut)?$")
                ok = bool(frp)
                for bb, t in frp:
                    if fld not in arg_origin_fields(f, t, 1) or "ptr" not in arg_origin_fields(f, t, 0):
                        ok = False
                ctx.ob("R2", "pool-buffer-view:%s-uses-%s" % (nm, fld), ok,
                       "BufferRef::%s exposes ptr[..%s] (initialised prefix = len, writable region = cap)" % (nm, fld), f)
    # ---------------- R3
    n3 = 0
    for f in db.fns.values():
        if not (f.id.startswith("compio_buf::") or f.id.startswith("compio_driver::buffer_pool::") or f.id.startswith("compio_driver::sys::sys_slice::")):
            continue
        for bb, t in calls(f, r"^core::slice::raw::from_raw_parts(_mut)?$"):
            n3 += 1
            pa, pl = op_place(t["args"][0]), op_place(t["args"][1])
            ok = True
            if pa is not None and pl is not None:
                l0, c0, _ = data_deps(f, pa["l"])
                l1, c1, _ = data_deps(f, pl["l"])
                args0 = {x for x in l0 if 1 <= x <= f.argc}
                args1 = {x for x in l1 if 1 <= x <= f.argc}
                consts_only = not args1
                ok = consts_only or bool(args0 & args1)
            ctx.ob("R3", "raw-slice-from-one-object:%s#%d" % (f.name, bb), ok,
                   "pointer and length of a raw slice derive from the same parameter (an object's own accessors)", f)
    ctx.floor("R3", "raw slice constructions in compio-buf / pool / sys_slice", n3, 8)
    # ---------------- R4
    slf = [f for f in db.fns.values() if f.name == "compio_buf::io_buf::IoBufExt::slice"]
    if not slf:
        ctx.missing("R4", "IoBufExt::slice")
    for f in slf:
        nw = [bb for bb, _ in calls(f, r"compio_buf::slice::Slice::<T>::new$")]
        cmps = [bi for bi, si, s in f.stmts() if s.get("r", {}).get("k") == "bin" and s["r"].get("x") in ("Le", "Lt", "Ge", "Gt")]
        bl = [bb for bb, _ in calls(f, r"buf_len$")]
        pan = [bb for bb, t in calls(f, r"^core::panicking::")]
        with_len = []
        for bi, si, st in f.stmts():
            r = st.get("r", {})
            if r.get("k") == "bin" and r.get("x") in ("Le", "Lt", "Ge", "Gt"):
                for o in r["ops"]:
                    pp = op_place(o)
                    if pp is not None and any(call_matches(ct, r"buf_len$") for _, ct in data_deps(f, pp["l"])[1]):
                        with_len.append(bi)
        ok = len(nw) == 1 and len(cmps) >= 2 and bool(bl) and len(pan) >= 2 and bool(with_len) and \
            all(f.cfg.dominates(c, nw[0]) for c in with_len) and len(set(cmps) - set(with_len)) >= 1
        ctx.ob("R4", "slice-asserts-before-new", ok,
               "slice(range) compares begin with buf_len() and with end (panicking otherwise) before the view exists", f)
    sb = db.methods(self_adt="^" + sl + "$", name="set_begin", trait="")
    for f in sb:
        ub = [bb for bb, _ in calls(f, r"Slice::<T>::set_begin_unchecked$")]
        cmps = [bi for bi, si, s in f.stmts() if s.get("r", {}).get("k") == "bin" and s["r"].get("x") in ("Le", "Lt", "Ge", "Gt")]
        ctx.ob("R4", "set_begin-checks", bool(ub) and bool(cmps) and f.cfg.dominates(cmps[0], ub[0]), "set_begin asserts begin <= buf_len before the unchecked setter", f)
    nwf = [f for f in db.fns.values() if f.name == "compio_buf::slice::Slice::<T>::new"]
    for f in nwf:
        ctx.ob("R4", "Slice::new-not-public", not f.rec.get("pub") and f.rec.get("unsafe"), "Slice::new is crate-private and unsafe", f)
    for f, bb, t in db.callers_of(r"compio_buf::slice::Slice::<T>::new$"):
        ctx.ob("R4", "Slice::new-caller:" + f.name, f.id.startswith("compio_buf::"), "views are only created inside compio-buf", f)


# sites whose bound is a struct invariant or a contract of *another* object: one named function + one line of reason
R5_EXCEPTIONS = {
    ("<compio_buf::io_vec_buf::VectoredBufIter<T> as compio_buf::io_buf::IoBuf>::as_init", "index-RangeFrom"):
        "`filled` is the length last recorded through SetLen for the current member; the SetLen contract bounds it by that member's length",
    ("<compio_buf::slice::VectoredSlice<T> as compio_buf::io_vec_buf::IoVectoredBufMut>::iter_uninit_slice", "index-RangeFrom"):
        "`offset` was computed by IoVectoredBufMut::slice_mut against this very member's length, which its capacity bounds",
}


def rule_arith(ctx, db):
    from .. import arith
    R = ctx.rule
    R("R5", "GUARD/arith", "in compio-buf and the pool buffer every checked subtraction and open-ended slice index is justified: a "
      "dominating comparison, a min() clamp, len <= capacity of the same buffer (the contract), or a named struct invariant")
    if not any(n.startswith(BUF) for n in db.adts):
        return
    n = 0
    per = {}
    seen_exc = set()
    for f in db.fns.values():
        if not (f.id.startswith("compio_buf::") or f.id.startswith("compio_driver::buffer_pool::")):
            continue
        if "::test::" in f.id or "::tests::" in f.id:
            continue
        sg = None
        for st in arith.sites(f):
            if sg is None:
                sg = arith.Sigs(f)
            if st[0] == "sub":
                _, bb, a, b, ln = st
                j = arith.justify(db, f, sg, a, b, bb, contract=True)
                what = "subtraction"
            else:
                _, bb, tgt, bound, kind, ln = st
                j = arith.justify(db, f, sg, None, bound, bb, a_is_len_of=sg.operand(tgt), contract=True)
                what = "index-" + kind
            root = db.root_fn(f).name
            if j is None and (root, what) in R5_EXCEPTIONS:
                j = "named invariant: " + R5_EXCEPTIONS[(root, what)]
                seen_exc.add((root, what))
            k = (root, what)
            per[k] = per.get(k, 0) + 1
            n += 1
            ctx.ob("R5", "justified:%s:%s#%d" % (root, what, per[k]), j is not None,
                   "%s at line %s: %s" % (what, ln, j or "nothing establishes that the subtrahend / index bound cannot exceed the "
                                          "minuend / slice length"), f)
    ctx.floor("R5", "checked subtractions / open-ended indexes in compio-buf and the pool buffer", n, 11)


def rule_vectored_and_narrowing(ctx, db):
    R = ctx.rule
    R("R6", "same-value", "recording n bytes on a *vectored* buffer raises each member's length individually (a member that already "
      "holds bytes is neither skipped nor shrunk); a pool buffer narrows a requested size to its u32 fields only after clamping it")
    if not any(n.startswith(BUF) for n in db.adts):
        return
    av = [f for f in db.fns.values() if f.name == "compio_buf::io_buf::SetLenExt::advance_vec_to"]
    if not av:
        ctx.missing("R6", "SetLenExt::advance_vec_to")
    for f in av:
        gates_on_total = bool(calls(f, r"IoVectoredBuf::total_len$"))
        ctx.ob("R6", "vectored-advance-is-per-member", not gates_on_total,
               "advance_vec_to decides from the *total* initialised length of all members (total_len) and then sets one total "
               "that is distributed by capacity: with members that already hold bytes the received bytes stay invisible or a "
               "later member shrinks" if gates_on_total else "advance_vec_to works member by member", f)
    # sibling SetLen impls of the growable root byte containers agree: set_len sets (also lowers) the length; the
    # grow-only policy lives in advance_to
    sib = [f for f in db.fns.values() if f.short == "set_len" and f.impl and (f.impl.get("trait") or "").endswith("::SetLen") and
           re.match(r"^(alloc::vec::Vec<u8>|bytes::bytes_mut::BytesMut|arrayvec::arrayvec::ArrayVec<u8, N>|smallvec::SmallVec<\[u8; N\]>)$", f.impl.get("self") or "")]
    ctx.floor("R6", "SetLen impls of growable root byte containers", len(sib), 1)
    for f in sib:
        gated = any(st.get("r", {}).get("k") == "bin" and st["r"].get("x") in ("Lt", "Le", "Gt", "Ge") for bi, si, st in f.stmts()) and \
            bool(calls(f, r"buf_len$|::len$"))
        ctx.ob("R6", "set_len-also-shortens:" + (f.impl.get("self") or "?"), not gated,
               "SetLen::set_len is unconditional (clear() and buffer reuse work for every root buffer kind alike)", f)
    br = "compio_driver::buffer_pool::BufferRef"
    if br in db.adts:
        n = 0
        for nm in ("set_capacity", "set_len"):
            for f in [g for g in db.fns.values() if g.impl and g.impl.get("self_adt") == br and g.short == nm]:
                for bi, si, st in f.stmts():
                    r = st.get("r", {})
                    if r.get("k") != "cast" or "IntToInt" not in (r.get("x") or ""):
                        continue
                    a = st.get("a")
                    dst_ty = f.local_ty(a["l"]) if a and not a["p"] else ("u32" if a and any(isinstance(e, list) and e[0] == "f" and e[2] in ("cap", "len") for e in a["p"]) else "")
                    src = op_place(r["ops"][0]) if r.get("ops") else None
                    if dst_ty != "u32" or src is None or f.local_ty(src["l"]) != "usize":
                        continue
                    n += 1
                    locs, cr, places = data_deps(f, src["l"])
                    ctx.ob("R6", "pool-buffer-narrows-after-clamp:%s" % nm, any(call_matches(ct, r"core::cmp::Ord::min$") for _, ct in cr),
                           "the usize -> u32 cast takes the already clamped value (min(requested, bound)); casting first would wrap a "
                           "request of 1 << 32 bytes to 0", f)
        ctx.floor("R6", "usize -> u32 narrowings in BufferRef setters", n, 2)


def rules_all(ctx, db):
    rules(ctx, db)
    rule_arith(ctx, db)
    rule_vectored_and_narrowing(ctx, db)
    if ctx.tier == "thorough" and ctx.cfg == "A":
        from .. import witness
        witness.obligations(ctx, "C10")


def check(tier):
    return engine.run("C10", tier, rules_all, NOT_DECIDED, [])
