"""C19 — Actors: serial handling, ordered lifecycle, unique names (thin structural clauses)."""
import re

from .. import engine
from ..facts import call_matches, op_place, rvalue_places
from ..util import (Summaries, calls, dominated_by_any, postdominated_by_any, guarded_by_bool, guarded_by_variant, data_deps)
from .c03 import atomic_calls

NOT_DECIDED = ("FIFO and at-most-once handling under concurrent senders (channel semantics), routing fairness of process "
               "groups, supervisor reactions; the rules decide the lifecycle order, that a handler is awaited before the "
               "next receive, the closed-before-send test and the reserve/activate/release shape of the registry")

AC = "compio_actor::"


def rules(ctx, db):
    R = ctx.rule
    R("R1", "ORD+MPT", "run(): every path ends in finish(); finish(): begin_stop ≺ pre_stop ≺ drop(receiver) ≺ post_stop; the "
      "handler's future is awaited before the next recv")
    R("R2", "ORD", "send(): closed test ≺ try_send, a refused message is handed back; stop(): the stopping flag is swapped "
      "(one winner) before the stop signal is sent")
    R("R3", "ATOM/ORD", "registry: contains_key and insert under one lock guard; a Registration removes its name on Drop; get() "
      "returns only activated entries")

    if not any(f.id.startswith(AC) for f in db.fns.values()):
        return
    run = [f for f in db.fns.values() if f.id.startswith(AC + "actor::deliver::run::") and f.kind == "coroutine" and f.parent and f.parent.endswith("::run")]
    ctx.floor("R1", "actor run loop", len(run), 1)
    for f in run:
        fin = [bb for bb, t in calls(f, r"actor::deliver::finish$")]
        ctx.ob("R1", "run-always-finishes", len(fin) == 1 and postdominated_by_any(f, fin, 0),
               "every path through run() (start failure, handler failure, stop) goes through finish()", f)
        # the receive / deliver loop lives in run() itself or in a private async helper of the same module that run()
        # awaits: the serial-handling obligation is checked where the loop is, the order with post_start at its entry
        RECV, DELIVER = r"mailbox::receiver::Receiver::<A>::recv$", r"Delivering::<A>::deliver_to$"
        loops = [g for g in db.fns.values() if g.id.startswith(AC + "actor::deliver::") and g.kind == "coroutine"
                 and calls(g, RECV) and calls(g, DELIVER)]
        ctx.floor("R1", "receive / deliver loop of the actor", len(loops), 1)
        entries = []
        for g in loops:
            ctx.analysed(g)
            rc = [bb for bb, t in calls(g, RECV)]
            dl = [bb for bb, t in calls(g, DELIVER)]
            # from deliver_to, recv is reachable only through a poll of the delivery future
            hp = [bb for bb, t in calls(g, r"core::future::future::Future::poll$") if t.get("ga") and ("dyn" in t["ga"][0] or "Pin<alloc::boxed::Box" in t["ga"][0])]
            reach = g.cfg.reach_set([dl[0]], avoid=set(hp))
            ok = bool(hp) and rc[0] not in reach
            ctx.ob("R1", "handler-awaited-before-next-recv", ok,
                   "the next message is received only after the current handler's future was polled to completion (serial handling)", g)
            if g.id == f.id:
                entries += rc[:1]
            else:
                entries += [bb for bb, t in f.calls() if any(db.body_of(h).id == g.id for h in db.callee_fns(t, expand_traits=False))]
        ps = [bb for bb, t in calls(f, r"Actor::post_start$")]
        ctx.ob("R1", "post_start-before-loop", bool(ps) and bool(entries) and all(f.cfg.dominates(ps[0], e) for e in entries),
               "post_start runs before the first receive", f)
    fin = [f for f in db.fns.values() if f.id.startswith(AC + "actor::deliver::finish::") and f.kind == "coroutine"]
    ctx.floor("R1", "actor finish body", len(fin), 1)
    for f in fin:
        bs = [bb for bb, t in calls(f, r"Mailbox::<A>::begin_stop$")]
        pre = [bb for bb, t in calls(f, r"Actor::pre_stop$")]
        # the release of the receiver: a plain drop of it or a consuming method of Receiver (close)
        dr = [bb for bb, t in calls(f, r"^core::mem::drop$") if t.get("ga") and "Receiver" in t["ga"][0]] + \
             [bb for bb, t in calls(f, r"^compio_actor::mailbox::receiver::Receiver::<A>::close$")]
        # ... and it must empty the queue: a queued Call keeps its reply sender (and its caller) alive as long as any
        # Mailbox clone exists, because the channel drops queued items only with its last sender
        # ... and the release must empty the queue: in the receiver's Drop (every way the actor can end) or in the
        # consuming method the actor calls
        ra = db.adts.get("compio_actor::mailbox::receiver::Receiver")
        rel = [g for g in db.fns.values() if g.name == "compio_actor::mailbox::receiver::Receiver::<A>::close"]
        if ra is not None and ra.get("drop") in db.fns:
            rel.append(db.fns[ra["drop"]])
        DR = r"^flume::Receiver::<T>::(drain|try_recv|try_iter)$"
        drains_in_drop = ra is not None and ra.get("drop") in db.fns and bool(calls(db.fns[ra["drop"]], DR))
        drains = any(calls(g, DR) for g in rel) or any(calls(h, DR) for g in rel for h in db.succ_fns(g))
        ctx.ob("R1", "release-empties-the-queue", drains and bool(dr),
               "the receiver's release drains the message queue, so calls still queued when the actor ends observe NoReply "
               "instead of hanging", f)
        ctx.ob("R1", "queue-emptied-however-the-actor-ends", drains_in_drop,
               "the drain lives in Drop for Receiver: a failed pre_start, a panicking handler and a joined cluster drop the "
               "receiver without passing finish()", f)
        post = [bb for bb, t in calls(f, r"Actor::post_stop$")]
        ok = all(len(x) == 1 for x in (bs, pre, dr, post)) and f.cfg.dominates(bs[0], pre[0]) and \
            f.cfg.dominates(pre[0], dr[0]) and f.cfg.dominates(dr[0], post[0])
        ctx.ob("R1", "lifecycle-completes", ok and all(f.cfg.postdominates(x[0], bs[0]) for x in (pre, dr, post)),
               "once the stop has begun, pre_stop, the release of the receiver and post_stop lie on every path to the end "
               "(no early return between the hooks)", f)
        ctx.ob("R1", "lifecycle-order", ok,
               "begin_stop (mailbox closed to new sends) ≺ pre_stop ≺ drop(receiver) ≺ post_stop, each exactly once", f)
    MI = r"^compio_actor::mailbox::MailboxInner$"
    sd = db.methods(self_adt=MI, name="send", trait="")
    if not sd:
        ctx.missing("R2", "MailboxInner::send")
    for f in sd:
        ic = [bb for bb, t in calls(f, r"MailboxInner::<A>::is_closed$")]
        ts = [bb for bb, t in calls(f, r"^flume::Sender::<T>::try_send$")]
        ok = len(ic) == 1 and len(ts) == 1 and guarded_by_bool(f, ts[0], r"MailboxInner::<A>::is_closed$", False) is not None
        ctx.ob("R2", "closed-test-before-send", ok, "a stopping / closed mailbox refuses the message before it touches the queue", f)
        errs = [bi for bi, si, s in f.stmts() if s.get("r", {}).get("k") == "agg" and s["r"].get("adt") == "core::result::Result" and s["r"].get("var") == "Err"]
        ctx.ob("R2", "refused-message-handed-back", bool(errs), "the refused message travels back in the error", f)
    st = db.methods(self_adt=MI, name="stop", trait="")
    for f in st:
        sw = [bb for bb, t in atomic_calls(f) if call_matches(t, r"::swap$")]
        ts = [bb for bb, t in calls(f, r"^flume::Sender::<T>::try_send$")]
        ok = len(sw) == 1 and len(ts) == 1 and guarded_by_bool(f, ts[0], r"AtomicBool::swap$|Atomic\w*(::<.*>)?::swap$", False) is not None
        ctx.ob("R2", "stop-single-winner", ok, "only the caller that flips `stopping` sends the stop signal", f)
    # Receiver::recv: biased select, stop first; a disconnected message channel counts as Stop
    rcv = [f for f in db.fns.values() if db.root_fn(f).name == "compio_actor::mailbox::receiver::Receiver::<A>::recv"]
    if not rcv:
        ctx.missing("R2", "Receiver::recv")
    else:
        arrs = []
        for f in rcv:
            for bi, si, st in f.stmts():
                r = st.get("r", {})
                if r.get("k") == "agg" and r.get("x") == "array" and len(r.get("ops", [])) == 2:
                    arrs.append((f, r))
        okb = False
        for f, r in arrs:
            names = []
            for o in r["ops"]:
                pl = op_place(o)
                flds = set()
                if pl is not None:
                    for q in data_deps(f, pl["l"])[2]:
                        flds |= {e[2] for e in q["p"] if isinstance(e, list) and e[0] == "f"}
                names.append(flds & {"stop", "message"})
            if names == [{"stop"}, {"message"}]:
                okb = True
        shuffled = any(calls(f, r"random::shuffle$|::shuffle$") for f in rcv)
        ctx.ob("R2", "recv-prefers-stop", okb and not shuffled,
               "the receive polls the stop channel before the message channel (biased select): a stop request overtakes queued "
               "messages and is never starved by a full mailbox", rcv[0])
        has_stop_on_err = False
        for f in rcv:
            for bi, si, st in f.stmts():
                r = st.get("r", {})
                if r.get("k") == "agg" and r.get("var") == "Stop" and (r.get("adt") or "").endswith("MailboxEvent"):
                    has_stop_on_err = True
        ctx.ob("R2", "recv-maps-closed-channel-to-stop", has_stop_on_err, "a closed channel ends the actor instead of spinning", rcv[0])
    cw = [f for f in db.fns.values() if f.kind == "coroutine" and db.root_fn(f).name == "compio_actor::mailbox::call::call_with"]
    if not cw:
        ctx.missing("R2", "call_with")
    for f in cw:
        snd = [bb for bb, t in f.calls() if call_matches(t, r"FnOnce::call_once$|FnOnce<.*>::call_once$")]
        aw = [bb for bb, t in calls(f, r"core::future::future::Future::poll$") if t.get("ga") and "oneshot::Receiver" in t["ga"][0]]
        ctx.ob("R2", "call-awaits-reply-only-after-accepted-send", bool(snd) and bool(aw) and all(f.cfg.dominates(snd[0], a) for a in aw),
               "the reply is awaited only after the call was handed to the mailbox; a refused call returns the error at once", f)
        kinds = {st["r"].get("var") for bi, si, st in f.stmts() if st.get("r", {}).get("k") == "agg" and (st["r"].get("adt") or "").endswith("CallError")}
        kinds |= {st["r"].get("var") for g in db.fns.values() if db.root_fn(g).name == "compio_actor::mailbox::call::call_with"
                  for bi, si, st in g.stmts() if st.get("r", {}).get("k") == "agg" and (st["r"].get("adt") or "").endswith("CallError")}
        ctx.ob("R2", "dropped-reply-becomes-NoReply", "NoReply" in kinds,
               "a reply sender dropped without an answer (actor stopped / failed) is reported as CallError::NoReply, not as a hang", f)
    # process group routing: round-robin scan with skip-full / evict-closed
    R("R4", "LOOP", "ProcessGroup::send: the scan hands the message back on every failing exit, evicts a closed member with an "
      "order-preserving removal (the members after the cursor are exactly the ones not tried yet) and advances modulo the "
      "current length")
    pgs = [f for f in db.fns.values() if f.name == "compio_actor::process_group::ProcessGroup::<M>::send"]
    if not pgs and any(f.id.startswith("compio_actor::process_group") for f in db.fns.values()):
        ctx.missing("R4", "ProcessGroup::send")
    for f in pgs:
        rm = calls(f, r"^alloc::vec::Vec::<T, A>::remove$|Vec::<.*>::remove$")
        reorder = calls(f, r"Vec::<.*>::(swap_remove|swap|reverse|rotate_left|rotate_right|sort\w*|dedup\w*)$|slice::<impl \[T\]>::(swap|reverse|rotate_left|rotate_right|sort\w*)$")
        snd = calls(f, r"Broker::<M>::send$")
        ctx.ob("R4", "evicts-closed-member-in-place", bool(rm) and bool(snd) and
               all(guarded_by_variant(f, bb, r"Broker::<M>::send$", 1) is not None for bb, _ in rm),
               "a member is removed only on the Err edge of its own send", f)
        ctx.ob("R4", "scan-order-preserved", not reorder,
               "no order-changing operation on the member list inside the scan (found: %s)" %
               (", ".join(sorted({(t.get("fn") or "").rsplit("::", 1)[-1] for _, t in reorder})) or "none"), f)
        rems = [bi for bi, si, st in f.stmts() if st.get("r", {}).get("k") == "bin" and st["r"].get("x", "").startswith("Rem")]
        ctx.ob("R4", "index-wraps-modulo-length", len(rems) >= 2 and all(any(call_matches(ct, r"Vec::<.*>::len$") for _, ct in data_deps(f, op_place(st["r"]["ops"][1])["l"])[1])
                                                                         for bi, si, st in f.stmts() if st.get("r", {}).get("k") == "bin" and st["r"].get("x", "").startswith("Rem") and op_place(st["r"]["ops"][1])),
               "after a full member and after an eviction the cursor is reduced modulo the current member count", f)
    REG = r"^compio_actor::cluster::registry::Registry$"
    rs = db.methods(self_adt=REG, name="reserve", trait="")
    if not rs:
        ctx.missing("R3", "Registry::reserve")
    for f in rs:
        lk = [bb for bb, t in calls(f, r"std::sync::(poison::mutex::)?Mutex::<T>::lock$|Mutex::<T>::lock$")]
        ck = [bb for bb, t in calls(f, r"HashMap::<.*>::contains_key$")]
        ins = [bb for bb, t in calls(f, r"HashMap::<.*>::insert$")]
        gt_ = [bb for bb, t in calls(f, r"HashMap::<.*>::(get|get_mut)$")]
        absent = bool(ins) and (guarded_by_bool(f, ins[0], r"HashMap::<.*>::contains_key$", False) is not None or
                                guarded_by_variant(f, ins[0], r"HashMap::<.*>::(get|get_mut)$", 0) is not None)
        ok = len(lk) == 1 and len(ins) == 1 and bool(ck + gt_) and f.cfg.dominates(lk[0], (ck + gt_)[0]) and absent
        ctx.ob("R3", "reserve-check-and-insert-under-one-lock", ok,
               "the name is inserted only on the edge where the map has *no entry at all* for it (contains_key false / "
               "get() == None), under the same lock acquisition: a name that is reserved but not yet activated is taken too", f)
        # inserted value is None (invisible until activated)
        nn = any(s.get("r", {}).get("k") == "agg" and s["r"].get("var") == "None" for bi, si, s in f.stmts())
        ctx.ob("R3", "reserved-entry-is-invisible", nn, "a reserved name maps to None until start-up succeeded", f)
    rg = db.adts.get("compio_actor::cluster::registry::Registration")
    if rg is None:
        ctx.missing("R3", "struct Registration")
    else:
        d = db.fns.get(rg.get("drop", ""))
        ctx.ob("R3", "registration-drop-removes-name", d is not None and bool(calls(d, r"HashMap::<.*>::remove$")),
               "dropping the Registration (actor exit or failed start) frees the name", d)
    gt = db.methods(self_adt=REG, name="get", trait="")
    for f in gt:
        ctx.ob("R3", "get-returns-activated-only", bool(calls(f, r"Option::<T>::and_then$")) and bool(calls(f, r"Mailbox::<A>::from_erased$")),
               "lookup flattens the Option<mailbox>: a reserved-but-not-started name yields nothing", f)


def check(tier):
    return engine.run("C19", tier, rules, NOT_DECIDED, [])
