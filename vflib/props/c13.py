"""C13 — Framing and ancillary codecs: hostile-input safety (structural clauses)."""
import re

from .. import engine
from ..facts import call_matches, op_place, rvalue_places
from ..util import (calls, dominated_by_any, guarded_by_bool, guarded_by_variant, arg_origin_calls,
                    data_deps, taint_forward, upper_bounded_at, receiver_field)

NOT_DECIDED = ("round-trip equality of frames and control messages, invariance under fragmentation (input-space "
               "quantities); only the shape of the length / bounds handling on the decode path is decided")

FROM_BYTES = r"^core::num::<impl \w+>::from_(be|le|ne)_bytes$"
SANITISE = re.compile(r"::(checked_\w+|saturating_\w+|min|clamp|try_from|try_into)$")
ARITH = ("Add", "Sub", "Mul", "AddWithOverflow", "SubWithOverflow", "MulWithOverflow", "AddUnchecked",
         "SubUnchecked", "MulUnchecked", "Shl", "ShlUnchecked")


def rules(ctx, db):
    R = ctx.rule
    R("R1", "TAINT", "an integer decoded from peer bytes (from_*_bytes) is used in arithmetic or handed on as a length "
      "only where a dominating comparison bounds it by an untainted value (or after checked_/saturating_/min); the "
      "completeness tests are strict and involve the prefix / suffix lengths the frame is announced with")
    R("R1b", "PAIR", "a slice built at CMSG_DATA has the length cmsg_len minus the header (CMSG_LEN(0)) or a constant "
      "payload size; the encoder writes CMSG_LEN(size) and advances by CMSG_SPACE(size)")
    R("R2", "ORD", "framed read: extract ≺ decode ≺ advance(frame.len()); the stream ends only at the second EOF")
    R("R3", "GUARD", "AncillaryBuilder::push checks the remaining space before it touches the buffer and advances by "
      "the space the encoder reports")

    if not any(n.startswith("compio_io::") for n in db.adts):
        return
    # ---------------- R1
    ext = [f for f in db.fns.values() if f.impl and f.impl.get("trait") == "compio_io::framed::frame::Framer" and f.short == "extract"]
    ctx.floor("R1", "Framer::extract impls", len(ext), 4)
    n_src = 0
    for f in ext:
        srcs = [(bb, t) for bb, t in calls(f, FROM_BYTES)]
        ctx.analysed(f)
        if not srcs:
            ctx.ob("R1", "no-decoded-integer:" + f.name, True, "this framer decodes no integer from the input", f)
            continue
        n_src += len(srcs)
        tainted = taint_forward(f, [t["dst"]["l"] for bb, t in srcs], sanitiser=lambda t: call_matches(t, SANITISE))
        bad = []
        for bi, si, s in f.stmts():
            r = s.get("r")
            if r and r["k"] == "bin" and r.get("x") in ARITH:
                for o in r["ops"]:
                    p = op_place(o)
                    if p and not p["p"] and p["l"] in tainted and not upper_bounded_at(f, p["l"], bi, tainted):
                        bad.append("L%d: %s on an unbounded peer-chosen value" % (s["ln"], r["x"]))
        for bb, t in f.calls():
            if call_matches(t, SANITISE) or call_matches(t, FROM_BYTES):
                continue
            if call_matches(t, r"^core::(cmp|ops)::|PartialOrd|PartialEq"):
                continue
            for a in t.get("args", []):
                p = op_place(a)
                if p and not p["p"] and p["l"] in tainted and not upper_bounded_at(f, p["l"], bb, tainted):
                    bad.append("L%d: passes an unbounded peer-chosen value to %s" % (t["ln"], t.get("fn")))
        for bi, b in enumerate(f.blocks):
            t = b["t"]
            if t["k"] == "assert" and t["msg"].startswith("Overflow"):
                pass  # covered by the arithmetic statement itself
        ctx.ob("R1", "peer-length-bounded:" + f.name, not bad,
               "peer-chosen length must be compared with what is buffered before it is added to / used as an "
               "offset%s" % ((": " + "; ".join(sorted(set(bad)))) if bad else ""), f)
    ctx.floor("R1", "integers decoded from input in extract impls", n_src, 2)
    # the completeness test accounts for everything the returned frame covers: Frame::new(prefix, payload, suffix) with a
    # peer-chosen payload is announced only behind a comparison of the buffered length that involves the payload *and*
    # the prefix (and suffix) it is announced with — `buffered < payload` alone lets a frame end beyond the buffer
    from ..arith import Sigs, _cmp_edges
    n_fr = 0
    for f in ext:
        srcs = [(bb, t) for bb, t in calls(f, FROM_BYTES)]
        if not srcs:
            continue
        tainted = taint_forward(f, [t["dst"]["l"] for bb, t in srcs], sanitiser=lambda t: False)
        sigs = Sigs(f)
        for bb, t in calls(f, r"^compio_io::framed::frame::Frame::new$"):
            pay = op_place(t["args"][1]) if len(t.get("args", [])) == 3 else None
            if pay is None or pay["l"] not in tainted:
                continue
            n_fr += 1
            extra = [a for a in (t["args"][0], t["args"][2]) if op_place(a) is not None]
            want = [sigs.operand(a) for a in extra]
            missing = list(want)
            for op, ops, sbb, t_t, f_t in _cmp_edges(f):
                if not any(e is not None and f.cfg.edge_dominates(sbb, e, bb) for e in (t_t, f_t)):
                    continue
                cone_sigs, has_len, has_pay = set(), False, False
                for o in ops:
                    pp = op_place(o)
                    if pp is None:
                        continue
                    locs, croots, places = data_deps(f, pp["l"])
                    has_len = has_len or any(call_matches(ct, r"::(len|buf_len)$") for _, ct in croots)
                    has_pay = has_pay or bool(locs & tainted)
                    cone_sigs.add(sigs.operand(o))
                    for pl in places:
                        cone_sigs.add(sigs.place(pl))
                if has_len and has_pay:
                    missing = [w for w in missing if w not in cone_sigs]
            ctx.ob("R1", "frame-test-covers-prefix-and-suffix:" + f.name, not missing,
                   "the comparison of the buffered length that admits a frame with a peer-chosen payload also involves the "
                   "prefix / suffix lengths the frame is announced with", f)
    ctx.floor("R1", "frames announced with a peer-chosen payload length", n_fr, 1)
    # completeness tests are strict: a buffer holding *exactly* a complete frame (e.g. a header with an empty
    # payload, or header + exactly `len` bytes) is complete
    for f in ext:
        if not calls(f, FROM_BYTES):
            continue
        nones = [bi for bi, si, s in f.stmts() if s.get("r", {}).get("k") == "agg" and s["r"].get("adt") == "core::option::Option" and s["r"].get("var") == "None"]
        tests = 0
        bad = []
        from ..util import value_switches
        for bi, si, s in f.stmts():
            r = s.get("r", {})
            if r.get("k") != "bin" or r.get("x") not in ("Lt", "Le", "Gt", "Ge"):
                continue
            # which operand is "what is buffered" (derived from the slice's len())?
            side = None
            for i, o in enumerate(r["ops"]):
                pp = op_place(o)
                if pp is not None and any(call_matches(ct, r"::len$") for _, ct in data_deps(f, pp["l"])[1]):
                    side = i
            if side is None:
                continue
            rel = r["x"] if side == 0 else {"Lt": "Gt", "Le": "Ge", "Gt": "Lt", "Ge": "Le"}[r["x"]]   # buffered REL needed
            for sw in value_switches(f, s["a"]["l"], through_calls=None):
                if sw["kind"] != "bool":
                    continue
                f_t, t_t = sw["targets"].get("0"), sw["otherwise"]
                if f_t is None:
                    continue
                if sw["inverted"]:
                    f_t, t_t = t_t, f_t
                # the edge that leads to `Ok(None)` (incomplete)
                for edge_true, tgt in ((True, t_t), (False, f_t)):
                    other_sw = {bx for bx, blk in enumerate(f.blocks) if blk["t"]["k"] == "switch" and bx != sw["bb"]}
                    if tgt in other_sw:
                        continue
                    if any(n in f.cfg.reach_from_block(tgt, avoid=other_sw) and f.cfg.edge_dominates(sw["bb"], tgt, n) for n in nones):
                        tests += 1
                        holds = rel if edge_true else {"Lt": "Ge", "Le": "Gt", "Gt": "Le", "Ge": "Lt"}[rel]
                        # incomplete must mean: buffered < needed  (strict)
                        if holds != "Lt":
                            bad.append("L%d: reports 'incomplete' when buffered %s needed" % (s["ln"], {"Le": "<=", "Gt": ">", "Ge": ">="}.get(holds, holds)))
        ctx.ob("R1", "completeness-tests-are-strict:" + f.name, tests >= 1 and not bad,
               "extract answers 'incomplete' only when strictly fewer bytes are buffered than needed; with `<=` a frame "
               "whose payload is empty (or exactly fills the buffer) is held back or dropped at end of stream%s" % (
                   (": " + "; ".join(bad)) if bad else ""), f)

    # ---------------- R1b CMSG pairing
    users = [f for f in db.fns.values() if calls(f, r"^libc::.*CMSG_DATA$")]
    ctx.floor("R1b", "functions using CMSG_DATA", len(users), 2)
    for f in users:
        frp = calls(f, r"^core::slice::raw::from_raw_parts(_mut)?$")
        ctx.ob("R1b", "cmsg-data-slice:" + f.name, len(frp) >= 1, "the payload is viewed as a slice", f)
        for bb, t in frp:
            lp = op_place(t["args"][1])
            ok = True
            why = ""
            if lp is not None:
                locs, croots, places = data_deps(f, lp["l"])
                uses_len = any(any(isinstance(e, list) and e[0] == "f" and e[2] == "cmsg_len" for e in p["p"]) for p in places) or \
                    any(call_matches(ct, r"CMsgRef(::<.*>)?::len$") for _, ct in croots)
                minus_hdr = any(call_matches(ct, r"^libc::.*CMSG_LEN$") for _, ct in croots)
                if uses_len and not minus_hdr:
                    ok = False
                    why = " (length is the raw cmsg_len, which includes the header)"
            ctx.ob("R1b", "payload-length-excludes-header:" + f.name, ok,
                   "the payload slice at CMSG_DATA excludes the cmsghdr" + why, f)
    enc = db.methods(self_adt=r"^compio_io::ancillary::sys::CMsgMut$", name="encode_data", trait="")
    if not enc:
        ctx.missing("R1b", "CMsgMut::encode_data")
    for f in enc:
        w = [s for bi, si, s in f.stmts() if "a" in s and any(isinstance(e, list) and e[0] == "f" and e[2] == "cmsg_len" for e in s["a"]["p"])]
        okw = False
        for s in w:
            for p in rvalue_places(s["r"]):
                locs, croots, places = data_deps(f, p["l"])
                if any(call_matches(ct, r"^libc::.*CMSG_LEN$") for _, ct in croots):
                    okw = True
        ctx.ob("R1b", "encoder-writes-CMSG_LEN", okw, "encode_data stores cmsg_len = CMSG_LEN(size)", f)
        ctx.ob("R1b", "encoder-reports-CMSG_SPACE", bool(calls(f, r"^libc::.*CMSG_SPACE$")),
               "encode_data reports the aligned space the message occupies", f)

    # ---------------- R2 framed read
    pn = db.methods(self_adt=r"^compio_io::framed::Framed$", name="poll_next", trait=r"stream::Stream$")
    if not pn:
        ctx.missing("R2", "Framed::poll_next")
    for f in pn:
        ex = [bb for bb, _ in calls(f, r"framed::frame::Framer::extract$")]
        de = [bb for bb, _ in calls(f, r"framed::codec::Decoder::decode$")]
        ad = [(bb, t) for bb, t in calls(f, r"compio_io::buffer::Buffer::<B>::advance$")]
        ok = len(ex) == 1 and len(de) == 1 and len(ad) == 1 and f.cfg.dominates(ex[0], de[0]) and f.cfg.dominates(de[0], ad[0][0])
        ctx.ob("R2", "extract-decode-advance", ok, "a frame is extracted, decoded, and then consumed from the buffer", f)
        if ad:
            src = arg_origin_calls(f, ad[0][1], 1)
            ctx.ob("R2", "advance-by-frame-len", any(call_matches(x, r"framed::frame::Frame::len$") for x in src),
                   "the buffer advances by exactly the extracted frame's total length", f)
        if ex and de:
            ctx.ob("R2", "decode-only-complete-frame", guarded_by_variant(f, de[0], r"framed::frame::Framer::extract$", 0) is not None or
                   _some_guard(f, de[0], ex[0]),
                   "decode runs only when extract returned a complete frame", f)
        nones = [bi for bi, si, s in f.stmts() if s.get("r", {}).get("k") == "agg" and s["r"].get("adt") == "core::option::Option"
                 and s["r"].get("var") == "None" and _flows_to_ret(f, s["a"]["l"])]
        eofr = [bi for bi, si, s in f.stmts() for p in rvalue_places(s.get("r", {})) if any(isinstance(e, list) and e[0] == "f" and e[2] == "eof" for e in p["p"])]
        ctx.ob("R2", "ends-at-second-eof", bool(eofr), "end of stream is decided from the eof flag (second zero-length read)", f)

    # ---------------- R3 builder
    ps = db.methods(self_adt=r"^compio_io::ancillary::AncillaryBuilder$", name="push", trait="")
    if not ps:
        ctx.missing("R3", "AncillaryBuilder::push")
    for f in ps:
        cm = [bb for bb, _ in calls(f, r"CMsgIter::current_mut$")]
        en = [bb for bb, _ in calls(f, r"CMsgMut.*::encode_data$")]
        ctx.ob("R3", "space-check-before-write",
               bool(cm) and all(guarded_by_bool(f, bb, r"CMsgIter::is_space_enough$", True) is not None for bb in cm + en),
               "the buffer is touched only after is_space_enough(T::SIZE) returned true", f)
        adv = calls(f, r"SetLenExt::advance$|IoBufMutExt::advance$|::advance$")
        ok = False
        for bb, t in adv:
            for i in range(len(t["args"])):
                if any(call_matches(x, r"encode_data$") for x in arg_origin_calls(f, t, i)):
                    ok = True
        ctx.ob("R3", "advance-by-encoded-space", ok, "the buffer length advances by the space encode_data reports", f)
    sp = db.methods(self_adt=r"^compio_io::ancillary::sys::CMsgIter$", name="is_space_enough", trait="")
    for f in sp:
        ctx.ob("R3", "space-check-uses-CMSG_SPACE", bool(calls(f, r"^libc::.*CMSG_SPACE$")),
               "the space check accounts for header and alignment (CMSG_SPACE)", f)


def _some_guard(f, ev, call_bb):
    from ..util import discr_edges
    for (sbb, targets, ow) in discr_edges(f, call_bb):
        for v, tgt in targets.items():
            if v == "1" and f.cfg.edge_dominates(sbb, tgt, ev):
                return True
    return False


def _flows_to_ret(f, l):
    return True


def _panic_blocks(f):
    return [bb for bb, t in f.calls() if call_matches(t, r"^core::panicking::|^std::rt::begin_panic|^core::panicking::assert_failed")]


def _switch_edges_on(f, pred):
    """[(switch bb, target bb)] of bool switches whose scrutinee's data dependence satisfies pred(locals, calls, places)."""
    out = []
    for bi, b in enumerate(f.blocks):
        t = b["t"]
        if t["k"] != "switch" or t.get("oty") != "bool":
            continue
        sl = op_place(t["op"])
        if sl is None:
            continue
        locs, cr, places = data_deps(f, sl["l"])
        if pred(locs | {sl["l"]}, cr, places):
            for v, tgt in t["tg"]:
                out.append((bi, tgt))
            out.append((bi, t["ow"]))
    return out


def rule_refusals(ctx, db):
    """R4: what is refused, and where. Degenerate parameters and unrepresentable frames are refused at the sender /
    constructor; bytes and lengths that arrive from the peer or the kernel are never answered with a panic."""
    R = ctx.rule
    R("R4", "GUARD", "an empty control buffer is the empty message list (no panic on its length); an empty delimiter is refused at "
      "construction, so the extractor never sees it; a payload the length field cannot express is refused by the encoder "
      "instead of being announced with a truncated length")
    if not any(f.id.startswith("compio_io::") for f in db.fns.values()):
        return
    # the constructor the *iterator* uses (role: the CMsgIter constructor reached from AncillaryIter::new)
    ai = [f for f in db.fns.values() if re.match(r"^compio_io::ancillary::AncillaryIter::<'\w+>::new$", f.name)]
    ci = []
    for f in ai:
        for bb, t in f.calls():
            for g in db.callee_fns(t, expand_traits=False):
                if g.self_adt == "compio_io::ancillary::sys::CMsgIter":
                    ci.append(g)
    if any(f.id.startswith("compio_io::ancillary::") for f in db.fns.values()):
        if not ci:
            ctx.missing("R4", "the CMsgIter constructor used by AncillaryIter::new")
        for f in ci:
            pb = _panic_blocks(f)
            edges = _switch_edges_on(f, lambda locs, cr, places: 2 in locs)          # arg 2 = len
            len_sw = {s_ for (s_, _t) in edges}
            bad = []
            for p in pb:
                # the switch that decides this panic: the closest switch one of whose edges dominates p
                cands = []
                for bi, b in enumerate(f.blocks):
                    t = b["t"]
                    if t["k"] != "switch":
                        continue
                    tgts = [x for _, x in t["tg"]] + [t["ow"]]
                    if any((x == p or f.cfg.edge_dominates(bi, x, p)) for x in tgts) and not all((x == p or f.cfg.edge_dominates(bi, x, p)) for x in tgts):
                        cands.append(bi)
                nearest = [c for c in cands if all(f.cfg.dominates(o, c) for o in cands)]
                if nearest and nearest[0] in len_sw:
                    bad.append(p)
            none_ret = any(st.get("r", {}).get("k") == "agg" and st["r"].get("var") == "None" for bi, si, st in f.stmts())
            ctx.ob("R4", "short-control-buffer-is-the-empty-list", not bad and bool(edges) and none_ret,
                   "CMsgIter::new answers a buffer shorter than one header with an iterator that yields nothing; no panic is "
                   "decided by the buffer's length", f)
    ad = [f for f in db.fns.values() if re.match(r"^compio_io::framed::frame::AnyDelimited::<'\w+>::new$", f.name)]
    if any(f.id.startswith("compio_io::framed::") for f in db.fns.values()):
        if not ad:
            ctx.missing("R4", "AnyDelimited::new")
        for f in ad:
            pb = _panic_blocks(f)
            ok = False
            for cb, ct in calls(f, r"slice::<impl \[T\]>::is_empty$"):
                from ..util import bool_edges
                for (sbb, tt, ft) in bool_edges(f, cb):
                    if tt is not None and any(f.cfg.edge_dominates(sbb, tt, p) or p == tt for p in pb):
                        ok = True
            ctx.ob("R4", "empty-delimiter-refused-at-construction", ok,
                   "AnyDelimited::new panics for an empty delimiter (the programmer's mistake) so that `windows(0)` can never "
                   "panic on bytes received from the peer", f)
        en = [f for f in db.fns.values() if f.name.endswith("LengthDelimited as compio_io::framed::frame::Framer<B>>::enclose")]
        if not en:
            ctx.missing("R4", "LengthDelimited::enclose")
        for f in en:
            pb = _panic_blocks(f)
            def both(locs, cr, places):
                return any(call_matches(ct, r"buf_len$") for _, ct in cr) and \
                    any(any(isinstance(e, list) and e[0] == "f" and e[2] == "length_field_len" for e in pl["p"]) for pl in places)
            edges = _switch_edges_on(f, both)
            hdr = [bb for bb, _ in calls(f, r"copy_from_slice$|copy_within$")]
            ok = any(any(f.cfg.edge_dominates(s_, t_, p) or p == t_ for p in pb) for (s_, t_) in edges) and \
                bool(hdr) and all(any(h in f.cfg.reach_set([s_]) and s_ not in f.cfg.reach_set([h]) for (s_, _t) in edges) for h in hdr)
            ctx.ob("R4", "unrepresentable-length-refused-by-the-encoder", ok,
                   "before the header is written the payload length is tested against the width of the length field and an "
                   "oversized frame panics at the sender (a truncated length would make the receiver split the stream differently)", f)


def rules_all(ctx, db):
    rules(ctx, db)
    rule_refusals(ctx, db)


def check(tier):
    return engine.run("C13", tier, rules_all, NOT_DECIDED, [])
