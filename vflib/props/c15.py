"""C15 — TLS and WebSocket layers preserve the stream (thin structural clauses)."""
import re

from .. import engine
from ..facts import call_matches, op_place, rvalue_places
from ..util import (calls, dominated_by_any, guarded_by_bool, discr_edges, data_deps, arg_origin_fields)

NOT_DECIDED = ("that application data / messages arrive unchanged, in order and exactly once for every transport "
               "schedule, and deadlock freedom (the core of C15); only the flush-through skeleton, the handshake flush "
               "discipline and the Pending <-> WouldBlock translation sites are decided")


def ready_ok_blocks(f):
    return [bi for bi, si, s in f.stmts() if s.get("r", {}).get("k") == "agg" and s["r"].get("adt") == "core::task::poll::Poll"
            and s["r"].get("var") == "Ready" and s["a"]["l"] == 0]


def rules(ctx, db):
    R = ctx.rule
    R("R1", "MPT", "WebSocket: a flush (and the hand-out of a received item) first flushes the protocol layer and then the "
      "transport; both lie on every path to Ready")
    R("R2", "ORD+GUARD", "TLS handshake shim: what was written during the handshake is flushed before the next read; flush is "
      "deferred until the handshake finished and performed right after it")
    R("R3", "sibling constants", "Pending is turned into WouldBlock on the blocking side and WouldBlock back into Pending on the poll side")

    # ---------------- R1
    if any(f.id.startswith("compio_ws::") for f in db.fns.values()):
        WS = r"^compio_ws::WebSocketStream$"
        for nm, tr in (("poll_flush", r"Sink"), ("poll_next", r"Stream$")):
            fs = db.methods(self_adt=WS, name=nm, trait=tr)
            if not fs:
                ctx.missing("R1", "WebSocketStream::" + nm)
            for f in fs:
                proto = [bb for bb, t in calls(f, r"futures_sink::Sink::poll_flush$|Sink<.*>::poll_flush$")]
                trans = [bb for bb, t in calls(f, r"futures_io::if_std::AsyncWrite::poll_flush$|AsyncWrite::poll_flush$")]
                ok = len(proto) == 1 and len(trans) == 1 and f.cfg.dominates(proto[0], trans[0])
                rdy = ready_ok_blocks(f)
                if nm == "poll_flush":
                    ok = ok and bool(rdy) and all(_succ_ready_after(f, b, proto + trans) for b in rdy)
                    ctx.ob("R1", "flush-through:" + nm, ok,
                           "poll_flush reports Ready(Ok) only after the protocol flush and then the transport flush", f)
                else:
                    tk = [bb for bb, t in calls(f, r"core::option::Option::<T>::take$")]
                    ok = ok and bool(tk) and all(f.cfg.dominates(trans[0], b) for b in tk)
                    ctx.ob("R1", "flush-before-item:" + nm, ok,
                           "a received message is handed out only after pending protocol replies (pong / close) were "
                           "flushed down to the transport", f)
    # ---------------- R2
    if any(f.id.startswith("compio_tls::") for f in db.fns.values()):
        OI = r"^compio_tls::compat::common::OpensslInner$"
        pr = db.methods(self_adt=OI, name="poll_read", trait=r"AsyncRead$")
        if not pr:
            ctx.missing("R2", "OpensslInner::poll_read")
        for f in pr:
            fl = [bb for bb, t in calls(f, r"AsyncWrite::poll_flush$")]
            rd = [bb for bb, t in calls(f, r"AsyncRead::poll_read$")]
            reads = set()
            for bi, si, s in f.stmts():
                for p in rvalue_places(s.get("r", {})):
                    for e in p["p"]:
                        if isinstance(e, list) and e[0] == "f" and e[2] in ("written", "handshaken"):
                            reads.add(e[2])
            wr = [bi for bi, si, s in f.stmts() if "a" in s and any(isinstance(e, list) and e[0] == "f" and e[2] == "written" for e in s["a"]["p"])]
            ok = len(fl) == 1 and len(rd) == 1 and reads >= {"written", "handshaken"} and bool(wr) and f.cfg.dominates(fl[0], wr[0]) and \
                rd[0] not in f.cfg.reach_set([fl[0]], avoid=set(wr) | set(f.cfg.returns)) if (fl and rd) else False
            ctx.ob("R2", "handshake-read-flushes-first", ok,
                   "during the handshake a read first flushes what was written (written && !handshaken), clears the flag "
                   "only after a successful flush, and only then reads", f)
        pw = db.methods(self_adt=OI, name="poll_write", trait=r"AsyncWrite$")
        for f in pw:
            wr = [bi for bi, si, s in f.stmts() if "a" in s and any(isinstance(e, list) and e[0] == "f" and e[2] == "written" for e in s["a"]["p"])]
            w = [bb for bb, t in calls(f, r"AsyncWrite::poll_write$")]
            ctx.ob("R2", "write-marks-pending-flush", bool(wr) and bool(w) and f.cfg.dominates(w[0], wr[0]),
                   "a successful write during the handshake marks the stream as needing a flush", f)
        pf = db.methods(self_adt=OI, name="poll_flush", trait=r"AsyncWrite$")
        for f in pf:
            fl = [bb for bb, t in calls(f, r"AsyncWrite::poll_flush$")]
            reads = any(any(isinstance(e, list) and e[0] == "f" and e[2] == "handshaken" for e in p["p"])
                        for bi, si, s in f.stmts() for p in rvalue_places(s.get("r", {})))
            ctx.ob("R2", "flush-deferred-until-handshaken", bool(fl) and reads, "flush reaches the transport only once the handshake is done", f)
        hs = [f for f in db.fns.values() if f.id.startswith("compio_tls::compat::native::handshake") and f.kind == "coroutine"]
        if any(f.id.startswith("compio_tls::compat::native::") for f in db.fns.values()):
            ctx.floor("R2", "native handshake coroutine", len(hs), 1)
        for f in hs:
            fh = [bb for bb, t in calls(f, r"AllowStd::<S>::finish_handshake$")]
            fl = [bb for bb, t in calls(f, r"AsyncWriteExt::flush$|::flush$")]
            ctx.ob("R2", "flush-right-after-handshake", bool(fh) and bool(fl) and any(f.cfg.dominates(fh[0], b) for b in fl),
                   "finish_handshake() is followed by an explicit flush of the deferred data", f)
        # ---------------- R4: close = protocol shutdown, then the transport flushed, on every path to Ready(Ok)
        R("R4", "MPT", "native TLS close: the shutdown alert is followed by a flush of the transport, and Ready(Ok) is reported "
          "only from that flush (SSL_shutdown ignores the result of flushing its BIO, so a pending transport flush would "
          "otherwise strand close_notify in the transport's buffer)")
        pc = db.methods(self_adt=r"^compio_tls::compat::native::TlsStream$", name="poll_close", trait=r"AsyncWrite$")
        if any(f.id.startswith("compio_tls::compat::native::") for f in db.fns.values()) and not pc:
            ctx.missing("R4", "native TlsStream::poll_close")
        for f in pc:
            # the shutdown stage may live in a private helper of the stream that poll_close calls
            helpers = [g for g in db.succ_fns(f, expand_traits=False) if g.self_adt == "compio_tls::compat::native::TlsStream" and g.id != f.id
                       and g.short != "with_context"]
            sh, fl = [], []
            sh_fns = []
            for holder in [f] + helpers:
              for bb, t in calls(holder, r"native::TlsStream::<S>::with_context$"):
                for a in t["args"]:
                    pl = op_place(a)
                    if pl is None:
                        continue
                    for d in holder.cfg.defs.get(pl["l"], []):
                        if d[0] == "assign" and d[3]["r"].get("k") == "agg" and d[3]["r"].get("x") == "closure":
                            g = db.fns.get(d[3]["r"]["def"])
                            if g is None:
                                continue
                            if calls(g, r"native_tls::TlsStream::<S>::shutdown$"):
                                sh_fns.append((holder, bb))
                                if holder is f:
                                    sh.append(bb)
                                else:
                                    # the call of the helper inside poll_close stands for the shutdown stage
                                    sh += [cb for cb, ct in f.calls() if any(h.id == holder.id for h in db.callee_fns(ct, expand_traits=False))]
                            if holder is f and calls(g, r"std::io::Write::flush$") and calls(g, r"native_tls::TlsStream::<S>::get_mut$"):
                                fl.append((bb, t))
            ok = bool(sh) and bool(fl)
            detail = "shutdown and a transport flush are both issued through with_context"
            if ok:
                # every definition of the return place is the flush's result, Poll::Pending, or a propagated error
                for d in f.cfg.defs.get(0, []):
                    if d[0] == "call":
                        t = d[2]
                        if any(t is ft for _, ft in fl) or call_matches(t, r"FromResidual.*::from_residual$"):
                            continue
                        ok = False
                        detail = "the result of poll_close is also produced by " + (t.get("fn") or "?")
                    elif d[0] == "assign":
                        r = d[3]["r"]
                        if r.get("k") == "agg" and r.get("var") == "Pending":
                            continue
                        if r.get("k") == "agg" and r.get("var") == "Ready" and r.get("ops"):
                            # Ready(Err(e)): an error of the shutdown call handed on (match-style spelling of `?`)
                            q = op_place(r["ops"][0])
                            if q is not None and all(d2[0] == "assign" and d2[3]["r"].get("k") == "agg" and d2[3]["r"].get("var") == "Err"
                                                     for d2 in f.cfg.defs.get(q["l"], [])) and f.cfg.defs.get(q["l"]):
                                continue
                        ok = False
                        detail = "poll_close builds a result (e.g. Ready) that does not come from the transport flush"
            else:
                detail = "poll_close does not flush the transport after native_tls shutdown()"
            ctx.ob("R4", "close-flushes-transport", ok, detail, f)
            # a re-polled close must not run SSL_shutdown a second time (that would wait for the peer's close_notify and
            # never retry the flush): the shutdown call is guarded by a flag that is set after it succeeded
            guarded = False
            for holder, s_ in sh_fns:
                for bi, b in enumerate(holder.blocks):
                    t = b["t"]
                    if t["k"] == "switch" and t.get("oty") == "bool" and any(holder.cfg.edge_dominates(bi, tgt, s_) for _, tgt in t["tg"]):
                        guarded = True
            ctx.ob("R4", "shutdown-not-repeated", guarded or not sh,
                   "the SSL shutdown call is skipped on a re-poll once it succeeded (a second SSL_shutdown would wait for the peer)", f)
        # ---------------- R3
        wc = db.methods(self_adt=r"^compio_tls::compat::common::AllowStd$", name="with_context", trait="")
        if not wc:
            ctx.missing("R3", "AllowStd::with_context")
        for f in wc:
            kinds = {s["r"].get("var") for bi, si, s in f.stmts() if s.get("r", {}).get("k") == "agg" and (s["r"].get("adt") or "").endswith("io::error::ErrorKind")}
            ctx.ob("R3", "pending-becomes-wouldblock", "WouldBlock" in kinds,
                   "the blocking shim reports a pending transport as ErrorKind::WouldBlock", f)
        back = [f for f in db.fns.values() if f.id.startswith("compio_tls::compat::") and calls(f, r"io::error::Error::kind$")
                and any(s.get("r", {}).get("var") == "Pending" for bi, si, s in f.stmts())]
        ctx.floor("R3", "poll-side WouldBlock translation sites", len(back), 1)
        for f in back:
            ctx.ob("R3", "wouldblock-becomes-pending:" + f.name, True, "the poll side turns WouldBlock back into Poll::Pending", f)


def _succ_ready_after(f, b, events):
    return all(f.cfg.dominates(e, b) for e in events)


def check(tier):
    return engine.run("C15", tier, rules, NOT_DECIDED, [])
