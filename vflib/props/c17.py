"""C17 — The blocking pool is bounded and loses nothing (structural clauses)."""
import re

from .. import engine
from ..facts import call_matches, op_place, rvalue_places
from ..util import (Summaries, calls, dominated_by_any, guarded_by_bool, guarded_by_variant, discr_edges,
                    receiver_field, arg_origin_calls, data_deps, flow_call)
from .c03 import ATOMIC, RMW, atomic_calls

NOT_DECIDED = ("exactly-once execution under every load and schedule, retirement timing of idle workers; the rules "
               "decide where the limit is enforced and that no path drops a job or a result")


def rules(ctx, db):
    R = ctx.rule
    R("R1", "ATOM", "the worker-limit check and the admission of a new worker are one atomic read-modify-write on the "
      "dispatching thread, before thread::spawn; the worker itself never increments the counter")
    R("R2", "MPT", "a job that is not accepted is handed back inside DispatchError, and the drivers retry with the returned job")
    R("R3", "COVER", "the worker slot is released by a guard's Drop on every exit of the worker (panic included)")
    R("R4", "WMC", "blocking jobs run under catch_unwind and their panics are resumed where the result is taken")
    R("R5", "MPT", "an accepted job is handed to a worker on every path that reports success, and a worker runs every job it receives")

    if not any(f.id.startswith("compio_driver::asyncify::") for f in db.fns.values()):
        return
    dp = db.methods(self_adt=r"^compio_driver::asyncify::AsyncifyPool$", name="dispatch", trait="")
    if not dp:
        ctx.missing("R1", "AsyncifyPool::dispatch")
    for f in dp:
        sp = [bb for bb, _ in calls(f, r"^std::thread::(functions::)?spawn$|^std::thread::Builder::spawn")]
        rmw = [(bb, t) for bb, t in atomic_calls(f) if call_matches(t, RMW) and "counter" in receiver_field(f, t)]
        lds = [(bb, t) for bb, t in atomic_calls(f) if call_matches(t, r"::load$") and "counter" in receiver_field(f, t)]
        ctx.ob("R1", "spawn-exists", len(sp) == 1, "dispatch spawns a worker at exactly one site", f)
        ok = False
        for sbb in sp:
            for bb, t in rmw:
                if f.cfg.dominates(bb, sbb):
                    # the spawn is on the success edge of the RMW: is_err()==false / Ok discriminant / compared result
                    if guarded_by_bool(f, sbb, r"core::result::Result::<T, E>::is_err$", False) is not None or \
                            guarded_by_bool(f, sbb, r"core::result::Result::<T, E>::is_ok$", True) is not None or \
                            guarded_by_variant(f, sbb, re.escape(t["fn"]) + "$", 0) is not None or \
                            call_matches(t, r"::fetch_add$"):
                        ok = True
        if not ok:
            # the reservation may live in a bool-returning helper of the pool (`try_reserve_slot()`): the spawn must be
            # on its `true` edge, and inside the helper `true` is returned only on the success edge of an RMW on the counter
            from ..util import bool_edges
            for sbb in sp:
                for cbb, t in f.calls():
                    if f.local_ty(t["dst"]["l"]) != "bool":
                        continue
                    for h in db.callee_fns(t, expand_traits=False):
                        if h.self_adt != "compio_driver::asyncify::AsyncifyPool":
                            continue
                        hr = [(b2, t2) for b2, t2 in atomic_calls(h) if call_matches(t2, RMW) and "counter" in receiver_field(h, t2)]
                        if not hr:
                            continue
                        trues = [bi for bi, si, s2 in h.stmts() if "a" in s2 and s2["a"]["l"] == 0 and not s2["a"]["p"] and
                                 any(o.get("k") == "true" for o in s2["r"].get("ops", []))]
                        succ_ok = bool(trues) and all(any(
                            guarded_by_variant(h, tb, re.escape(t2["fn"]) + "$", 0) is not None or call_matches(t2, r"::fetch_add$")
                            for b2, t2 in hr) for tb in trues)
                        on_true = any(tt != ft and f.cfg.edge_dominates(sb, tt, sbb) for (sb, tt, ft) in bool_edges(f, cbb))
                        if succ_ok and on_true:
                            ok = True
        ctx.ob("R1", "limit-check-and-admission-are-one-RMW", ok,
               "thread::spawn must be dominated by the success edge of an atomic RMW on the worker counter "
               "(fetch_update / compare_exchange / fetch_add) executed by the dispatcher: with a plain load, two "
               "dispatchers can both pass the check and exceed thread_limit", f)
        # the failing edge hands the job back
        errs = [bi for bi, si, s in f.stmts() if s.get("r", {}).get("k") == "agg" and s["r"].get("adt") == "core::result::Result"
                and s["r"].get("var") == "Err" and s["a"]["l"] == 0]
        ctx.ob("R2", "saturated-returns-error", len(errs) == 1, "dispatch has one 'all threads busy' exit", f)
        for e in errs:
            s = [s for s in f.blocks[e]["st"] if s.get("r", {}).get("var") == "Err"][0]
            p = op_place(s["r"]["ops"][0])
            locs, croots, places = data_deps(f, p["l"])
            from_full = any(any(isinstance(x, list) and x[0] == "d" and x[1] == "Full" for x in pl["p"]) for pl in places)
            ctx.ob("R2", "rejected-job-is-handed-back", from_full,
                   "the DispatchError carries the very job that try_send gave back (TrySendError::Full payload), not a drop of it", f)
        # success paths: try_send Ok or spawn + send
        ts = [bb for bb, _ in calls(f, r"^flume::Sender::<T>::try_send$")]
        sd = [bb for bb, _ in calls(f, r"^flume::Sender::<T>::send$")]
        oks = [bi for bi, si, s in f.stmts() if s.get("r", {}).get("k") == "agg" and s["r"].get("adt") == "core::result::Result"
               and s["r"].get("var") == "Ok" and s["a"]["l"] == 0]
        good = bool(oks) and bool(ts)
        for o in oks:
            from ..util import guarded_by_variant_strict
            via_try = guarded_by_variant_strict(f, o, r"^flume::Sender::<T>::try_send$", 0) is not None
            via_send = dominated_by_any(f, sd, o) is not None and dominated_by_any(f, sp, o) is not None
            # ... or the job travels with the worker that was spawned for it: the spawn's closure is built from the
            # payload try_send gave back (TrySendError::Full)
            via_spawn = False
            for sb in sp:
                if not f.cfg.dominates(sb, o):
                    continue
                t_sp = f.blocks[sb]["t"]
                for a in t_sp.get("args", []):
                    pl = op_place(a)
                    if pl is None:
                        continue
                    locs, cr, places = data_deps(f, pl["l"])
                    if any(any(isinstance(x, list) and x[0] == "d" and x[1] == "Full" for x in q["p"]) for q in places):
                        via_spawn = True
            via_send = via_send or via_spawn
            if not (via_try or via_send):
                good = False
        ctx.ob("R5", "success-means-handed-to-a-worker", good,
               "Ok(()) is returned only after an idle worker took the job (try_send Ok) or after a new worker was "
               "spawned and the job was sent to the pool", f)
    # worker never increments
    # the worker body (and the function that builds it): found by role — it blocks on the pool's channel
    wk = [f for f in db.fns.values() if f.id.startswith("compio_driver::asyncify::") and calls(f, r"^flume::Receiver::<T>::recv_timeout$")]
    wk += [db.fns[f.parent] for f in list(wk) if f.parent in db.fns and db.fns[f.parent] not in wk]
    ctx.floor("R1", "worker bodies", len(wk), 2)
    for f in wk:
        incs = [(bb, t) for bb, t in atomic_calls(f) if call_matches(t, r"::fetch_add$|::fetch_update$|::store$")]
        ctx.ob("R1", "worker-does-not-admit-itself:" + f.name, not incs,
               "the spawned worker must not be the one that increments the worker counter (the slot is reserved by the dispatcher)", f)
    # R3 guard
    cg = db.adts.get("compio_driver::asyncify::CounterGuard")
    if cg is None:
        ctx.missing("R3", "struct CounterGuard")
    else:
        ctx.ob("R3", "guard-has-drop", "drop" in cg, "CounterGuard implements Drop")
        for f in db.methods(self_adt=r"^compio_driver::asyncify::CounterGuard$", name="drop", trait=r"Drop$"):
            subs = [(bb, t) for bb, t in atomic_calls(f) if call_matches(t, r"::fetch_sub$")]
            ctx.ob("R3", "guard-drop-decrements", len(subs) == 1 and f.cfg.postdominates(subs[0][0], 0),
                   "dropping the guard decrements the worker counter exactly once", f)
        owners = [f for f in wk if any(ty == "compio_driver::asyncify::CounterGuard" for ty, nm in f.locals) or
                  any("CounterGuard" in (f.locals[i][0]) for i in range(len(f.locals)))]
        held = False
        for f in wk:
            if f.kind == "closure":
                # the guard is captured by value (an upvar of type CounterGuard) or created inside
                env = f.locals[1][0] if len(f.locals) > 1 else ""
                tys = [ty for ty, nm in f.locals]
                if any(ty == "compio_driver::asyncify::CounterGuard" for ty in tys):
                    held = True
        ctx.ob("R3", "worker-owns-guard", held,
               "the worker closure owns a CounterGuard for its whole life, so the slot is released on return and on unwind")
    # R4
    tk = [(f, bb, t) for f, bb, t in db.callers_of(r"^compio_driver::key::Key::<T>::take_result$") if not f.blocks[bb]["cl"]]
    for f, bb, t in tk:
        if f.short in ("pop", "pop_with_extra", "cancel"):
            ru = calls(f, r"^compio_driver::panic::resume_unwind_io$")
            ok = False
            for b2, t2 in ru:
                locs, croots, _ = data_deps(f, op_place(t2["args"][0])["l"])
                if any(call_matches(ct, r"Key::<T>::take_result$") for _, ct in croots):
                    ok = True
            ctx.ob("R4", "panic-resumed-at:" + f.name, ok,
                   "the io result taken from a finished op goes through resume_unwind_io (a panicking pool job "
                   "panics the submitter instead of vanishing)", f)
    cu = [f for f in db.fns.values() if f.name == "compio_driver::panic::catch_unwind_io"]
    if not cu:
        ctx.missing("R4", "catch_unwind_io")
    for f in cu:
        ctx.ob("R4", "catch_unwind_io-catches", bool(calls(f, r"^std::panic::catch_unwind$")), "catch_unwind_io wraps std::panic::catch_unwind", f)
    from .c02 import rules as _  # noqa: F401  (R7 of C02 decides the closure shape; repeated here for the pool)
    fz = [(f, bb, t) for f, bb, t in db.callers_of(r"^compio_driver::key::ErasedKey::freeze$") if not f.blocks[bb]["cl"]]
    for f, bb, t in fz:
        dsp = calls(f, r"^compio_driver::asyncify::AsyncifyPool::dispatch$")
        ctx.ob("R2", "driver-retries-dispatch:" + f.name, bool(dsp) and all(b in f.cfg.reach_set([b]) for b, _ in dsp),
               "push_blocking calls dispatch in a loop until the job is accepted", f)
        for b, t2 in dsp:
            p = op_place(t2["args"][1])
            defs = f.cfg.defs.get(p["l"], []) if p else []
            # the argument local (or its source) is re-assigned from the error payload
            srcs = set()
            work = [p["l"]] if p else []
            seen = set()
            from_err = False
            while work:
                l = work.pop()
                if l in seen:
                    continue
                seen.add(l)
                for d in f.cfg.defs.get(l, []):
                    if d[0] == "assign":
                        for pl in rvalue_places(d[3]["r"]):
                            if any(isinstance(e, list) and e[0] == "d" and e[1] == "Err" for e in pl["p"]) or \
                                    any(isinstance(e, list) and e[0] == "f" and e[3] == "compio_driver::asyncify::DispatchError" for e in pl["p"]):
                                from_err = True
                            work.append(pl["l"])
            ctx.ob("R2", "retry-uses-returned-job:" + f.name, from_err,
                   "the retried job is the one handed back in the DispatchError", f)
        for cid in f.closures():
            c = db.fns.get(cid)
            if c is None or not calls(c, r"FrozenKey::into_inner$"):
                continue
            ctx.ob("R4", "job-runs-under-catch_unwind:" + f.name, bool(calls(c, r"^compio_driver::panic::catch_unwind_io$")),
                   "the pool closure runs the op under catch_unwind_io", c)
    # worker loop runs every received job
    for f in wk:
        if f.kind != "closure":
            continue
        rc = [bb for bb, _ in calls(f, r"^flume::Receiver::<T>::recv_timeout$")]
        rn = [bb for bb, _ in calls(f, r"asyncify::Dispatchable::run$")]
        def _own_first_job(b):
            # `first.run()`: the job the worker was spawned for (a captured upvar of the worker closure)
            t_ = f.blocks[b]["t"]
            pl = op_place(t_["args"][0]) if t_.get("args") else None
            if pl is None:
                return False
            locs, cr, places = data_deps(f, pl["l"])
            return (pl["l"] == 1 or 1 in locs) and not any(call_matches(ct, r"recv_timeout$") for _, ct in cr)
        looped = [b for b in rn if guarded_by_variant(f, b, r"^flume::Receiver::<T>::recv_timeout$", 0) is not None]
        ok = bool(rc) and bool(looped) and all((b in looped) or _own_first_job(b) for b in rn) \
            and any(rc[0] in f.cfg.reach_set([b]) for b in looped)
        ctx.ob("R5", "worker-runs-every-received-job", ok,
               "the worker loop runs each job it receives and then waits for the next one", f)


def rule_completion_channel(ctx, db):
    R = ctx.rule
    R("R6", "TYPE/ctor", "the channel that carries finished blocking jobs (and cancelled entries) back to the driver is unbounded: "
      "a pool worker never blocks in send() — the driver thread is its only drainer and may itself be busy retrying a "
      "dispatch until a worker becomes idle")
    ctors = []
    for f in db.fns.values():
        if not f.id.startswith("compio_driver::"):
            continue
        for bb, t in f.calls():
            n = t.get("rfn") or t.get("fn") or ""
            if re.match(r"^flume::(bounded|unbounded)$", n) and (t.get("ga") or [""])[0] == "compio_driver::Entry":
                ctors.append((f, n))
    drivers = [a for a in db.adts.values() if re.match(r"^compio_driver::sys::driver::(iour|poll)::Driver$", a["name"]) and
               any(fl["ty"] == "flume::Sender<compio_driver::Entry>" for _, fl in db.adt_fields(a))]
    if not drivers:
        return
    ctx.floor("R6", "completion channels (one per compiled driver)", len(ctors), len(drivers))
    for f, n in ctors:
        ctx.ob("R6", "completion-channel-unbounded:" + f.name, n == "flume::unbounded",
               "created with %s" % n, f)


def rule_dispatch_never_blocks(ctx, db):
    R = ctx.rule
    R("R7", "WMC", "AsyncifyPool::dispatch never blocks its caller (the runtime thread): the job goes to an idle worker with "
      "try_send, travels with a newly spawned worker, or is handed back — no blocking send on the rendezvous channel")
    ds = [f for f in db.fns.values() if f.name.startswith("compio_driver::asyncify::AsyncifyPool::dispatch")]
    if any(f.id.startswith("compio_driver::asyncify::") for f in db.fns.values()) and not ds:
        ctx.missing("R7", "AsyncifyPool::dispatch")
    for f in ds:
        blocking = calls(f, r"^flume::Sender::<T>::(send|send_timeout|send_deadline)$") + calls(f, r"^flume::Receiver::<T>::(recv|recv_timeout|recv_deadline)$")
        ctx.ob("R7", "dispatch-has-no-blocking-channel-call:" + f.short, not blocking and bool(calls(f, r"^flume::Sender::<T>::try_send$")) if f.kind not in ("closure",) else not blocking,
               "dispatch uses try_send only (a blocking send waits for a receiver that may never come: a freshly spawned worker "
               "whose first recv_timeout already expired)", f)


def rules_all(ctx, db):
    rules(ctx, db)
    rule_completion_channel(ctx, db)
    rule_dispatch_never_blocks(ctx, db)
    if ctx.tier == "thorough" and ctx.cfg == "A":
        from .. import witness
        witness.obligations(ctx, "C17")


def check(tier):
    return engine.run("C17", tier, rules_all, NOT_DECIDED, [])
