"""C05 — Cancellation is prompt, honest and local (structural clauses)."""
import re

from .. import engine
from ..facts import call_matches, op_place, rvalue_places
from ..util import (Summaries, calls, dominated_by_any, guarded_by_bool, guarded_by_variant, discr_edges,
                    bool_edges, receiver_field, arg_origin_calls, arg_origin_args, flow_call, value_switches)
from .c01 import has_iour, has_poll, DRV
from .c02 import sq_push_shape, SQ_PUSH

NOT_DECIDED = ("promptness in time; what the kernel returns for a cancelled operation; survival of neighbour "
               "operations beyond 'only this key is removed / addressed'")

DRV_CANCEL = r"^compio_driver::sys::driver::\w+::Driver::cancel$"


def rules(ctx, db):
    R = ctx.rule
    R("R1", "GUARD", "cancel / cancel_token reach the driver only for the first cancellation of a not-yet-completed op")
    R("R2", "same-value", "the driver cancels exactly the addressed operation: AsyncCancel carries the op's own user_data "
      "and a sentinel the CQE loop ignores; the polling driver removes only this key, re-arms, and emits one ECANCELED entry")
    R("R2b", "WMC+LOOP", "a cancel SQE gets the same queue-overflow handling as any SQE (every SQ push is in the retry helper)")
    R("R3", "TYPE/ADT", "cancel tokens hold only a weak reference to the operation")
    R("R4", "GUARD+COVER", "CancelToken: register cancels at once when the token already fired, otherwise records a token; "
      "cancel fires once and cancels every recorded token; the submit state machines register freshly submitted keys")
    R("R5", "ORD", "Timeout polls the inner future before the deadline and reports Elapsed only when the inner future is pending")

    # ---------------- R1
    ct = [f for f in db.fns.values() if f.name == "compio_driver::Proactor::cancel_token"]
    if not ct:
        ctx.missing("R1", "Proactor::cancel_token")
    for f in ct:
        dc = [bb for bb, _ in calls(f, DRV_CANCEL)]
        ctx.ob("R1", "cancel_token-reaches-driver", len(dc) >= 1, "cancel_token issues the driver cancel", f)
        for bb in dc:
            ctx.ob("R1", "cancel_token-first-cancel-only", guarded_by_bool(f, bb, r"ErasedKey::set_cancelled$", False) is not None,
                   "cancelling twice is a no-op (driver cancel only when set_cancelled() returned false)", f)
            ctx.ob("R1", "cancel_token-not-after-completion", guarded_by_bool(f, bb, r"ErasedKey::has_result$", False) is not None,
                   "cancelling after completion is a no-op", f)
            ctx.ob("R1", "cancel_token-live-key-only", guarded_by_variant(f, bb, r"Cancel::upgrade$", 1) is not None,
                   "a token whose op is gone cancels nothing", f)
            # the key cancelled is the one upgraded from the token
            src = arg_origin_calls(f, f.blocks[bb]["t"], 1)
            ctx.ob("R1", "cancel_token-cancels-own-key", any(call_matches(x, r"Cancel::upgrade$") for x in src),
                   "the key handed to the driver is the token's own operation", f)
        trues = [bi for bi, si, s in f.stmts() if s["a"]["l"] == 0 and any(o.get("k") == "true" for o in s.get("r", {}).get("ops", []))] if False else \
                [bi for bi, si, s in f.stmts() if "a" in s and s["a"]["l"] == 0 and not s["a"]["p"] and any(o.get("k") == "true" for o in s["r"].get("ops", []))]
        ctx.ob("R1", "cancel_token-honest-return", bool(trues) and all(dominated_by_any(f, dc, b, strict=False) is not None for b in trues),
               "`true` (cancellation issued) is returned only after the driver cancel", f)
    pc = [f for f in db.fns.values() if f.name == "compio_driver::Proactor::cancel"]
    for f in pc:
        for bb, _ in calls(f, DRV_CANCEL):
            ctx.ob("R1", "cancel-first-cancel-only", guarded_by_bool(f, bb, r"ErasedKey::set_cancelled$", False) is not None,
                   "Proactor::cancel tells the driver only for the first cancellation", f)

    # ---------------- R2 io_uring
    if has_iour(db):
        ic = [f for f in db.fns.values() if f.name == "compio_driver::sys::driver::iour::Driver::cancel"]
        if not ic:
            ctx.missing("R2", "iour::Driver::cancel")
        for f in ic:
            ac = calls(f, r"^io_uring::opcode::AsyncCancel::new$")
            ctx.ob("R2", "iour-cancel-builds-AsyncCancel", len(ac) == 1, "the io_uring cancel is one AsyncCancel SQE", f)
            for bb, t in ac:
                ok = False
                for c in arg_origin_calls(f, t, 0):
                    if call_matches(c, r"ErasedKey::as_raw$") and 2 in arg_origin_args(f, c, 0):
                        ok = True
                ctx.ob("R2", "AsyncCancel-addresses-own-op", ok,
                       "AsyncCancel is addressed by as_raw() of the key being cancelled (not by fd, not ALL)", f)
                # no ALL/ANY flags builder
                ctx.ob("R2", "AsyncCancel-no-broad-flags", not calls(f, r"AsyncCancel2|CancelBuilder::(any|all)|AsyncCancel::flags"),
                       "no match-all / match-any cancel flags", f)
            ud = calls(f, r"^io_uring::squeue::Entry(128)?::user_data$")
            sent = set()
            for bb, t in ud:
                o = t["args"][1]
                if "v" in o:
                    sent.add(o["v"])
            ctx.ob("R2", "cancel-sqe-has-sentinel-user_data", len(sent) == 1,
                   "the cancel SQE's own user_data is a constant sentinel, not a key", f)
            # CQE consumers route the sentinel away from the key path
            for g in db.fns.values():
                if "::iour::" not in g.id:
                    continue
                udc = calls(g, r"^io_uring::cqueue::Entry(32)?::user_data$")
                if not udc:
                    continue
                evs = [bb for bb, _ in calls(g, r"ErasedKey::from_raw$|BorrowedKey::from_raw$|^compio_driver::sys::driver::iour::create_entry$|^compio_driver::Entry::notify$")]
                if not evs or not calls(g, r"CompletionQueue<.*> as core::iter::traits::iterator::Iterator>::next$"):
                    continue   # not a CQE loop (helpers converting one CQE are covered at their call site)
                ok = True
                found = False
                for cbb, ct_ in udc:
                    for sw in value_switches(g, ct_["dst"]["l"]):
                        if sw["kind"] != "int":
                            continue
                        found = True
                        if not sent.issubset(set(sw["targets"].keys())):
                            ok = False
                        for v in sent:
                            tb = sw["targets"].get(v)
                            if tb is None or tb == sw["otherwise"]:
                                ok = False
                        for e in evs:
                            if g.cfg.dominates(sw["bb"], e) and not g.cfg.edge_dominates(sw["bb"], sw["otherwise"], e):
                                # events after the ring is closed (Drop) are not CQE-derived
                                closes = [b2 for b2, t2 in calls(g, r"ManuallyDrop::<T>::drop$")]
                                if dominated_by_any(g, closes, e) is None:
                                    ok = False
                ctx.ob("R2", "cqe-loop-ignores-cancel-sentinel:" + g.name, found and ok,
                       "the completion of the cancel SQE itself is matched by its sentinel and never treated as a key", g)
        # R2b
        for f, bb, t in db.callers_of(SQ_PUSH):
            if not f.blocks[bb]["cl"]:
                sq_push_shape(ctx, "R2b", f, bb)

    # ---------------- R2 polling
    if has_poll(db):
        # by role: the FdQueue method that filters its queues
        rm = [f for f in db.fns.values() if f.self_adt == "compio_driver::sys::driver::poll::FdQueue" and calls(f, r"VecDeque::<.*>::retain$")]
        if not rm:
            ctx.missing("R2", "FdQueue::remove")
        for f in rm:
            rt = calls(f, r"VecDeque::<T, A>::retain$|VecDeque::<.*>::retain$")
            fields = set()
            for bb, t in rt:
                fields.update(x for x in receiver_field(f, t) if x.endswith("_queue"))
            ctx.ob("R2", "poll-remove-both-queues", fields == {"read_queue", "write_queue"},
                   "the cancelled key is removed from the read and the write queue of the descriptor", f)
            okc = True
            ncl = 0
            for cid in f.closures():
                c = db.fns.get(cid)
                if c is None:
                    continue
                ncl += 1
                if not calls(c, r"core::cmp::PartialEq::ne$|PartialEq.*::ne$"):
                    okc = False
            ctx.ob("R2", "poll-remove-by-key-identity", ncl >= 2 and okc,
                   "only entries equal to the cancelled key are removed (retain(|k| k != key)); neighbours stay queued", f)
        rm_ids = "|".join(re.escape(x.name) for x in rm) or "poll::FdQueue::remove"
        ro = [f for f in db.fns.values() if f.self_adt == "compio_driver::sys::driver::poll::Driver" and calls(f, "^(%s)$" % rm_ids)]
        ctx.floor("R2", "polling-driver functions removing a key from a descriptor queue", len(ro), 1)
        for f in ro:
            r1 = [bb for bb, _ in calls(f, "^(%s)$" % rm_ids)]
            r2 = [bb for bb, _ in calls(f, r"poll::Driver::renew$")]
            ev = [bb for bb, _ in calls(f, r"poll::FdQueue::event$")]
            ctx.ob("R2", "poll-remove-then-rearm", bool(r1) and bool(r2) and bool(ev) and f.cfg.dominates(r1[0], ev[0]) and f.cfg.dominates(ev[0], r2[0]),
                   "after removing the key the descriptor is re-armed for the operations that remain", f)
            ctx.ob("R2", "poll-remove-always-renews", bool(r1) and bool(r2) and all(any(f.cfg.postdominates(b, a) for b in r2) for a in r1),
                   "every path from the removal of the key to a return passes renew(): the poller registration is modified for "
                   "the remaining operations or deleted when none remains (a descriptor the driver forgot but the poller still "
                   "watches makes the next operation on it fail with EEXIST)", f)
        pcn = [f for f in db.fns.values() if f.name == "compio_driver::sys::driver::poll::Driver::cancel"]
        if not pcn:
            ctx.missing("R2", "poll::Driver::cancel")
        for f in pcn:
            sends = calls(f, r"^flume::Sender::<T>::send$")
            ctx.ob("R2", "poll-cancel-emits-entry", len(sends) == 1, "the polling cancel completes the op with a cancelled entry", f)
            for bb, t in sends:
                # guarded by a bool local that is set to true after the send
                ok = False
                for sbb, b in enumerate(f.blocks):
                    tt = b["t"]
                    if tt["k"] != "switch" or tt.get("oty") != "bool":
                        continue
                    if not f.cfg.dominates(sbb, bb):
                        continue
                    pl = op_place(tt["op"])
                    if pl is None:
                        continue
                    roots = set()
                    work = [pl["l"]]
                    seenl = set()
                    while work:
                        l = work.pop()
                        if l in seenl:
                            continue
                        seenl.add(l)
                        for d in f.cfg.defs.get(l, []):
                            if d[0] == "assign" and d[3]["r"]["k"] in ("use", "un"):
                                for p in rvalue_places(d[3]["r"]):
                                    work.append(p["l"])
                    for l in seenl:
                        ds = [d for d in f.cfg.defs.get(l, []) if d[0] == "assign" and d[3]["r"]["k"] == "use" and d[3]["r"]["ops"] and d[3]["r"]["ops"][0].get("k") in ("true", "false")]
                        vals = {d[3]["r"]["ops"][0]["k"]: d[1] for d in ds}
                        if "true" in vals and "false" in vals and f.cfg.dominates(bb, vals["true"]):
                            ok = True
                ctx.ob("R2", "poll-cancel-at-most-one-entry", ok,
                       "a multi-descriptor op produces at most one cancelled entry (`pushed` guard set after the send)", f)
            co = Summaries(db, r"poll::Driver::remove_one$", depth=2).event_blocks(f, "may")
            ctx.ob("R2", "poll-cancel-per-fd", bool(co), "every descriptor the op waits on is released (remove_one, directly or "
                   "through cancel_one)", f)
        nc = db.methods(self_adt=r"^compio_driver::Entry$", name="new_cancelled")
        ie = [f for f in db.fns.values() if f.name == "compio_driver::ErrorExt::is_cancelled::{closure#0}" or f.id.startswith("compio_driver::ErrorExt::is_cancelled")]
        v1 = set()
        for f in nc:
            for bb, t in calls(f, r"std::io::error::Error::from_raw_os_error$"):
                o = t["args"][0]
                if "v" in o:
                    v1.add(o["v"])
        v2 = set()
        for f in ie:
            for bi, si, s in f.stmts():
                for o in s.get("r", {}).get("ops", []):
                    if "v" in o and o.get("ty") == "i32":
                        v2.add(o["v"])
        ctx.ob("R2", "cancelled-error-constant-agrees", len(v1) == 1 and v1 <= v2,
               "the error the polling driver fabricates for a cancelled op is the one ErrorExt::is_cancelled tests "
               "(%s vs %s): a cancellation is reported as a cancellation, never as success" % (sorted(v1), sorted(v2)))

    # ---------------- R3
    c = db.adts.get("compio_driver::cancel::Cancel")
    if c is None:
        ctx.missing("R3", "struct Cancel")
    else:
        allad = [a for _, fl in db.adt_fields(c) for a in fl["adts"]]
        ctx.ob("R3", "Cancel-is-weak", "compio_driver::key::WeakKey" in allad and not any(
            x in ("compio_driver::key::ErasedKey", "compio_driver::key::Key", "thin_cell::unsync::ThinCell") for x in allad),
            "Cancel wraps a WeakKey only: a token never keeps an operation alive")
    wk = db.adts.get("compio_driver::key::WeakKey")
    if wk is None:
        ctx.missing("R3", "struct WeakKey")
    else:
        allad = [a for _, fl in db.adt_fields(wk) for a in fl["adts"]]
        ctx.ob("R3", "WeakKey-is-thin_cell-Weak", "thin_cell::unsync::Weak" in allad and "thin_cell::unsync::ThinCell" not in allad,
               "WeakKey is thin_cell's Weak pointer")

    # ---------------- R4
    if any(n.startswith("compio_runtime::") for n in db.adts):
        rg = [f for f in db.fns.values() if f.name == "compio_runtime::cancel::CancelToken::register"]
        if not rg:
            ctx.missing("R4", "CancelToken::register")
        for f in rg:
            pcs = [bb for bb, _ in calls(f, r"^compio_driver::Proactor::cancel$")]
            ins = [bb for bb, _ in calls(f, r"HashSet::<.*>::insert$")]
            ctx.ob("R4", "register-after-fire-cancels-now",
                   bool(pcs) and all(guarded_by_bool(f, bb, r"core::cell::Cell::<T>::get$", True) is not None for bb in pcs),
                   "registering with a token that already fired cancels the operation immediately", f)
            ctx.ob("R4", "register-records-token",
                   bool(ins) and all(guarded_by_bool(f, bb, r"core::cell::Cell::<T>::get$", False) is not None for bb in ins),
                   "otherwise the operation's token is recorded", f)
            esc = [r for r in f.cfg.returns if r in f.cfg.reach_from_block(0, avoid=set(pcs + ins))]
            ctx.ob("R4", "register-no-silent-path", not esc, "every path of register either cancels or records", f)
        cn = [f for f in db.fns.values() if f.name == "compio_runtime::cancel::CancelToken::cancel"]
        if not cn:
            ctx.missing("R4", "CancelToken::cancel")
        for f in cn:
            rp = calls(f, r"core::cell::Cell::<T>::replace$")
            cts = [bb for bb, _ in calls(f, r"^compio_driver::Proactor::cancel_token$")]
            tk = calls(f, r"^core::mem::take$")
            ctx.ob("R4", "cancel-fires-once",
                   len(rp) == 1 and bool(cts) and all(guarded_by_bool(f, bb, r"core::cell::Cell::<T>::replace$", False) is not None for bb in cts),
                   "the registry is drained only by the first cancel() (is_cancelled.replace(true) was false)", f)
            ok = False
            for bb in cts:
                src = arg_origin_calls(f, f.blocks[bb]["t"], 1)
                if any(call_matches(x, r"Iterator::next$|::next$") for x in src):
                    ok = True
            ctx.ob("R4", "cancel-cancels-every-token", ok and len(tk) >= 1 and any("tokens" in receiver_field(f, t) or True for _, t in tk),
                   "every recorded token is passed to Proactor::cancel_token (loop over the taken set)", f)
            nt = [bb for bb, _ in calls(f, r"Event::notify_all$|event::Event::notify")]
            ctx.ob("R4", "cancel-notifies-waiters", bool(nt) and f.cfg.postdominates(nt[0], 0), "waiters of the token are notified on every path", f)
        sms = [f for f in db.fns.values() if re.search(r"^<compio_runtime::future::(future::Submit<T(, .*)?>|stream::SubmitMulti<T>) as (core::future::future::Future>::poll|futures_core::stream::Stream>::poll_next)$", f.name)]
        ctx.floor("R4", "submit state machines", len(sms), 3)
        for f in sms:
            rgs = [bb for bb, _ in calls(f, r"^compio_runtime::cancel::CancelToken::register$")]
            sub = calls(f, r"^compio_runtime::future::submit_raw$")
            ok = bool(rgs) and bool(sub)
            for bb in rgs:
                if guarded_by_variant(f, bb, r"^compio_runtime::future::submit_raw$", 0) is None:
                    ok = False
                if guarded_by_variant(f, bb, r"ContextExt.*::get_cancel$|::get_cancel$", 1) is None:
                    ok = False
            ctx.ob("R4", "submit-registers-key:" + f.name, ok,
                   "a freshly submitted (pending) key is registered with the cancel token carried by the waker", f)

        # the token travels to the leaf futures inside the waker: with_cancel() must put *its* token into the Ext
        # handed down, and the submit futures read it back from there
        wcs = [f for f in db.fns.values() if f.id.startswith("compio_runtime::future::combinator::cancel::") and
               f.kind == "closure" and calls(f, r"Ext::<'.*>::with_cancel$|Ext.*::with_cancel$")]
        ctx.floor("R4", "with_cancel combinator bodies (Future + Stream)", len(wcs), 2)
        for f in wcs:
            wc = calls(f, r"Ext.*::with_cancel$")
            nw = calls(f, r"waker::ext::ExtWaker::<'a, 'b>::new$|ExtWaker.*::new$")
            pl = calls(f, r"ExtWaker.*::(poll|poll_next)$")
            ok = len(wc) == 1 and len(nw) == 1 and len(pl) == 1
            if ok:
                ok = any(call_matches(x, r"Ext.*::with_cancel$") for x in arg_origin_calls(f, nw[0][1], 1, follow_fields=True)) and \
                    f.cfg.dominates(nw[0][0], pl[0][0])
                # the token comes from the combinator's own `cancel` field (captured through the projection)
                from ..util import arg_origin_fields
                src = arg_origin_fields(f, wc[0][1], 1)
                ok = ok and any("cancel" in x for x in src)
            ctx.ob("R4", "with_cancel-attaches-own-token:" + db.root_fn(f).name, ok,
                   "WithCancel polls its inner future/stream with a waker whose Ext carries this combinator's token", f)
        gc = [f for f in db.fns.values() if f.impl and (f.impl.get("trait") or "").endswith("ContextExt") and f.short == "get_cancel"]
        for f in gc:
            ctx.ob("R4", "get_cancel-reads-ext", bool(calls(f, r"waker::ext::get_ext$|::get_ext$")) and bool(calls(f, r"Ext.*::get_cancel$")),
                   "the submit futures obtain the token from the waker's Ext", f)

        # ---------------- R5
        tp = [f for f in db.fns.values() if re.search(r"^<compio_runtime::time::future::Timeout<F> as core::future::future::Future>::poll$", f.name)]
        if not tp:
            ctx.missing("R5", "Timeout::poll")
        for f in tp:
            polls = calls(f, r"core::future::future::Future::poll$")
            inner = [bb for bb, t in polls if t["ga"] and t["ga"][0] == "F"]
            sleep = [bb for bb, t in polls if t["ga"] and "Sleep" in t["ga"][0]]
            ctx.ob("R5", "inner-before-sleep", len(inner) == 1 and len(sleep) == 1 and f.cfg.dominates(inner[0], sleep[0]),
                   "the inner future is polled before the deadline timer", f)
            if len(inner) == 1 and len(sleep) == 1:
                ctx.ob("R5", "sleep-only-if-inner-pending", guarded_by_variant(f, sleep[0], r"core::future::future::Future::poll$", 1) is not None or
                       _guard_variant_on(f, sleep[0], inner[0], 1),
                       "the deadline is consulted only when the inner future returned Pending", f)
                errs = [bi for bi, si, s in f.stmts() if s.get("r", {}).get("k") == "agg" and s["r"].get("adt") == "core::result::Result" and s["r"].get("var") == "Err"]
                ctx.ob("R5", "elapsed-only-after-sleep-ready",
                       bool(errs) and all(_guard_variant_on(f, e, sleep[0], 0) and _guard_variant_on(f, e, inner[0], 1) for e in errs),
                       "Elapsed is reported only when the timer fired and the inner future was pending (never instead of a result)", f)


def _guard_variant_on(f, event_bb, call_bb, variant):
    for (sbb, targets, ow) in discr_edges(f, call_bb):
        tgt = targets.get(str(variant))
        if tgt is None:
            # variant falls in `otherwise`
            if str(variant) not in targets and all(x != ow for x in targets.values()):
                tgt = ow
            else:
                continue
        if f.cfg.edge_dominates(sbb, tgt, event_bb):
            return True
    return False


def rules_all(ctx, db):
    rules(ctx, db)
    if ctx.tier == "thorough" and ctx.cfg == "A":
        from .. import witness
        witness.obligations(ctx, "C05")


def check(tier):
    return engine.run("C05", tier, rules_all, NOT_DECIDED, [])
