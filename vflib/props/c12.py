"""C12 — Blocking-style and poll-style adapters are lossless FIFO pipes (structural clauses)."""
import re

from .. import engine
from ..facts import call_matches, op_place, rvalue_places
from ..util import (Summaries, calls, dominated_by_any, postdominated_by_any, guarded_by_bool, guarded_by_variant,
                    arg_origin_calls, data_deps, arg_origin_fields)
from ..opcodes import fields_read

NOT_DECIDED = ("FIFO order and losslessness over all transfer schedules of the inner stream; the rules decide that every "
               "entry point's waker reaches the in-flight future, that the buffer is restored on every path, that flush "
               "advances by what was written, and that limits are tested before growth")

AS = "compio_io::compat::async_stream::"


def waker_fields(a):
    return [fl["name"] for v in a["variants"] for fl in v["fields"] if fl["ty"] == "core::option::Option<core::task::wake::Waker>"]


def proj_reads(db, f, names):
    """waker field names read by f (through the pin-project projection struct or the struct itself)."""
    out = set()
    for g in [f] + [db.fns[c] for c in f.closures() if c in db.fns]:
        for bi, si, s in g.stmts():
            if "a" not in s:
                continue
            for p in rvalue_places(s["r"]):
                for e in p["p"]:
                    if isinstance(e, list) and e[0] == "f" and e[2] in names:
                        out.add(e[2])
        for bb, t in g.calls():
            for a in t.get("args", []):
                p = op_place(a)
                if p:
                    for e in p["p"]:
                        if isinstance(e, list) and e[0] == "f" and e[2] in names:
                            out.add(e[2])
    return out


def rules(ctx, db):
    R = ctx.rule
    R("R1", "COVER", "each poll entry point stores its waker in its own slot before polling, and every waker slot of the "
      "adapter is handed to the in-flight future (so every task polling through any entry point is woken)")
    R("R2", "ORD+MPT", "the buffer lent to an I/O call is restored on every path (also on error); flush advances by exactly the "
      "written count, resets only when all is flushed, and reports WriteZero for a zero-length write")
    R("R3", "ORD", "size limits are tested before the buffer grows")

    if not any(n.startswith(AS) for n in db.adts):
        return
    adts = [a for a in db.adts.values() if a["name"].startswith(AS) and "::_::" not in a["name"] and len(waker_fields(a)) >= 2]
    ctx.floor("R1", "adapter halves with waker slots", len(adts), 2)
    for a in adts:
        names = set(waker_fields(a))
        fns = [f for f in db.fns.values() if f.impl and f.impl.get("self_adt") == a["name"]]
        arrs = [f for f in fns if Summaries(db, r"waker_array::WakerArrayRef::<'a, N>::new$|WakerArrayRef.*::new$", depth=0).may(f)]
        arrs = [f for f in fns if calls(f, r"WakerArrayRef.*::new$")]
        ctx.ob("R1", "has-future-driver:" + a["name"], len(arrs) >= 1, "the half has a function that polls the in-flight future with a waker set")
        for f in arrs:
            got = proj_reads(db, f, names)
            ctx.ob("R1", "all-wakers-handed-to-future:" + f.name, got == names,
                   "the waker set given to the in-flight future contains every waker slot of the half (%s); a missing slot "
                   "means the task that polled through that entry point is never woken" % sorted(names - got), f)
        entries = [f for f in fns if calls(f, r"async_stream::replace_waker$")]
        used = {}
        for f in entries:
            rw = calls(f, r"async_stream::replace_waker$")
            slot = set()
            for bb, t in rw:
                slot |= {x for x in arg_origin_fields(f, t, 0) if x in names}
                for ct in arg_origin_calls(f, t, 0, follow_fields=True):
                    pass
            # the slot is read through the projection: take fields read anywhere before the call
            if not slot:
                slot = proj_reads(db, f, names)
            used[f.name] = slot
            impl_calls = [bb for bb, t in f.calls() if re.search(r"::poll_\w+_impl$", t.get("fn") or "")]
            ctx.ob("R1", "stores-waker-before-polling:" + f.name, bool(rw) and bool(impl_calls) and all(f.cfg.dominates(rw[0][0], b) for b in impl_calls),
                   "the entry point records the caller's waker before it polls the shared in-flight future", f)
        ctx.ob("R1", "every-slot-has-an-entry-point:" + a["name"], set().union(*used.values()) == names if used else False,
               "each waker slot belongs to an entry point (slots %s)" % sorted(names))
        single = all(len(v) == 1 for v in used.values())
        distinct = len({next(iter(v)) for v in used.values() if v}) == len(used)
        ctx.ob("R1", "entry-points-use-distinct-slots:" + a["name"], single and distinct,
               "every entry point has its own slot (two entry points sharing one slot would overwrite each other's waker)")

    from ..util import waker_refresh_ok
    rw = [f for f in db.fns.values() if f.name == "compio_io::compat::async_stream::replace_waker" or
          (f.id.startswith(AS) and f.kind == "fn" and waker_refresh_ok(db, f)[0])]
    ctx.floor("R1", "waker-slot update helpers of the poll adapter", len(rw), 1)
    for f in rw:
        app, ok = waker_refresh_ok(db, f)
        ctx.ob("R1", "slot-refreshed-unless-will_wake:" + f.name, app and ok,
               "the entry point's waker slot is overwritten with the caller's waker unless the stored one will_wake it; "
               "keeping a stale waker because 'the slot is occupied' wakes the wrong task when the caller changed", f)

    # ---------------- R2
    B = r"^compio_io::buffer::Buffer$"
    for nm in ("with", "with_sync"):
        fs = db.methods(self_adt=B, name=nm, trait="")
        if not fs:
            ctx.missing("R2", "Buffer::" + nm)
        for f0 in fs:
            f = db.body_of(f0)
            tk = [bb for bb, _ in calls(f, r"buffer::Buffer::<B>::take_inner$")]
            rs = [bb for bb, _ in calls(f, r"buffer::Buffer::<B>::restore_inner$")]
            ok = len(tk) == 1 and len(rs) >= 1 and postdominated_by_any(f, rs, tk[0])
            ctx.ob("R2", "buffer-restored-on-every-path:" + nm, ok,
                   "after lending the buffer to the closure, every normal path puts it back before returning (the "
                   "closure's error is propagated only afterwards)", f)
    ft = db.methods(self_adt=B, name="flush_to", trait="")
    if not ft:
        ctx.missing("R2", "Buffer::flush_to")
    for f0 in ft:
        f = db.body_of(f0)
        adv = calls(f, r"buffer::Buffer::<B>::advance$")
        rst = [bb for bb, _ in calls(f, r"buffer::Buffer::<B>::reset$")]
        ok = len(adv) == 1
        if ok:
            p = op_place(adv[0][1]["args"][1])
            locs, cr, _ = data_deps(f, p["l"]) if p else (set(), [], [])
            ok = any(call_matches(ct, r"core::future::future::Future::poll$|Try.*::branch$") for _, ct in cr)
        if ok:
            # ... and by *that* count only: the argument must not be an accumulated sum
            accum = [st for bi, si, st in f.stmts() if st.get("r", {}).get("k") == "bin" and st["r"].get("x", "").startswith("Add") and st["a"]["l"] in locs]
            ok = not accum
        ctx.ob("R2", "advance-by-written", ok,
               "the progress cursor advances by exactly the count this write returned (not by a running total: the "
               "cursor is relative to what is still unsent)", f)
        ctx.ob("R2", "reset-only-when-all-flushed", bool(rst) and bool(adv) and all(guarded_by_bool(f, b, r"buffer::Buffer::<B>::advance$", True) is not None for b in rst),
               "the buffer is cleared only after advance() reported that everything was written (an error leaves the unsent tail)", f)
        wz = [bi for bi, si, s in f.stmts() for o in s.get("r", {}).get("ops", []) if "WriteZero" in o.get("k", "")] + \
             [bb for bb, t in f.calls() for a in t.get("args", []) if "WriteZero" in a.get("k", "")]
        wz += [bi for bi, si, s in f.stmts() if s.get("r", {}).get("k") == "agg" and s["r"].get("var") == "WriteZero"]
        ctx.ob("R2", "zero-write-is-an-error", bool(wz), "a zero-length write while data is pending yields WriteZero instead of spinning", f)
    # ---------------- R3
    frb = [f for f in db.fns.values() if f.id.startswith("compio_io::compat::sync_stream::") and "fill_read_buf" in f.id and calls(f, r"reserve_exact$")]
    ctx.floor("R3", "fill_read_buf growth site", len(frb), 1)
    for f in frb:
        rv = [bb for bb, _ in calls(f, r"reserve_exact$")]
        cmpb = []
        for bi, si, s in f.stmts():
            r = s.get("r", {})
            if r.get("k") == "bin" and r.get("x") in ("Ge", "Gt", "Le", "Lt"):
                for o in r["ops"]:
                    p = op_place(o)
                    if p is not None:
                        locs, cr, places = data_deps(f, p["l"])
                        if any(any(isinstance(e, list) and e[0] == "f" and e[2].endswith("max_buffer_size") for e in pl["p"]) for pl in places) or \
                                any(isinstance(e, list) and e[0] == "f" and e[2].endswith("max_buffer_size") for e in p["p"]):
                            cmpb.append(bi)
        ctx.ob("R3", "read-limit-before-growth", bool(cmpb) and all(any(f.cfg.dominates(c, b) for c in cmpb) for b in rv),
               "the read buffer's size limit is compared before reserve_exact grows it", f)
        ooms = [bb for bb, t in f.calls() for a in t.get("args", []) if "OutOfMemory" in a.get("k", "")] + \
               [bi for bi, si, s in f.stmts() if s.get("r", {}).get("var") == "OutOfMemory"]
        ctx.ob("R3", "read-limit-reported", bool(ooms), "exceeding the limit is reported as an error", f)
    wr = [f for f in db.fns.values() if f.id.startswith("compio_io::compat::sync_stream::") and "::write" in f.id and calls(f, r"extend_from_slice$")]
    ctx.floor("R3", "write buffer growth site", len(wr), 1)
    for f in wr:
        ex = [bb for bb, _ in calls(f, r"extend_from_slice$")]
        cmpb = []
        for bi, si, s in f.stmts():
            r = s.get("r", {})
            if r.get("k") == "bin" and r.get("x") in ("Ge", "Gt", "Le", "Lt"):
                for o in r["ops"]:
                    p = op_place(o)
                    if p is not None:
                        locs, cr, places = data_deps(f, p["l"])
                        if any(any(isinstance(e, list) and e[0] == "f" and e[2].endswith("max_buffer_size") for e in pl["p"]) for pl in places) or \
                                any(isinstance(e, list) and e[0] == "f" and e[2].endswith("max_buffer_size") for e in p["p"]):
                            cmpb.append(bi)
        ctx.ob("R3", "write-limit-before-growth", bool(cmpb) and all(any(f.cfg.dominates(c, b) for c in cmpb) for b in ex),
               "the write buffer's size limit is compared before bytes are appended", f)


def rule_read_side(ctx, db):
    R = ctx.rule
    R("R4", "same-value+GUARD", "blocking-style read side: what fill_buf hands out is the buffer's content (also after end-of-stream: "
      "buffered bytes are delivered before EOF is reported), WouldBlock needs both an empty buffer and no EOF; read / "
      "read_buf_uninit consume exactly the count they copied; the EOF flag is set only by a zero-length refill; a refill "
      "compacts first and appends at buf_len")
    SRB = "compio_io::compat::sync_stream::SyncReadBuf"
    if not any(f.self_adt == SRB for f in db.fns.values()):
        return
    def m(name):
        return [f for f in db.fns.values() if f.self_adt == SRB and f.short == name and f.kind not in ("closure", "coroutine")]
    fb = m("fill_buf")
    if not fb:
        ctx.missing("R4", "SyncReadBuf::fill_buf")
    for f in fb:
        from ..util import deep_deps
        oks = [(bi, st) for bi, si, st in f.stmts() if st.get("a") and st["a"]["l"] == 0 and st.get("r", {}).get("k") == "agg" and st["r"].get("var") == "Ok"]
        good = bool(oks)
        for bi, st in oks:
            pl = op_place(st["r"]["ops"][0]) if st["r"].get("ops") else None
            # the buffer's content: Buffer::buffer(), reached directly or through a private helper (available_read)
            if pl is None or not any(n.endswith("buffer::Buffer::<B>::buffer") for n in deep_deps(db, f, pl["l"])[0]):
                good = False
        ctx.ob("R4", "fill_buf-hands-out-the-buffer", good,
               "every Ok(..) of fill_buf is the slice obtained from available_read() — never a constant empty slice while bytes "
               "are still buffered", f)
        # (the WouldBlock that reports "the buffer is lent to an in-flight read" is a different one: it is decided by has_inner())
        wb = [bb for bb, _ in calls(f, r"sync_stream::would_block$") if guarded_by_bool(f, bb, r"Buffer::<B>::has_inner$", False) is None]
        def eof_switch(b):
            for bi, blk in enumerate(f.blocks):
                t = blk["t"]
                if t["k"] == "switch" and t.get("oty") == "bool":
                    sl = op_place(t["op"])
                    if sl is None:
                        continue
                    for d in f.cfg.defs.get(sl["l"], []):
                        if d[0] == "assign" and any(any(isinstance(e, list) and e[0] == "f" and e[2] == "eof" for e in pl["p"]) for pl in rvalue_places(d[3]["r"])):
                            f_t = dict(t["tg"]).get("0")
                            if f_t is not None and f.cfg.edge_dominates(bi, f_t, b):
                                return True
            return False
        ctx.ob("R4", "wouldblock-needs-empty-and-not-eof", bool(wb) and all(guarded_by_bool(f, b, r"slice::<impl \[T\]>::is_empty$", True) is not None and eof_switch(b) for b in wb),
               "WouldBlock is returned only when the buffer is empty and end-of-stream was not seen", f)
    for nm in ("read_buf_uninit", "read"):
        fam = [f for f in db.fns.values() if db.root_fn(f).self_adt == SRB and db.root_fn(f).short == nm]
        ok = False
        for f in fam:
            for bb, t in calls(f, r"SyncReadBuf::consume$"):
                pl = op_place(t["args"][1])
                if pl is None:
                    continue
                locs, cr, places = data_deps(f, pl["l"])
                if nm == "read_buf_uninit":
                    ok = ok or any(call_matches(ct, r"core::cmp::Ord::min$") for _, ct in cr)
                else:
                    # `.inspect(|n| self.consume(*n))` (closure argument) or `if let Ok(n) = slice.read(buf) { self.consume(n) }`
                    ok = ok or (f.kind == "closure" and 2 in locs) or any(call_matches(ct, r"std::io::Read::read$") for _, ct in cr)
        if not fam:
            ctx.missing("R4", "SyncReadBuf::" + nm)
        ctx.ob("R4", "consumes-the-copied-count:" + nm, ok,
               "the count taken off the buffer is the count copied to the caller", fam[0] if fam else None)
    frb = [f for f in db.fns.values() if f.kind == "coroutine" and db.root_fn(f).self_adt == SRB and db.root_fn(f).short == "fill_read_buf" and
           f.parent == db.root_fn(f).id]
    for f in frb:
        wr = [bi for bi, si, st in f.stmts() if st.get("a") and any(isinstance(e, list) and e[0] == "f" and e[2] == "eof" for e in st["a"]["p"])]
        okz = bool(wr)
        for b in wr:
            g = False
            for bi, blk in enumerate(f.blocks):
                t = blk["t"]
                if t["k"] == "switch" and t.get("oty") == "usize":
                    z = dict(t["tg"]).get("0")
                    if z is not None and f.cfg.edge_dominates(bi, z, b):
                        g = True
            for bi, si, st in f.stmts():
                r = st.get("r", {})
                if r.get("k") == "bin" and r.get("x") == "Eq" and any(str(o.get("v")) == "0" for o in r["ops"] if "k" in o):
                    from ..util import value_switches
                    for sw in value_switches(f, st["a"]["l"], through_calls=None):
                        tt = sw["otherwise"] if not sw["inverted"] else sw["targets"].get("0")
                        if tt is not None and f.cfg.edge_dominates(sw["bb"], tt, b):
                            g = True
            okz = okz and g
        ctx.ob("R4", "eof-set-only-by-a-zero-refill", okz, "the EOF flag is written only on the `read == 0` edge", f)
        cp = [bb for bb, _ in calls(f, r"Buffer::compact_to$")]
        wi = [bb for bb, _ in calls(f, r"Buffer::<B>::with$")]
        ctx.ob("R4", "refill-compacts-first", bool(cp) and bool(wi) and all(any(f.cfg.dominates(c, w) for c in cp) for w in wi),
               "unconsumed bytes are moved to the front before the buffer is lent to the inner read", f)
    fam = [f for f in db.fns.values() if db.root_fn(f).self_adt == SRB and db.root_fn(f).short == "fill_read_buf"]
    oka = False
    for f in fam:
        for bb, t in calls(f, r"IoBufExt::slice$"):
            pl = op_place(t["args"][1])
            if pl is not None and any(call_matches(ct, r"buf_len$") for _, ct in data_deps(f, pl["l"])[1]):
                oka = True
    if fam:
        ctx.ob("R4", "refill-appends-at-buf_len", oka, "the inner read gets the buffer sliced from its current length", fam[0])
    cs = m("consume")
    for f in cs:
        adv = [bb for bb, _ in calls(f, r"Buffer::<B>::advance$")]
        cp = [bb for bb, _ in calls(f, r"Buffer::compact_to$")]
        ctx.ob("R4", "consume-advances-then-compacts-when-done", bool(adv) and all(guarded_by_bool(f, b, r"Buffer::<B>::advance$", True) is not None for b in cp),
               "consume advances the cursor by the amount and compacts only when everything was consumed", f)


def rule_write_side(ctx, db):
    R = ctx.rule
    R("R5", "LOOP/MPT", "poll-style write half: a flush is complete only when no accepted byte is pending — after every completed "
      "flush future `has_pending_write()` is asked again before Ready(Ok) is reported (poll_flush) or the stream is shut down "
      "(poll_close); the blocking-style refill offers the inner read at most the room the limit leaves and at least one byte")
    AWS = "compio_io::compat::async_stream::AsyncWriteStream"
    def meth(name):
        return [f for f in db.fns.values() if f.impl and f.impl.get("self_adt") == AWS and f.short == name and (f.impl.get("trait") or "").endswith("AsyncWrite")]
    if not any(f.self_adt == AWS for f in db.fns.values()):
        return
    for nm in ("poll_flush", "poll_close"):
        fs = meth(nm)
        if not fs:
            ctx.missing("R5", "AsyncWriteStream::" + nm)
        for f in fs:
            fl = [bb for bb, _ in calls(f, r"AsyncWriteStream::<S>::poll_flush_impl$")]
            hp = set(bb for bb, _ in calls(f, r"has_pending_write$"))
            # edges that leave with an error of the flush are fine: targets of `is_err() == true` and of the `?` Break arm
            err_t = set()
            for cb, ct in calls(f, r"Result::<T, E>::is_err$"):
                from ..util import bool_edges
                for (_, tt, ft) in bool_edges(f, cb):
                    if tt is not None:
                        err_t.add(tt)
            for cb, ct in calls(f, r"Try::branch$"):
                from ..util import discr_edges
                for (sbb, targets, ow) in discr_edges(f, cb):
                    if "1" in targets:
                        err_t.add(targets["1"])
            if nm == "poll_flush":
                goal = set(f.cfg.returns)
                # Pending returns are fine too: exclude blocks that build Poll::Pending
                pend = {bi for bi, si, st in f.stmts() if st.get("r", {}).get("k") == "agg" and st["r"].get("var") == "Pending"}
            else:
                goal = set(bb for bb, _ in calls(f, r"AsyncWriteStream::<S>::poll_close_impl$")
                           if not any(f.cfg.dominates(bb, b2) for b2 in fl))  # the close issued after the flushing stage
                pend = set()
            ok = bool(fl) and bool(hp) and bool(goal)
            leak = False
            if ok:
                for b in fl:
                    # the Pending arm of `ready!` is not a completed flush: start from the Ready arm
                    starts = []
                    for (sbb, targets, ow) in __import__("vflib.util", fromlist=["discr_edges"]).discr_edges(f, b):
                        if "0" in targets:
                            starts.append(targets["0"])
                    starts = starts or list(f.cfg.succ[b])
                    for s0 in starts:
                        reach = f.cfg.reach_from_block(s0, avoid=hp | err_t | pend)
                        if reach & goal:
                            leak = True
            ctx.ob("R5", "flush-complete-only-when-nothing-pending:" + nm, ok and not leak,
                   "from a completed flush future every path to %s asks has_pending_write() again (bytes accepted while the old "
                   "flush future was still pending are flushed too)" % ("Ready(Ok)" if nm == "poll_flush" else "the shutdown"), f)
    # blocking-style refill: room offered to the inner read
    SRB = "compio_io::compat::sync_stream::SyncReadBuf"
    fam = [f for f in db.fns.values() if db.root_fn(f).self_adt == SRB and db.root_fn(f).short == "fill_read_buf"]
    okl, okm = False, False
    for f in fam:
        for bb, t in calls(f, r"IoBufExt::slice$"):
            pl = op_place(t["args"][1])
            if pl is None:
                continue
            locs, cr, places = data_deps(f, pl["l"])
            if any(any(isinstance(e, list) and e[0] == "f" and e[2].endswith("max_buffer_size") for e in q["p"]) for q in places):
                okl = True
        for bb, t in calls(f, r"reserve_exact$"):
            pl = op_place(t["args"][1])
            if pl is None:
                continue
            locs, cr, places = data_deps(f, pl["l"])
            for cb, ct in cr:
                if call_matches(ct, r"core::cmp::Ord::max$") and any(str(a.get("v")) == "1" for a in ct["args"] if "k" in a):
                    okm = True
    if fam:
        ctx.ob("R5", "refill-room-ends-at-the-limit", okl,
               "the slice lent to the inner read ends at max_buffer_size (the buffer can never hold more than the limit)", fam[0])
        ctx.ob("R5", "refill-room-at-least-one-byte", okm,
               "the refill makes room for max(base_capacity, 1) bytes: a zero-length read would be mistaken for end-of-stream", fam[0])


def rules_all(ctx, db):
    rules(ctx, db)
    rule_read_side(ctx, db)
    rule_write_side(ctx, db)


def check(tier):
    return engine.run("C12", tier, rules_all, NOT_DECIDED, [])
