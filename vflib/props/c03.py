"""C03 — A wake-up from any thread is never lost (protocol-shape clauses)."""
import re

from .. import engine
from ..facts import call_matches, op_place, rvalue_places
from ..util import (Summaries, calls, dominated_by_any, postdominated_by_any, guarded_by_bool, guarded_by_variant,
                    discr_edges, bool_edges, receiver_field, arg_origin_calls, data_deps, value_switches, flow_call)
from .c01 import has_iour, has_poll

NOT_DECIDED = ("the all-interleavings / weak-memory claim (model-checking territory), boundedness of the number of "
               "steps, back-pressure timing; the rules decide the shape of each protocol step")

ATOMIC = re.compile(r"^core::sync::atomic::Atomic\w*(::<.*>)?::(load|store|swap|fetch_\w+|compare_exchange\w*|compare_and_swap|fetch_update)$")
RMW = re.compile(r"::(swap|fetch_\w+|compare_exchange\w*|fetch_update)$")


def orderings(f, t):
    """names of the Ordering arguments of an atomic call (constants or Ordering::X{} aggregates)."""
    out = []
    for a in t["args"]:
        if "k" in a and "Ordering" in a.get("ty", ""):
            out.append(a["k"].rsplit("::", 1)[-1])
            continue
        p = op_place(a)
        if p is None or "Ordering" not in f.local_ty(p["l"]):
            continue
        for r in f.cfg.origins(p["l"]):
            if r[0] == "agg" and r[3]["r"].get("adt") == "core::sync::atomic::Ordering":
                out.append(r[3]["r"]["var"])
            elif r[0] == "const":
                for o in r[3].get("ops", []):
                    out.append(o.get("k", "?").rsplit("::", 1)[-1])
            else:
                out.append("?")
    return out


def atomic_calls(f):
    return [(bb, t) for bb, t in f.calls() if call_matches(t, ATOMIC)]


def single_atomic(ctx, rid, f, kind_rx, what):
    ac = atomic_calls(f)
    ok = len(ac) == 1 and call_matches(ac[0][1], kind_rx)
    ctx.ob(rid, "single-atomic-step:" + f.name, ok,
           "%s must be exactly one atomic %s (a load…store split would lose a concurrent wake); found %s" % (
               what, kind_rx, [t.get("fn", "").rsplit("::", 1)[-1] for _, t in ac]), f)


def rules(ctx, db):
    R = ctx.rule
    R("R1", "ATOM", "each step of the awake-flag and task-state protocols is a single atomic read-modify-write")
    R("R2", "ORD", "driver poll: reset the flag before the blocking wait, decide 'need to wait' from the reset result, "
      "mark awake after the wait")
    R("R3", "GUARD+MPT", "waker: the wake syscall is issued exactly when the flag says the driver may be asleep")
    R("R4", "PAIR+ORD", "Remote::schedule: the SCHEDULING critical section is closed exactly once on every path; the "
      "pending counter is reserved before the push; the runtime is woken after every successful push")
    R("R5", "ORD", "cross-thread wakes are drained on every tick and piggy-backed on local wakes, which also wake the driver")
    R("R6", "LOOP", "block_on / external drive loop: every cycle that waits on the driver also re-polls the main future and runs the tasks")
    R("R7", "ORD", "every io_uring function that resets the awake flag has armed the notifier poll (external-loop mode included)")
    R("R8", "ATOM", "orderings of the awake-flag / pending-counter atomics are at least the recorded floor")

    drv = any(f.id.startswith("compio_driver::sys::driver::") for f in db.fns.values())
    # ---------------- R1
    if drv:
        af = {m: db.methods(self_adt=r"^compio_driver::sys::driver::AwakeFlag$", name=m, trait="") for m in ("wake", "reset", "set")}
        for m, fs in af.items():
            if not fs:
                ctx.missing("R1", "AwakeFlag::" + m)
        for f in af["wake"]:
            single_atomic(ctx, "R1", f, r"::fetch_or$", "AwakeFlag::wake")
        for f in af["reset"]:
            single_atomic(ctx, "R1", f, r"::swap$", "AwakeFlag::reset")
        for f in af["set"]:
            single_atomic(ctx, "R1", f, r"::store$", "AwakeFlag::set")
        # R8 floors for the flag
        floors = {"wake": ("AcqRel", "SeqCst"), "reset": ("AcqRel", "SeqCst"), "set": ("Release", "SeqCst", "AcqRel")}
        for m, fs in af.items():
            for f in fs:
                for bb, t in atomic_calls(f):
                    ords = orderings(f, t)
                    ok = bool(ords) and all(o in floors[m] for o in ords)
                    ctx.ob("R8", "ordering-floor:AwakeFlag::" + m, ok,
                           "AwakeFlag::%s must use at least %s (found %s): the flag publishes 'a wake happened' to the "
                           "driver thread and 'the driver is asleep' to wakers" % (m, floors[m][0], ords), f)
    if any(f.id.startswith("compio_executor::") for f in db.fns.values()):
        for m, kind in (("start_scheduling", r"::fetch_or$"), ("finish_scheduling", r"::fetch_and$"), ("unschedule", r"::fetch_and$"),
                        ("set_cancelled", r"::fetch_and$"), ("finish_running", r"::fetch_or$"),
                        ("start_setting_waker", r"::fetch_and$"), ("finish_setting_waker", r"::fetch_or$"), ("set_dropped", r"::fetch_and$")):
            fs = db.methods(self_adt=r"^compio_executor::task::state::State$", name=m, trait="")
            if not fs:
                ctx.missing("R1", "State::" + m)
            for f in fs:
                single_atomic(ctx, "R1", f, kind, "State::" + m)

    # ---------------- R2 / R3 / R7 drivers
    if has_iour(db):
        pl = db.methods(self_adt=r"^compio_driver::sys::driver::iour::Driver$", name="poll", trait="")
        if not pl:
            ctx.missing("R2", "iour::Driver::poll")
        for f in pl:
            rs = calls(f, r"iour::notify::Notifier::reset$")
            wt = calls(f, r"iour::Driver::submit_auto$")
            # set_awake directly or through a helper (e.g. a "reap completions" helper)
            sa = Summaries(db, r"iour::notify::Notifier::set_awake$").event_blocks(f, "may")
            ok = len(rs) == 1 and len(wt) == 1 and f.cfg.dominates(rs[0][0], wt[0][0]) and bool(sa) and \
                all(f.cfg.dominates(wt[0][0], b) for b in sa)
            ctx.ob("R2", "iour-reset-wait-set", ok, "reset() ≺ submit-and-wait ≺ set_awake() in the io_uring poll", f)
            if rs and wt:
                locs, croots, _ = data_deps(f, op_place(wt[0][1]["args"][2])["l"]) if op_place(wt[0][1]["args"][2]) else (set(), [], [])
                ctx.ob("R2", "iour-need_wait-from-reset", any(call_matches(t, r"Notifier::reset$") for _, t in croots),
                       "whether the wait may block is computed from the reset() result (a wake that raced with the "
                       "previous iteration forces a non-blocking poll)", f)
            # after the CQEs were drained the flag is AWAKE again: in the function that drains (poll itself or
            # its helper) a set_awake follows poll_entries
            drains = [g for g in [f] + [x for x in db.succ_fns(f, expand_traits=False) if "::iour::" in x.id]
                      if calls(g, r"iour::Driver::poll_entries$")]
            okd = False
            for g in drains:
                pe = [bb for bb, _ in calls(g, r"iour::Driver::poll_entries$")]
                sa2 = [bb for bb, _ in calls(g, r"iour::notify::Notifier::set_awake$")]
                if pe and any(g.cfg.dominates(pe[0], b) and b != pe[0] for b in sa2):
                    okd = True
            ctx.ob("R2", "iour-set_awake-after-drain", okd,
                   "set_awake() is repeated after the CQEs were drained (the notifier CQE handler may have run)", f)
        # R2c: the awake mark is only (re)asserted on the poll path, after the wait
        _awake_sites(ctx, db, "iour", r"iour::notify::Notifier::set_awake$", r"iour::Driver::submit_auto$",
                     r"^compio_driver::sys::driver::iour::Driver::poll$")
        # R7
        arm = Summaries(db, r"^io_uring::opcode::PollAdd::new$")
        resetters = [f for f in db.fns.values() if "::iour::" in f.id and f.self_adt == "compio_driver::sys::driver::iour::Driver"
                     and calls(f, r"iour::notify::Notifier::reset$")]
        ctx.floor("R7", "io_uring driver functions that reset the awake flag", len(resetters), 2)
        for f in resetters:
            ev = arm.event_blocks(f, "may")
            # an arm that is conditional on "the notifier is not armed any more" counts at the flag test
            for cbb, ct in calls(f, r"DriverFlags>?::contains$"):
                if any(guarded_by_bool(f, e, r"DriverFlags>?::contains$", True) == cbb for e in ev):
                    ev = ev + [cbb]
            from .c02 import err_return_blocks
            errs = err_return_blocks(f)
            okall = True
            for bb, _ in calls(f, r"iour::notify::Notifier::reset$"):
                before = dominated_by_any(f, ev, bb) is not None
                after = not any(r in f.cfg.reach_set([bb], avoid=set(ev) | errs) for r in f.cfg.returns)
                if not (before or after):
                    okall = False
            ctx.ob("R7", "notifier-armed-when-flag-reset:" + f.name, okall,
                   "a function that resets the awake flag (after which wakers use the eventfd) must have armed the "
                   "multishot poll on that eventfd, otherwise a wake-up produces no completion and an external "
                   "event loop waiting on the ring fd sleeps forever", f)
        nt = db.methods(self_adt=r"^compio_driver::sys::driver::iour::notify::Notify$", name="wake_by_ref", trait=r"Wake$")
        if not nt:
            ctx.missing("R3", "iour Notify::wake_by_ref")
        for f in nt:
            _wake_shape(ctx, f, r"^rustix::io::read_write::write$|rustix::io::.*write$", "iour")
        # NEED_PUSH_NOTIFIER set again when the multishot poll ends
        pes = db.methods(self_adt=r"^compio_driver::sys::driver::iour::Driver$", name="poll_entries", trait="")
        for f in pes:
            ins = [bb for bb, t in calls(f, r"DriverFlags>?::insert$")]
            ctx.ob("R7", "rearm-when-multishot-poll-ends", bool(ins) and all(guarded_by_bool(f, bb, r"^io_uring::cqueue::more$", False) is not None for bb in ins),
                   "when the notifier's multishot poll terminates (no MORE flag) the driver records that it must be re-armed", f)
    if has_poll(db):
        pl = db.methods(self_adt=r"^compio_driver::sys::driver::poll::Driver$", name="poll", trait="")
        if not pl:
            ctx.missing("R2", "poll::Driver::poll")
        for f in pl:
            rs = calls(f, r"poll::Notify::reset$")
            wt = calls(f, r"^polling::Poller::wait$")
            sa = [bb for bb, _ in calls(f, r"poll::Notify::set_awake$")]
            ok = len(rs) == 1 and len(wt) == 1 and f.cfg.dominates(rs[0][0], wt[0][0]) and bool(sa) and \
                any(f.cfg.dominates(wt[0][0], b) for b in sa)
            ctx.ob("R2", "poll-reset-wait-set", ok, "reset() ≺ Poller::wait ≺ set_awake() in the polling driver", f)
            if rs:
                # a zero timeout is forced on an edge controlled by the reset result
                forced = False
                for sw in value_switches(f, rs[0][1]["dst"]["l"]):
                    for bi, si, s in f.stmts():
                        r = s.get("r", {})
                        if r.get("k") == "agg" and r.get("var") == "Some" and any("ZERO" in o.get("k", "") for o in r.get("ops", [])):
                            if f.cfg.dominates(sw["bb"], bi) and bi != sw["bb"]:
                                forced = True
                ctx.ob("R2", "poll-zero-timeout-when-notified", forced,
                       "when reset() reports a pending notification the wait uses a zero timeout", f)
        _awake_sites(ctx, db, "poll", r"poll::Notify::set_awake$", r"^polling::Poller::wait$",
                     r"^compio_driver::sys::driver::poll::Driver::poll$")
        nt = db.methods(self_adt=r"^compio_driver::sys::driver::poll::Notify$", name="wake_by_ref", trait=r"Wake$")
        if not nt:
            ctx.missing("R3", "poll Notify::wake_by_ref")
        for f in nt:
            _wake_shape(ctx, f, r"^polling::Poller::notify$", "poll")

    # ---------------- R4 / R5 executor
    if any(f.id.startswith("compio_executor::") for f in db.fns.values()):
        rs = db.methods(self_adt=r"^compio_executor::task::remote::Remote$", name="schedule", trait="")
        if not rs:
            ctx.missing("R4", "Remote::schedule")
        for f in rs:
            st = [bb for bb, _ in calls(f, r"State::start_scheduling$")]
            fin = [bb for bb, _ in calls(f, r"State::finish_scheduling$")]
            ctx.ob("R4", "scheduling-section-opened-once", len(st) == 1 and f.cfg.dominates(st[0], fin[0]) if fin else False,
                   "start_scheduling opens the critical section once", f)
            if st and fin:
                esc = [r for r in f.cfg.returns if r in f.cfg.reach_set(st, avoid=set(fin))]
                ctx.ob("R4", "scheduling-section-closed-on-every-path", not esc,
                       "every path after start_scheduling reaches finish_scheduling (teardown waits for the bit to clear)", f)
                twice = [a for a in fin if any(b in f.cfg.reach_set([a]) for b in fin)]
                ctx.ob("R4", "scheduling-section-closed-once", not twice, "finish_scheduling runs at most once per path", f)
            push = [(bb, t) for bb, t in calls(f, r"crossbeam_queue::array_queue::ArrayQueue::<T>::push$")]
            fa = [bb for bb, t in calls(f, r"::fetch_add$") if "pending" in receiver_field(f, t)]
            ctx.ob("R4", "pending-reserved-before-push", len(push) == 1 and bool(fa) and f.cfg.dominates(fa[0], push[0][0]),
                   "the pending counter is incremented before the id becomes visible in the queue (drain's fast path "
                   "reads it)", f)
            if push:
                pbb = push[0][0]
                # success edge of the push: discriminant Ok(0) of its result / is_err()==false
                succ_targets = []
                for (sbb, tt, ft) in bool_edges_of_is_err(f, pbb):
                    succ_targets.append((sbb, ft))
                for (sbb, targets, ow) in discr_edges(f, pbb):
                    if "0" in targets:
                        succ_targets.append((sbb, targets["0"]))
                wk = [bb for bb, t in calls(f, r"^core::task::wake::Waker::wake_by_ref$")]
                ok = bool(succ_targets) and bool(wk)
                why = ""
                for sbb, tgt in succ_targets:
                    # exits reachable from the success edge without passing a wake (and without pushing again)
                    reach = f.cfg.reach_from_block(tgt, avoid=set(wk) | {pbb})
                    bad_rets = [r for r in f.cfg.returns if r in reach]
                    if bad_rets:
                        # allowed only if the path went through the `shared.waker == None` edge
                        none_ok = _only_via_no_waker(f, tgt, wk, pbb, bad_rets)
                        if not none_ok:
                            ok = False
                            why = " (a path from the successful push returns without waking the runtime)"
                ctx.ob("R4", "wake-after-successful-push", ok,
                       "after the id was queued the runtime is woken on every path (a wake issued while the queue was "
                       "full precedes the push and may already have been consumed)" + why, f)
            # push-less exits are the scheduled/completed/cancelled/no-executor ones
            if st and push:
                early = [r for r in f.cfg.returns if r in f.cfg.reach_set(st, avoid={push[0][0]})]
                guards = calls(f, r"Snapshot::(is_scheduled|is_completed|is_cancelled)$") + calls(f, r"as_ref$")
                ctx.ob("R4", "push-less-exits-are-guarded", not early or len(guards) >= 3,
                       "schedule returns without queueing only when the task is already scheduled / completed / "
                       "cancelled or the executor is gone", f)
        # the pending counter is shared between wakers and the drain: only RMW updates keep concurrent
        # reservations intact
        pend_ops = []
        for g in db.fns.values():
            if not g.id.startswith("compio_executor::"):
                continue
            for bb, t in atomic_calls(g):
                if "pending" in receiver_field(g, t):
                    pend_ops.append((g, bb, t))
        ctx.floor("R4", "atomic operations on Shared::pending", len(pend_ops), 4)
        for g, bb, t in pend_ops:
            kind = t["fn"].rsplit("::", 1)[-1]
            ctx.ob("R4", "pending-updated-by-RMW-only:%s/%s" % (db.root_fn(g).name, kind), kind in ("load", "fetch_add", "fetch_sub"),
                   "Shared::pending is touched only by load / fetch_add / fetch_sub: a plain store (e.g. resetting it to 0 "
                   "after a drain) erases the reservation of a waker that has incremented but not yet pushed, after which "
                   "the drain's fast path never looks at the queue again", g)
        for f in ds_fns(db):
            subs = [(bb, t) for bb, t in atomic_calls(f) if call_matches(t, r"::fetch_sub$") and "pending" in receiver_field(f, t)]
            okc = False
            for bb, t in subs:
                # the amount subtracted is the number of ids actually popped (a counter incremented in the pop loop)
                p = op_place(t["args"][1])
                if p is not None:
                    locs, cr, places = data_deps(f, p["l"])
                    pops = [b for b, _ in calls(f, r"ArrayQueue::<T>::pop$")]
                    incs = [bi for bi, si, s in f.stmts() if s.get("r", {}).get("k") == "bin" and s["r"].get("x", "").startswith("Add") and s["a"]["l"] in locs]
                    if pops and any(f.cfg.dominates(pops[0], b) for b in incs):
                        okc = True
            ctx.ob("R4", "pending-released-by-popped-count", okc,
                   "drain_sync subtracts exactly the number of ids it popped", f)
        tk = db.methods(self_adt=r"^compio_executor::Executor$", name="tick", trait="")
        if not tk:
            ctx.missing("R5", "Executor::tick")
        for f in tk:
            dr = [bb for bb, _ in calls(f, r"compio_executor::Shared::drain_sync$")]
            it = [bb for bb, _ in calls(f, r"TaskQueue::iter_hot$")]
            ctx.ob("R5", "tick-drains-first", bool(dr) and bool(it) and f.cfg.dominates(dr[0], it[0]) and f.cfg.postdominates(dr[0], 0),
                   "every tick moves the cross-thread wakes into the run queue before running tasks", f)
        ls = db.methods(self_adt=r"^compio_executor::task::local::Local$", name="schedule", trait="")
        if not ls:
            ctx.missing("R5", "Local::schedule")
        for f in ls:
            dr = [bb for bb, _ in calls(f, r"compio_executor::Shared::drain_sync$")]
            mh = [bb for bb, _ in calls(f, r"TaskQueue::make_hot$")]
            wk = [bb for bb, _ in calls(f, r"^core::task::wake::Waker::wake_by_ref$")]
            ctx.ob("R5", "local-wake-drains-and-wakes-driver", bool(dr) and bool(mh) and bool(wk) and f.cfg.dominates(mh[0], wk[0]),
                   "a same-thread wake piggy-backs the cross-thread drain, marks the task hot and wakes the driver", f)
        ds = db.methods(self_adt=r"^compio_executor::Shared$", name="drain_sync", trait="")
        for f in ds:
            pops = [bb for bb, _ in calls(f, r"ArrayQueue::<T>::pop$")]
            mh = [bb for bb, _ in calls(f, r"TaskQueue::make_hot$")]
            ctx.ob("R5", "drain-marks-every-popped-id-hot", bool(pops) and bool(mh) and f.cfg.dominates(pops[0], mh[0]) and pops[0] in f.cfg.reach_set([mh[0]]),
                   "drain_sync loops: every id popped from the cross-thread queue is made runnable", f)
            ld = [(bb, t) for bb, t in calls(f, r"::load$") if "pending" in receiver_field(f, t)]
            for bb, t in ld:
                ords = orderings(f, t)
                ctx.ob("R8", "ordering-floor:pending.load", all(o in ("Acquire", "SeqCst") for o in ords) and bool(ords),
                       "the fast-path load of `pending` must be Acquire (pairs with the Release increment of the waker)", f)
        for f in rs:
            for bb, t in calls(f, r"::fetch_add$"):
                if "pending" in receiver_field(f, t):
                    ords = orderings(f, t)
                    ctx.ob("R8", "ordering-floor:pending.fetch_add", all(o in ("Release", "AcqRel", "SeqCst") for o in ords) and bool(ords),
                           "the reservation must be at least Release", f)

    # ---------------- R6 loops
    if any(f.id.startswith("compio_runtime::") for f in db.fns.values()):
        bo = [f for f in db.fns.values() if f.id.startswith("compio_runtime::") and "block_on_at" in f.id and
              calls(f, r"^compio_runtime::runtime::Runtime::poll(_with)?$|^compio_runtime::Runtime::poll(_with)?$")]
        ctx.floor("R6", "block_on loop bodies", len(bo), 1)
        for f in bo:
            _loop_shape(ctx, f, r"Runtime::poll(_with)?$", "block_on")
    if any(f.id.startswith("compio_compat::") for f in db.fns.values()):
        dv = [f for f in db.fns.values() if f.id.startswith("compio_compat::") and calls(f, r"Runtime::flush$")]
        ctx.floor("R6", "external drive loop bodies", len(dv), 1)
        for f in dv:
            _loop_shape(ctx, f, r"Runtime::flush$", "drive")
            fl = [bb for bb, _ in calls(f, r"Runtime::flush$")]
            wt = [bb for bb, _ in calls(f, r"::wait$")]
            ctx.ob("R6", "drive-flush-before-wait", bool(fl) and bool(wt) and f.cfg.dominates(fl[0], wt[0]),
                   "the external loop flushes (submits + resets the awake flag) before it waits on the driver fd", f)
            # remaining_tasks |= flush(): the 'already notified' answer shortens the wait
            locs = set()
            if wt:
                t = f.blocks[wt[0]]["t"]
                for a in t["args"][1:]:
                    p = op_place(a)
                    if p:
                        l, cr, _ = data_deps(f, p["l"])
                        locs |= {id(x) for x in cr}
                        ok = any(call_matches(ct, r"Runtime::current_timeout$") for _, ct in cr)
                        ctx.ob("R6", "drive-wait-uses-runtime-timeout", ok,
                               "the wait timeout comes from the runtime's nearest deadline (or zero)", f)


def _awake_sites(ctx, db, tag, set_rx, wait_rx, poll_name_rx):
    """Every site that marks the driver awake (directly or through a helper) lies on the poll path after
    the blocking wait. Marking awake elsewhere overwrites a NOTIFIED bit set by a wake that was issued
    while the driver was running, i.e. it swallows that wake-up."""
    direct = [(f, bb) for f, bb, t in db.callers_of(set_rx) if not f.blocks[bb]["cl"] and "::driver::%s::" % tag in f.id]
    ctx.floor("R2", "%s set_awake sites" % tag, len(direct), 1)
    checked = set()
    work = list(direct)
    n = 0
    while work and n < 50:
        f, bb = work.pop()
        n += 1
        key = (f.id, bb)
        if key in checked:
            continue
        checked.add(key)
        root = db.root_fn(f)
        if re.search(poll_name_rx, root.name):
            # closures inside poll (with_events(|..| ..)) count as part of poll
            if f is root:
                waits = [b for b, _ in calls(f, wait_rx)]
                ctx.ob("R2", "%s-awake-mark-after-wait:%s" % (tag, f.name), dominated_by_any(f, waits, bb) is not None,
                       "set_awake (overwriting NOTIFIED) is dominated by the blocking wait of this poll", f)
            continue
        if f.short == "set_awake":
            # the wrapper on the notifier type itself
            for g, b2 in db.callers().get(f.id, []):
                if not g.blocks[b2]["cl"]:
                    work.append((g, b2))
            continue
        # a helper: every caller must be the poll path
        sites = [(g, b2) for g, b2 in db.callers().get(f.id, []) if not g.blocks[b2]["cl"]]
        if not sites:
            ctx.ob("R2", "%s-awake-mark-only-in-poll:%s" % (tag, f.name), False,
                   "the driver is marked awake outside its poll path (a wake-up issued meanwhile is swallowed)", f)
        for g, b2 in sites:
            groot = db.root_fn(g)
            if re.search(poll_name_rx, groot.name):
                waits = [b for b, _ in calls(groot, wait_rx)]
                where = b2 if g is groot else None
                ok = True
                if where is not None:
                    ok = dominated_by_any(groot, waits, where) is not None
                ctx.ob("R2", "%s-awake-mark-after-wait:%s<-%s" % (tag, f.name, g.name), ok,
                       "the helper that marks the driver awake is called after the blocking wait", g)
            else:
                ctx.ob("R2", "%s-awake-mark-only-in-poll:%s<-%s" % (tag, f.name, g.name), False,
                       "`%s` marks the driver awake (overwriting a pending NOTIFIED) and is called from `%s`, which is "
                       "not the poll path: a wake-up issued while completions are drained there is swallowed and the "
                       "next poll blocks" % (f.name, g.name), g)


def ds_fns(db):
    return db.methods(self_adt=r"^compio_executor::Shared$", name="drain_sync", trait="")


def bool_edges_of_is_err(f, pbb):
    """edges of switches on `push(..).is_err()`: returns (switch_bb, true_target, false_target)."""
    t = f.blocks[pbb]["t"]
    dst = t["dst"]["l"]
    out = []
    for bb, t2 in calls(f, r"core::result::Result::<T, E>::is_err$"):
        p = op_place(t2["args"][0])
        if p is None:
            continue
        roots = f.cfg.origins(p["l"], through_calls=flow_call)
        if any(r[0] == "call" and r[1] == pbb for r in roots) or p["l"] == dst:
            from ..util import bool_edges
            out.extend(bool_edges(f, bb))
    return out


def _only_via_no_waker(f, start, wakes, pbb, bad_rets):
    """True if every wake-less path from `start` to a return passes the None edge of a switch on the
    discriminant of the `waker` field (no driver waker configured)."""
    cfg = f.cfg
    none_targets = set()
    for bi, b in enumerate(f.blocks):
        t = b["t"]
        if t["k"] != "switch":
            continue
        p = op_place(t["op"])
        if p is None:
            continue
        # scrutinee = discr(place with field waker)
        for d in cfg.defs.get(p["l"], []):
            if d[0] == "assign" and d[3]["r"]["k"] == "discr":
                pl = d[3]["r"]["pl"]
                if any(isinstance(e, list) and e[0] == "f" and e[2] == "waker" for e in pl["p"]):
                    tg = dict(t["tg"])
                    # Option: 0 = None, 1 = Some
                    if "1" in tg:
                        none_targets.add((bi, t["ow"] if "0" not in tg else tg["0"]))
                    elif "0" in tg:
                        none_targets.add((bi, tg["0"]))
    if not none_targets:
        return False
    # remove the None edges and see whether a return is still reachable without a wake
    avoid = set(wakes) | {pbb}
    seen = set()
    work = [start]
    while work:
        x = work.pop()
        if x in seen or x in avoid:
            continue
        seen.add(x)
        for y in cfg.succ[x]:
            if (x, y) in none_targets:
                continue
            work.append(y)
    return not any(r in seen for r in cfg.returns)


def _wake_shape(ctx, f, syscall_rx, tag):
    sc = [bb for bb, _ in calls(f, syscall_rx)]
    ctx.ob("R3", tag + "-wake-syscall-iff-asleep",
           len(sc) == 1 and guarded_by_bool(f, sc[0], r"AwakeFlag::wake$", False) is not None,
           "the wake syscall is issued only when AwakeFlag::wake() returned false (driver idle, first notifier)", f)
    if sc:
        ok = False
        for cbb, _ in calls(f, r"AwakeFlag::wake$"):
            from ..util import bool_edges
            for (sbb, tt, ft) in bool_edges(f, cbb):
                reach = f.cfg.reach_from_block(ft, avoid=set(sc))
                if not any(r in reach for r in f.cfg.returns):
                    ok = True
        ctx.ob("R3", tag + "-wake-syscall-always-when-asleep", ok,
               "and on that edge the syscall is always issued", f)


def _loop_shape(ctx, f, wait_rx, tag):
    cfg = f.cfg
    waits = [bb for bb, _ in calls(f, wait_rx)]
    fp = [bb for bb, t in calls(f, r"core::future::future::Future::poll$")]
    rn = [bb for bb, _ in calls(f, r"Runtime::run$")] + [bb for bb, _ in calls(f, r"Runtime::enter$")]
    ok = bool(waits) and bool(fp) and bool(rn)
    for w in waits:
        if w in cfg.reach_set([w]):   # in a cycle
            if w in cfg.reach_set([w], avoid=set(fp)):
                ok = False
            if w in cfg.reach_set([w], avoid=set(rn)):
                ok = False
        else:
            ok = False
    ctx.ob("R6", tag + "-cycle-repolls-main-and-runs-tasks", ok,
           "every loop iteration that waits on the driver also polls the main future and runs the scheduled tasks", f)


def check(tier):
    return engine.run("C03", tier, rules, NOT_DECIDED, [])
