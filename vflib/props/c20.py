"""C20 — Child processes: complete stdio and the real exit status (instances of the generic rules)."""
import re

from .. import engine
from .. import opcodes as oc
from ..facts import call_matches, op_place
from ..util import (Summaries, calls, dominated_by_any, guarded_by_variant, data_deps, arg_origin_calls)

NOT_DECIDED = ("completeness of stdio under back-pressure, interleaving of both directions, the exit status value "
               "itself; the rules decide that child pipes are owned by their operations, that reads record the returned "
               "length, that the wait runs to completion on the pool (or after pidfd readiness) and its result is not dropped, "
               "and that wait_with_output drives the wait and both drains together")

CP = "compio_process::"


def rules(ctx, db):
    R = ctx.rule
    R("R1", "TYPE", "every pipe operation of compio-process owns a SharedFd clone of the child's pipe (C06-R1 instances)")
    R("R2", "ADV", "stdout / stderr reads record the returned byte count on the buffer (C08-R3 instances)")
    R("R3", "ORD", "wait: the blocking wait runs on the pool and its JoinHandle result is resumed, not dropped; the pidfd path "
      "checks the readiness result, takes the fd back, then reaps")
    R("R4", "MPT", "wait_with_output awaits the exit status and both drains in one join, and propagates each of the three results")

    if not any(f.id.startswith(CP) for f in db.fns.values()):
        return
    n = 0
    for f, bb, t, adt in oc.op_ctor_calls(db, r"^compio_process::"):
        callee = db.fns.get(t.get("rfnid") or t.get("fnid"))
        gen = callee.rec.get("generics", []) if callee else []
        fdp = set()
        for imp in db.impls:
            if imp["info"].get("self_adt") == adt and imp["info"].get("trait") in (oc.IOUR_OP, oc.POLL_OP):
                for p in imp["info"]["preds"]:
                    mm = re.match(r"^(\w+): std::os::fd::owned::AsFd$", p)
                    if mm:
                        fdp.add(mm.group(1))
        for i, g in enumerate(gen):
            if g in fdp and i < len(t["ga"]):
                n += 1
                ctx.ob("R1", "owns-pipe:%s@%s" % (oc.short(adt), db.root_fn(f).name), t["ga"][i].startswith("compio_driver::fd::SharedFd<"),
                       "the op holds a SharedFd clone of the child's pipe (`%s`)" % t["ga"][i], f)
    ctx.floor("R1", "pipe op constructions in compio-process", n, 5)
    n2 = oc.rule_adv(ctx, db, "R2", want_socket=False, crate_rx=r"^compio_process::")
    ctx.floor("R2", "read-direction submissions in compio-process", n2, 4)
    cw = [f for f in db.fns.values() if f.id.startswith(CP) and "child_wait" in f.id and f.kind == "coroutine"]
    ctx.floor("R3", "child_wait bodies", len(cw), 1)
    for f in cw:
        sb = calls(f, r"compio_runtime::.*spawn_blocking(_at)?$")
        if sb:
            ru = [bb for bb, t in calls(f, r"ResumeUnwind::resume_unwind$")]
            pl = [bb for bb, t in calls(f, r"core::future::future::Future::poll$")]
            ok = bool(ru) and bool(pl) and f.cfg.dominates(sb[0][0], pl[0]) and f.cfg.dominates(pl[0], ru[0])
            ctx.ob("R3", "blocking-wait-awaited-and-resumed:" + f.name, ok,
                   "the pool job calling Child::wait is awaited and its (panic) result resumed — the status is neither "
                   "dropped nor fabricated", f)
            # the closure handed to the pool calls Child::wait
            wsum = Summaries(db, r"^std::process::Child::wait$")
            ctx.ob("R3", "pool-job-reaps-child:" + f.name, any(wsum.may(db.fns[c]) for c in f.closures() if c in db.fns),
                   "the job run on the pool is Child::wait (blocks until the child has exited)", f)
        if calls(f, r"PollOnce::<S>::new$"):
            po = [bb for bb, t in calls(f, r"PollOnce::<S>::new$")]
            tk = [bb for bb, t in calls(f, r"SharedFd::<T>::take$")]
            wt = [bb for bb, t in calls(f, r"^std::process::Child::wait$")]
            br = [bb for bb, t in calls(f, r"Try>::branch$|::branch$")]
            ok = bool(po) and bool(tk) and bool(wt) and f.cfg.dominates(po[0], tk[0]) and f.cfg.dominates(tk[0], wt[0]) and \
                any(f.cfg.dominates(po[0], b) and f.cfg.dominates(b, tk[0]) for b in br)
            ctx.ob("R3", "pidfd-readiness-then-reap:" + f.name, ok,
                   "pidfd path: the readiness op's result is checked (`?`), the fd is taken back, and only then the child is reaped", f)
    wo = [f for f in db.fns.values() if f.id.startswith(CP) and "wait_with_output" in f.id and f.kind == "coroutine"]
    ctx.floor("R4", "wait_with_output body", len(wo), 1)
    for f in wo:
        j3 = calls(f, r"futures_util::future::join::join3$|join3$")
        cwc = calls(f, r"child_wait$")
        rte = calls(f, r"read_to_end$")
        brs = calls(f, r"::branch$")
        ctx.ob("R4", "status-and-drains-joined", bool(j3) and bool(cwc) and len(rte) >= 2,
               "the exit status and both output drains are driven together (waiting first could block a child that fills its pipes)", f)
        ctx.ob("R4", "all-three-results-propagated", len(brs) >= 3, "status, stdout and stderr errors are each propagated", f)


def rule_stdio_setup(ctx, db):
    from ..util import receiver_field
    R = ctx.rule
    R("R5", "ORD", "wait / wait_with_output release the child's stdin before they wait (a child reading its input to end-of-file "
      "can exit); Command::output pipes stdout and stderr before it spawns (there is something to collect)")
    if not any(f.id.startswith(CP) for f in db.fns.values()):
        return
    for nm in ("wait", "wait_with_output"):
        fam = [f for f in db.fns.values() if f.kind == "coroutine" and db.root_fn(f).name == "compio_process::Child::" + nm]
        if not fam:
            ctx.missing("R5", "Child::" + nm)
        for f in fam:
            cw = [bb for bb, _ in calls(f, r"child_wait$")]
            # the stdin handle leaves the Child: Option::take on the field (then dropped), or a drop of the field itself
            tk = [bb for bb, t in calls(f, r"core::option::Option::<T>::take$") if any("stdin" in x for x in receiver_field(f, t))]
            dp = []
            for bi, b in enumerate(f.blocks):
                t = b["t"]
                if t["k"] == "drop" and any(isinstance(e, list) and e[0] == "f" and e[2] == "stdin" for e in (t.get("pl") or {}).get("p", [])):
                    dp.append(bi)
            rel = tk + dp
            ctx.ob("R5", "stdin-released-before-the-wait:" + nm, bool(cw) and bool(rel) and all(any(f.cfg.dominates(r, c) for r in rel) for c in cw),
                   "the child's stdin handle is taken out of the Child and dropped before child_wait is started", f)
    out = [f for f in db.fns.values() if f.kind == "coroutine" and db.root_fn(f).name == "compio_process::Command::output"]
    if not out:
        ctx.missing("R5", "Command::output")
    for f in out:
        sp = [bb for bb, _ in calls(f, r"compio_process::Command::spawn$")]
        so = [bb for bb, _ in calls(f, r"std::process::Command::stdout$")]
        se = [bb for bb, _ in calls(f, r"std::process::Command::stderr$")]
        pp = calls(f, r"std::process::Stdio::piped$")
        ctx.ob("R5", "output-pipes-stdout-and-stderr", bool(sp) and bool(so) and bool(se) and len(pp) >= 2 and
               all(any(f.cfg.dominates(a, c) for a in so) and any(f.cfg.dominates(a, c) for a in se) for c in sp),
               "stdout and stderr are set to Stdio::piped() before the child is spawned", f)


def rules_all(ctx, db):
    rules(ctx, db)
    rule_stdio_setup(ctx, db)


def check(tier):
    return engine.run("C20", tier, rules_all, NOT_DECIDED, [])
