"""C06 — Descriptors are closed exactly once, never in use, never leaked (structural clauses)."""
import re

from .. import engine
from .. import opcodes as oc
from ..facts import call_matches, op_place, rvalue_places
from ..util import (Summaries, calls, dominated_by_any, guarded_by_bool, guarded_by_variant, discr_edges,
                    receiver_field, arg_origin_calls, data_deps)
from .c01 import has_iour, has_poll

NOT_DECIDED = ("liveness of close().await under every release order (needs the internals of the shared-pointer crate; "
               "a suspected lost wake-up of the closer when two handles are dropped concurrently in `sync` mode is "
               "noted in DESIGN.md, not armed), leak-freedom at cancel/complete races beyond 'set_result adopts the fd'")

BORROWED = re.compile(r"^&|BorrowedFd|^i32$|RawFd|^\*")


def rules(ctx, db):
    R = ctx.rule
    R("R1", "TYPE", "every driver op constructed outside the driver owns its descriptor (SharedFd clone, CurrentDir or an "
      "owned 'static value) — never a borrowed or raw descriptor")
    R("R2", "ORD", "an explicit close (file, socket, pidfd wait) acts only on the value obtained from SharedFd::take().await "
      "(i.e. after every other handle and operation has let go)")
    R("R3", "ORD+GUARD", "SharedFd::take: try_unwrap, register the waker, try_unwrap again, only then Pending; one closer at "
      "a time; the last-but-one drop wakes the waiting closer")
    R("R4", "COVER", "descriptors created by an operation are adopted into an owning field by every backend, in set_result "
      "for io_uring (so also when nobody awaits the result any more)")
    R("R5", "TYPE/ADT", "the close ops hold the descriptor in ManuallyDrop<OwnedFd> and close it in exactly one place per backend")

    have_fs = any(n.startswith("compio_fs::") for n in db.adts)
    if have_fs:
        n = 0
        for f, bb, t, adt in oc.op_ctor_calls(db, r"^compio_(fs|net|runtime|process|quic|term|signal|dispatcher)::"):
            callee = db.fns.get(t.get("rfnid") or t.get("fnid"))
            gen = callee.rec.get("generics", []) if callee else []
            fdp = set()
            for imp in db.impls:
                if imp["info"].get("self_adt") == adt and imp["info"].get("trait") in (oc.IOUR_OP, oc.POLL_OP):
                    for p in imp["info"]["preds"]:
                        mm = re.match(r"^(\w+): std::os::fd::owned::AsFd$", p)
                        if mm:
                            fdp.add(mm.group(1))
            for i, g in enumerate(gen):
                if g in fdp and i < len(t["ga"]):
                    n += 1
                    ty = t["ga"][i]
                    ctx.sites()
                    ctx.ob("R1", "owns-descriptor:%s.%s@%s" % (oc.short(adt), g, db.root_fn(f).name),
                           BORROWED.search(ty) is None,
                           "the op's descriptor parameter is instantiated with `%s`: an in-flight operation must keep "
                           "its descriptor open by owning (a clone of) it" % ty, f)
        ctx.floor("R1", "descriptor-typed op constructions outside the driver", n, 50)

        # ---------------- R2
        closers = [(f, bb, t, adt) for f, bb, t, adt in oc.op_ctor_calls(db, r"^compio_(fs|net|runtime|process)::")
                   if adt.rsplit("::", 1)[-1] in ("CloseFile", "CloseSocket")]
        ctx.floor("R2", "close op constructions", len(closers), 2)
        for f, bb, t, adt in closers:
            p = op_place(t["args"][0])
            locs, croots, _ = data_deps(f, p["l"]) if p else (set(), [], [])
            ok = any(call_matches(ct, r"compio_driver::fd::SharedFd::<T>::take$") for _, ct in croots)
            ctx.ob("R2", "close-after-take:%s@%s" % (adt.rsplit("::", 1)[-1], db.root_fn(f).name), ok,
                   "the descriptor handed to the close op is the one SharedFd::take().await yielded (unique owner)", f)
        if any(n2.startswith("compio_process::") for n2 in db.adts) or any(f.id.startswith("compio_process::") for f in db.fns.values()):
            cw = [f for f in db.fns.values() if f.id.startswith("compio_process::") and calls(f, r"^std::process::Child::wait$") and
                  calls(f, r"compio_driver::fd::SharedFd::<T>::take$")]
            for f in cw:
                w = calls(f, r"^std::process::Child::wait$")[0]
                tk = [b for b, _ in calls(f, r"compio_driver::fd::SharedFd::<T>::take$")]
                ctx.ob("R2", "pidfd-wait-after-take", f.cfg.dominates(tk[0], w[0]),
                       "the child is reaped only after the pidfd poll op released its clone", f)

    # ---------------- R3
    tk = [f for f in db.fns.values() if f.id.startswith("compio_driver::fd::") and "take" in f.id and f.kind in ("closure", "coroutine")]
    pf = [f for f in tk if calls(f, r"(WakerSlot|AtomicWaker)::register$")]
    ctx.floor("R3", "SharedFd::take poll closure", len(pf), 1)
    for f in pf:
        tu = [bb for bb, _ in calls(f, r"(Rc|Arc|Shared)::<.*>::try_unwrap$")]
        rg = [bb for bb, _ in calls(f, r"(WakerSlot|AtomicWaker)::register$")]
        ok = len(tu) == 2 and len(rg) == 1
        if ok:
            a, b = sorted(tu, key=lambda x: 0 if f.cfg.dominates(x, rg[0]) else 1)
            ok = f.cfg.dominates(a, rg[0]) and f.cfg.dominates(rg[0], b)
        ctx.ob("R3", "unwrap-register-unwrap", ok,
               "try_unwrap ≺ waker.register ≺ try_unwrap: a release between the first check and the registration is "
               "caught by the second check", f)
        pend = [bi for bi, si, s in f.stmts() if s.get("r", {}).get("k") == "agg" and s["r"].get("adt") == "core::task::poll::Poll" and s["r"].get("var") == "Pending"]
        ctx.ob("R3", "pending-only-after-second-check", bool(pend) and ok and all(f.cfg.dominates(b, p) for p in pend),
               "Pending is returned only after the second try_unwrap failed (with the waker registered)", f)
    co = [f for f in tk if f.kind == "coroutine"]
    for f in co:
        sw = [bb for bb, t in calls(f, r"(AtomicBool|Atomic)(::<.*>)?::swap$")]
        pfn = [bb for bb, _ in calls(f, r"^core::future::poll_fn::poll_fn$|poll_fn$")]
        ctx.ob("R3", "single-closer", bool(sw) and bool(pfn) and guarded_by_bool(f, pfn[0], r"(AtomicBool|Atomic)(::<.*>)?::swap$", False) is not None,
               "only the first take() waits; a second concurrent take() gets None instead of stealing the wake-up", f)
    dr = db.methods(self_adt=r"^compio_driver::fd::SharedFd$", name="drop", trait=r"Drop$")
    if not dr:
        ctx.missing("R3", "impl Drop for SharedFd")
    for f in dr:
        wk = [bb for bb, _ in calls(f, r"(WakerSlot|AtomicWaker)::wake$")]
        sc = calls(f, r"(Rc|Arc|Shared)::<.*>::strong_count$")
        ld = calls(f, r"(AtomicBool|Atomic)(::<.*>)?::load$")
        ok = len(wk) == 1 and bool(sc) and bool(ld) and guarded_by_bool(f, wk[0], r"(AtomicBool|Atomic)(::<.*>)?::load$", True) is not None
        # the count comparison: Eq with constant 2
        cmp2 = any(s.get("r", {}).get("k") == "bin" and s["r"].get("x") == "Eq" and any(o.get("v") == "2" for o in s["r"]["ops"])
                   for bi, si, s in f.stmts())
        ctx.ob("R3", "last-but-one-drop-wakes-closer", ok and cmp2,
               "dropping the handle that leaves the waiting closer as the only owner wakes it (strong_count == 2 && waits)", f)

    # ---------------- R4
    n4 = oc.rule_outputs(ctx, db, "R4", want_socket=True) + oc.rule_outputs(ctx, db, "R4", want_socket=False)
    ctx.floor("R4", "output-field obligations", n4, 20 if (has_iour(db) and has_poll(db)) else 10)
    if has_iour(db):
        for imp, adt, ms in oc.op_impls(db, oc.IOUR_OP):
            a = db.adts.get(adt)
            if a is None:
                continue
            fdfields = [fl["name"] for _, fl in db.adt_fields(a) if re.search(r"^core::option::Option<(std::os::fd::owned::OwnedFd|socket2::socket::Socket)>$", fl["ty"])]
            if not fdfields:
                continue
            sr = ms.get("set_result")
            for fld in fdfields:
                w = oc.fields_written(db, sr, adt) if sr else set()
                ctx.ob("R4", "iour-set_result-adopts-fd:%s.%s" % (oc.short(adt), fld), sr is not None and fld in w and
                       db.reach(sr, lambda t: call_matches(t, r"FromRawFd>::from_raw_fd$|::from_raw_fd$"), depth=2) is not None,
                       "the io_uring completion wraps the new descriptor into an owning type inside set_result, which the "
                       "driver runs even when the submitter has gone (so a cancelled accept/open does not leak the fd)", sr)

        # multishot accept: every intermediate completion carries a new descriptor, which must be owned from
        # the moment it is queued (a stream dropped with queued results must close them)
        multi = Summaries(db, r"^io_uring::opcode::AcceptMulti::new$", depth=4)
        frf = Summaries(db, r"FromRawFd>::from_raw_fd$|::from_raw_fd$", depth=4)
        nm_ = 0
        for imp, adt, ms in oc.op_impls(db, oc.IOUR_OP):
            entries = [ms[m] for m in ("create_entry", "create_entry_fallback") if m in ms]
            if not any(multi.may(e) for e in entries):
                continue
            pm = ms.get("push_multishot")
            nm_ += 1
            ctx.ob("R4", "multishot-fd-owned-when-queued:" + oc.short(adt), pm is not None and frf.may(pm),
                   "each descriptor reported by an intermediate multishot-accept completion is wrapped into an owning "
                   "type when it is queued (queued-but-undelivered connections are closed when the stream is dropped)", pm)
        ctx.floor("R4", "multishot descriptor-producing ops", nm_, 1)

    # ---------------- R5
    for nm in ("compio_driver::sys::op::fs::CloseFile", "compio_driver::sys::op::socket::CloseSocket"):
        a = db.adts.get(nm)
        if a is None:
            if any(x.startswith("compio_driver::sys::op::") for x in db.adts):
                ctx.missing("R5", nm)
            continue
        tys = [fl["ty"] for _, fl in db.adt_fields(a)]
        ctx.ob("R5", "close-op-holds-ManuallyDrop:" + nm.rsplit("::", 1)[-1],
               any(x.startswith("core::mem::manually_drop::ManuallyDrop<std::os::fd::owned::OwnedFd>") for x in tys),
               "the close op keeps the descriptor in ManuallyDrop (it is closed by the op, not by a destructor as well)")


def check(tier):
    return engine.run("C06", tier, rules, NOT_DECIDED, [])
