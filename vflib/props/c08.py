"""C08 — File and pipe I/O matches the OS, identically on every driver (structural clauses)."""
from .. import engine
from .. import opcodes as oc
from .c01 import has_iour, has_poll

NOT_DECIDED = ("equality with the OS for all offsets / lengths / contents; open-option and metadata translation "
               "values; which driver is selected at run time")


def rules(ctx, db):
    R = ctx.rule
    R("R1", "DIR", "read-direction buffers are exposed to the OS through their spare capacity, write-direction "
      "buffers through their initialised part, on every backend (io_uring entry, io_uring blocking fallback, polling)")
    R("R2", "PARITY", "every backend of every file/pipe op consumes every constructor-supplied field "
      "(fd, offset, buffer, flags, mode, path, size, datasync, len ...)")
    R("R3", "ADV", "every read API records the returned byte count as the buffer's new length")
    R("R4", "COVER", "every op with an io_uring implementation also has a polling implementation (config with both drivers)")
    R("R5", "COVER", "values produced by the OS for file/pipe ops (opened descriptor, pipe ends, stat buffer) are "
      "written by every backend before into_inner() reads them")
    n5 = oc.rule_outputs(ctx, db, "R5", want_socket=False)
    ctx.floor("R5", "output-field obligations (file/pipe ops)", n5, 12 if (has_iour(db) and has_poll(db)) else 6)
    R("R6", "FORWARD", "an op that wraps another op forwards every trait method the inner op overrides")
    n6 = oc.rule_forward(ctx, db, "R6", want_socket=False)
    n1 = oc.rule_dir(ctx, db, "R1", want_socket=False)
    ctx.floor("R1", "direction-typed buffer parameters (file/pipe ops)", n1, 8 if (has_iour(db) and has_poll(db)) else 4)
    n2 = oc.rule_parity(ctx, db, "R2", want_socket=False)
    ctx.floor("R2", "constructor-input obligations (file/pipe ops)", n2, 60 if has_iour(db) and has_poll(db) else 25)
    if any(n.startswith("compio_fs::") for n in db.adts):
        n3 = oc.rule_adv(ctx, db, "R3", want_socket=False, crate_rx=r"^compio_(fs|runtime|process|term)::")
        ctx.floor("R3", "read-direction op submissions outside the driver", n3, 8)
    if has_iour(db) and has_poll(db):
        iour = {a.rsplit("::", 1)[-1] for imp, a, ms in oc.op_impls(db, oc.IOUR_OP) if not oc.is_socket_op(a)}
        poll = {a.rsplit("::", 1)[-1] for imp, a, ms in oc.op_impls(db, oc.POLL_OP) if not oc.is_socket_op(a)}
        # multishot read ops exist natively only on io_uring; the fusion wrapper of the same name implements both
        for name in sorted(iour):
            ctx.ob("R4", "has-polling-impl:" + name, name in poll,
                   "op `%s` is implemented for the polling driver too (same base name, fusion wrappers included)" % name)


    if any(n.startswith("compio_fs::") for n in db.adts):
        from .. import forward
        forward.rule_io_forwarders(ctx, db, "R7", ("compio_fs::", "compio_runtime::"), 20)


    if has_poll(db):
        ctx.rule("R8", "DIR", "a polling file/pipe op waits for the readiness its system call needs (Readable for read, Writable for write)")
        n8 = oc.rule_interest(ctx, db, "R8", want_socket=False)
        ctx.floor("R8", "polling file/pipe ops with a readiness interest", n8, 5)


def check(tier):
    return engine.run("C08", tier, rules, NOT_DECIDED, [])
