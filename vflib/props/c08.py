"""C08 — File and pipe I/O matches the OS, identically on every driver (structural clauses)."""
import re

from .. import engine
from ..facts import call_matches, op_place
from .. import opcodes as oc
from .c01 import has_iour, has_poll

NOT_DECIDED = ("equality with the OS for all offsets / lengths / contents; open-option and metadata translation "
               "values; which driver is selected at run time")


def rules(ctx, db):
    R = ctx.rule
    R("R1", "DIR", "read-direction buffers are exposed to the OS through their spare capacity, write-direction "
      "buffers through their initialised part, on every backend (io_uring entry, io_uring blocking fallback, polling)")
    R("R2", "PARITY", "every backend of every file/pipe op consumes every constructor-supplied field "
      "(fd, offset, buffer, flags, mode, path, size, datasync, len ...)")
    R("R3", "ADV", "every read API records the returned byte count as the buffer's new length")
    R("R4", "COVER", "every op with an io_uring implementation also has a polling implementation (config with both drivers)")
    R("R5", "COVER", "values produced by the OS for file/pipe ops (opened descriptor, pipe ends, stat buffer) are "
      "written by every backend before into_inner() reads them")
    n5 = oc.rule_outputs(ctx, db, "R5", want_socket=False)
    ctx.floor("R5", "output-field obligations (file/pipe ops)", n5, 12 if (has_iour(db) and has_poll(db)) else 6)
    R("R6", "FORWARD", "an op that wraps another op forwards every trait method the inner op overrides")
    n6 = oc.rule_forward(ctx, db, "R6", want_socket=False)
    n1 = oc.rule_dir(ctx, db, "R1", want_socket=False)
    ctx.floor("R1", "direction-typed buffer parameters (file/pipe ops)", n1, 8 if (has_iour(db) and has_poll(db)) else 4)
    n2 = oc.rule_parity(ctx, db, "R2", want_socket=False)
    ctx.floor("R2", "constructor-input obligations (file/pipe ops)", n2, 60 if has_iour(db) and has_poll(db) else 25)
    if any(n.startswith("compio_fs::") for n in db.adts):
        n3 = oc.rule_adv(ctx, db, "R3", want_socket=False, crate_rx=r"^compio_(fs|runtime|process|term)::")
        ctx.floor("R3", "read-direction op submissions outside the driver", n3, 8)
    if has_iour(db) and has_poll(db):
        iour = {a.rsplit("::", 1)[-1] for imp, a, ms in oc.op_impls(db, oc.IOUR_OP) if not oc.is_socket_op(a)}
        poll = {a.rsplit("::", 1)[-1] for imp, a, ms in oc.op_impls(db, oc.POLL_OP) if not oc.is_socket_op(a)}
        # multishot read ops exist natively only on io_uring; the fusion wrapper of the same name implements both
        for name in sorted(iour):
            ctx.ob("R4", "has-polling-impl:" + name, name in poll,
                   "op `%s` is implemented for the polling driver too (same base name, fusion wrappers included)" % name)


    if any(n.startswith("compio_fs::") for n in db.adts):
        from .. import forward
        forward.rule_io_forwarders(ctx, db, "R7", ("compio_fs::", "compio_runtime::"), 20)


    if has_poll(db):
        ctx.rule("R8", "DIR", "a polling file/pipe op waits for the readiness its system call needs (Readable for read, Writable for write)")
        n8 = oc.rule_interest(ctx, db, "R8", want_socket=False)
        ctx.floor("R8", "polling file/pipe ops with a readiness interest", n8, 5)


    # R9: values handed to the OS / taken from it keep their meaning
    ctx.rule("R9", "same-value", "io_uring read / write entries always set the offset: the positional ops their own, the sequential "
             "ops -1 (\"use and advance the file position\", like read(2)/write(2)); a (signed) stat time is converted with its "
             "sign (times before 1970 do not overflow)")
    if has_iour(db):
        n9 = 0
        for imp, adt, ms in oc.op_impls(db, oc.IOUR_OP):
            ce = ms.get("create_entry")
            if ce is None or oc.is_socket_op(adt):
                continue
            rw = [(bb, t) for bb, t in ce.calls() if re.search(r"io_uring::opcode::(Read|Write|Readv|Writev)::new$", t.get("rfn") or t.get("fn") or "")]
            if not rw:
                continue
            n9 += 1
            off = [(bb, t) for bb, t in ce.calls() if re.search(r"io_uring::opcode::(Read|Write|Readv|Writev)::offset$", t.get("rfn") or t.get("fn") or "")]
            ok = bool(off)
            how = "no offset set: the kernel reads / writes at offset 0 every time"
            for bb, t in off:
                a = t["args"][1]
                pl = op_place(a)
                if pl is None:
                    ok = ok and str(a.get("v")) in ("18446744073709551615", "-1")
                    how = "offset constant %s" % a.get("v")
                else:
                    from ..util import data_deps
                    flds = {e[2] for q in data_deps(ce, pl["l"])[2] for e in q["p"] if isinstance(e, list) and e[0] == "f"}
                    ok = ok and "offset" in flds
                    how = "offset from field(s) %s" % ",".join(sorted(flds))
            ctx.ob("R9", "rw-entry-sets-offset:" + oc.short(adt), ok, how, ce)
        ctx.floor("R9", "io_uring read/write entry builders (file/pipe ops)", n9, 8)
    if any(n.startswith("compio_fs::") for n in db.adts):
        from .. import arith
        from ..util import data_deps
        nt = 0
        for f in db.fns.values():
            if not f.id.startswith("compio_fs::metadata::"):
                continue
            sg = None
            for bb, t in f.calls():
                if not call_matches(t, r"core::time::Duration::from_secs$"):
                    continue
                pl = op_place(t["args"][0])
                if pl is None:
                    continue
                # does the argument come from a signed value through an int cast?
                signed = None
                locs, cr, places = data_deps(f, pl["l"])
                for l in locs | {pl["l"]}:
                    for d in f.cfg.defs.get(l, []):
                        if d[0] == "assign" and d[3]["r"].get("k") == "cast" and d[3]["r"].get("ops"):
                            q = op_place(d[3]["r"]["ops"][0])
                            if q is not None and f.local_ty(q["l"]).startswith("i") and f.local_ty(l).startswith("u"):
                                signed = q
                if signed is None:
                    continue
                nt += 1
                sg = sg or arith.Sigs(f)
                zeros = []
                for bi2, si2, st2 in f.stmts():
                    r2 = st2.get("r", {})
                    if r2.get("k") == "bin" and r2.get("x") in ("Ge", "Gt", "Le", "Lt"):
                        for o2 in r2["ops"]:
                            if "k" in o2 and str(o2.get("v")) == "0":
                                zeros.append(sg.operand(o2))
                ok = any(arith.established_le(f, sg, z, sg.place(signed), bb) for z in zeros)
                ctx.ob("R9", "stat-time-sign-checked:" + db.root_fn(f).name, ok,
                       "a signed number of seconds is cast to u64 only on the `>= 0` edge (negative values go through unsigned_abs "
                       "and are subtracted from the epoch)", f)
        sec_fields = 0
        for f in db.fns.values():
            if f.id.startswith("compio_fs::metadata::") and f.short in ("modified", "accessed", "created"):
                sec_fields += 1
        ctx.floor("R9", "stat-time conversions (sites casting signed seconds, or none because a helper does it)", nt + (1 if sec_fields else 0), 1)


def check(tier):
    return engine.run("C08", tier, rules, NOT_DECIDED, [])
