"""C01 — In-flight operations keep their memory and descriptors alive (structural clauses)."""
import re

from .. import engine
from ..facts import call_matches, op_place
from ..util import (Summaries, calls, dominated_by_any, guarded_by_bool, guarded_by_variant,
                    receiver_field, arg_origin_calls, flow_call, value_switches)

NOT_DECIDED = ("what the kernel does with the memory; the reference-count arithmetic inside thin-cell; "
               "a global temporal proof over every interleaving of drop vs completion (each step is shown to "
               "keep a reference); descriptor liveness (C06)")

FROM_RAW = r"^compio_driver::key::ErasedKey::from_raw$"
INTO_RAW = r"^compio_driver::key::(ErasedKey|Key::<T>)::into_raw$"
DRV = r"^compio_driver::sys::driver::"


def has_iour(db):
    return any(f.id.startswith("compio_driver::sys::driver::iour::") for f in db.fns.values())


def has_poll(db):
    return any(f.id.startswith("compio_driver::sys::driver::poll::") for f in db.fns.values())


def in_flight_op(fn, t, names):
    """Is call t a HashSet method in `names` on a receiver derived from field `in_flight`?"""
    if not call_matches(t, r"std::collections::hash::set::HashSet::<.*>::(%s)$" % "|".join(names)):
        return False
    return "in_flight" in receiver_field(fn, t)


def remat_helpers(db):
    """Functions that re-materialise a *strong* key: call ErasedKey::from_raw and do not wrap it
    into ManuallyDrop (BorrowedKey-like weak views do)."""
    strong, weak = [], []
    for f, bb, t in db.callers_of(FROM_RAW):
        if f.blocks[bb]["cl"]:
            continue
        # weak if the result flows into ManuallyDrop::new
        dst = t["dst"]["l"]
        der = f.cfg.derived_locals([dst], through_calls=lambda tt: None)
        is_weak = False
        for b2, t2 in f.calls():
            if call_matches(t2, r"ManuallyDrop::<.*>::new$"):
                p = op_place(t2["args"][0])
                if p and p["l"] in der:
                    is_weak = True
        (weak if is_weak else strong).append((f, bb, t))
    return strong, weak


def rules(ctx, db):
    R = ctx.rule
    R("R1", "WMC+ORD", "a key is leaked into user_data only by the driver's submit path, only after the hand-off "
      "succeeded and after it was recorded in in_flight; a strong key is re-materialised only by the driver, "
      "after in_flight.remove/drain of it")
    R("R2", "GUARD", "every CQE consumer re-materialises a strong key (and notifies) only when more(flags) is false")
    R("R3", "ORD", "Driver::drop closes the ring (ManuallyDrop::drop) before freeing the keys still in in_flight")
    R("R4", "GUARD", "Proactor::cancel/pop/pop_with_extra take the result only when it is there (and, for cancel, "
      "the key is unique and was not cancelled before); otherwise cancel goes to the driver")
    R("R5", "WMC+MPT", "thread-pool ops travel as a FrozenKey that owns its reference; it is turned back into an "
      "Entry and sent to the driver thread")
    R("R6", "COVER", "every future/stream holding a Key cancels it through the Proactor when dropped while submitted")
    R("R7", "ORD+WMC", "a multishot/zero-copy stream hands the op back only from Idle/Finished, and Finished is "
      "entered only from the final result")
    R("R8", "WMC+ORD", "the carrier is initialised (self-references taken) only after it is pinned in the ThinCell")

    # ------------------------------------------------------------------ R1 / R2 / R3 (io_uring)
    strong, weak = remat_helpers(db)
    ctx.sites(len(strong) + len(weak))
    for f, bb, t in strong + weak:
        ctx.ob("R1", "from_raw-caller:" + f.name,
               re.search(DRV, f.id) is not None or f.name == "compio_driver::key::BorrowedKey::from_raw",
               "ErasedKey::from_raw may only be called inside compio_driver::sys::driver (or BorrowedKey)", f)
    into_callers = [(f, bb, t) for f, bb, t in db.callers_of(INTO_RAW)
                    if not f.blocks[bb]["cl"] and not re.search(r"key::Key::<T>::into_raw$", f.name)]
    for f, bb, t in into_callers:
        ctx.ob("R1", "into_raw-caller:" + f.name, re.search(DRV, f.id) is not None,
               "ErasedKey::into_raw (leak into user_data) may only be called by the driver", f)

    if has_iour(db):
        iour_into = [(f, bb, t) for f, bb, t in into_callers if "::iour::" in f.id]
        ctx.floor("R1", "io_uring into_raw sites", len(iour_into), 1)
        push_sum = Summaries(db, r"io_uring::squeue::SubmissionQueue::<.*>::push$")
        for f, bb, t in iour_into:
            cfg = f.cfg
            # (a) dominated by the Continue edge of `?` on a call that reaches SubmissionQueue::push
            ok_a = None
            for cbb in push_sum.event_blocks(f, "may"):
                tt = f.blocks[cbb]["t"]
                pat = re.escape(tt.get("fn", ""))
                for (sbb, targets, ow) in _discr_edges_of(f, cbb):
                    cont = targets.get("0")
                    brk = targets.get("1")
                    if cont is not None and cont != brk and cfg.edge_dominates(sbb, cont, bb):
                        # and the failure edge cannot reach into_raw
                        if brk is None or bb not in cfg.reach_from_block(brk):
                            ok_a = cbb
            ctx.ob("R1", "leak-after-successful-push:" + f.name, ok_a is not None,
                   "into_raw must be dominated by the success edge of the SQ push (if the push failed the key "
                   "must not be leaked)", f)
            # (b) dominated by in_flight.insert of the same user_data (as_raw of the same key)
            ins = [b2 for b2, t2 in f.calls() if in_flight_op(f, t2, ["insert"])]
            dom = dominated_by_any(f, ins, bb)
            same = False
            if dom is not None:
                t_ins = f.blocks[dom]["t"]
                key_local = op_place(t["args"][0])["l"]
                key_srcs = {r[1] for r in cfg.origins(key_local, through_calls=flow_call) if r[0] == "arg"}
                for ct in arg_origin_calls(f, t_ins, 1):
                    if call_matches(ct, r"ErasedKey::as_raw$"):
                        src = op_place(ct["args"][0])
                        src_roots = {r[1] for r in cfg.origins(src["l"], through_calls=flow_call) if r[0] == "arg"}
                        if src_roots & key_srcs:
                            same = True
            ctx.ob("R1", "in_flight.insert-before-leak:" + f.name, dom is not None and same,
                   "into_raw must be dominated by in_flight.insert(as_raw() of the same key)", f)
            # (c) the SQE's user_data is as_raw of the same key  (shared with C02-R1)
        # strong re-materialisations in io_uring: dominated by in_flight.remove / drain, possibly in the caller
        iour_strong = [(f, bb, t) for f, bb, t in strong if "::iour::" in f.id]
        ctx.floor("R1", "io_uring strong from_raw sites", len(iour_strong), 2)
        remat_events = []   # (fn, bb) events that produce a strong key from a raw value
        helper_ids = set()
        for f, bb, t in iour_strong:
            rm = [b2 for b2, t2 in f.calls() if in_flight_op(f, t2, ["remove", "drain", "take"])]
            if dominated_by_any(f, rm, bb) is not None:
                ctx.ob("R1", "remove-before-from_raw:" + f.name + "#" + _ord(f, bb, strong), True,
                       "from_raw dominated by in_flight.remove/drain", f)
                remat_events.append((f, bb))
            else:
                # helper: obligation moves to each call site of f
                helper_ids.add(f.id)
                sites = [(g, b3) for (g, b3) in db.callers().get(f.id, []) if not g.blocks[b3]["cl"]]
                if not sites:
                    ctx.ob("R1", "remove-before-from_raw:" + f.name, False,
                           "from_raw neither preceded by in_flight.remove/drain nor called from a site that is", f)
                for g, b3 in sites:
                    rm2 = [b2 for b2, t2 in g.calls() if in_flight_op(g, t2, ["remove", "drain", "take"])]
                    ctx.ob("R1", "remove-before-from_raw:%s<-%s" % (f.name, g.name),
                           dominated_by_any(g, rm2, b3) is not None,
                           "call of the re-materialising helper must be dominated by in_flight.remove/drain", g)
                    remat_events.append((g, b3))
        # R2: CQE consumers
        consumers = [f for f in db.fns.values() if "::iour::" in f.id and f.id not in helper_ids and
                     calls(f, r"^io_uring::cqueue::Entry(32)?::user_data$")]
        ctx.floor("R2", "CQE consumers (functions reading cqueue::Entry::user_data)", len(consumers), 2)
        close_rx = r"core::mem::manually_drop::ManuallyDrop::<T>::drop$"
        for f in consumers:
            evs = [bb for (g, bb) in remat_events if g.id == f.id]
            notif = [bb for bb, t in calls(f, r"^compio_driver::Entry::notify$")]
            closes = [bb for bb, t in calls(f, close_rx) if any("IoUring" in g for g in t.get("ga", []))]
            n = 0
            for bb in sorted(set(evs + notif)):
                if dominated_by_any(f, closes, bb) is not None:
                    continue  # after the ring is closed: R3's case
                n += 1
                g = guarded_by_bool(f, bb, r"^io_uring::cqueue::more$", False)
                ctx.ob("R2", "final-only:%s#%d" % (f.name, n), g is not None,
                       "a strong key is re-materialised / notified from a CQE only on the more(flags)==false edge "
                       "(an intermediate multishot / zero-copy CQE does not give the key back)", f)
            ctx.ob("R2", "consumer-has-remat:" + f.name, n > 0 or bool(closes),
                   "CQE consumer re-materialises the key of a final CQE", f)
        # R3: Drop for iour::Driver
        drv = [a for a in db.adts.values() if a["name"] == "compio_driver::sys::driver::iour::Driver"]
        if not drv:
            ctx.missing("R3", "struct iour::Driver")
        else:
            md = [fl for _, fl in db.adt_fields(drv[0]) if fl["ty"].startswith("core::mem::manually_drop::ManuallyDrop<io_uring::IoUring")]
            ctx.ob("R3", "ring-is-ManuallyDrop", len(md) == 1,
                   "iour::Driver keeps the IoUring in ManuallyDrop so that Drop controls when the ring is closed")
            drops = db.methods(self_adt=r"^compio_driver::sys::driver::iour::Driver$", name="drop", trait=r"ops::drop::Drop$")
            if not drops:
                ctx.missing("R3", "impl Drop for iour::Driver")
            for f in drops:
                closes = [bb for bb, t in calls(f, close_rx) if any("IoUring" in g for g in t.get("ga", []))]
                ctx.ob("R3", "drop-closes-ring", len(closes) == 1 and f.cfg.postdominates(closes[0], 0),
                       "Driver::drop closes the ring exactly once on every path", f)
                drains = [bb for bb, t in f.calls() if in_flight_op(f, t, ["drain"])]
                ctx.ob("R3", "drop-frees-in_flight", bool(drains) and all(dominated_by_any(f, closes, d) is not None for d in drains),
                       "the in_flight keys are drained (and freed) after the ring was closed", f)
                evs = [bb for (g, bb) in remat_events if g.id == f.id]
                post = [bb for bb in evs if dominated_by_any(f, drains, bb) is not None]
                ctx.ob("R3", "drop-rematerialises-drained-keys", bool(post),
                       "keys drained from in_flight are re-materialised (released exactly once) after the close", f)
                for i, bb in enumerate(evs):
                    after_close = dominated_by_any(f, closes, bb) is not None
                    before_close = closes and bb not in f.cfg.reach_from_block(closes[0]) if closes else False
                    ctx.ob("R3", "remat-relative-to-close#%d" % i, after_close or before_close,
                           "each key release in drop is either before the close (completed CQE) or after it", f)
        # ring closed nowhere else
        for f, bb, t in db.callers_of(r"ManuallyDrop::<T>::(drop|take)$"):
            if "::iour::" in f.id and any("IoUring" in g for g in t.get("ga", [])):
                ctx.ob("R3", "ring-closed-only-in-drop:" + f.name,
                       f.short == "drop" and (f.trait or "").endswith("Drop"),
                       "the ring may only be closed by impl Drop for Driver", f)

    # ------------------------------------------------------------------ R4 Proactor::cancel / pop
    take_rx = r"^compio_driver::key::Key::<T>::take_result$"
    raw_takers = [(f, bb, t) for f, bb, t in db.callers_of(take_rx) if not f.blocks[bb]["cl"]]

    def _take_guarded(f, bb):
        g1 = guarded_by_bool(f, bb, r"ErasedKey::has_result$", True)
        g2 = dominated_by_any(f, [b2 for b2, _ in calls(f, r"ErasedKey::set_result$")], bb)
        return g1 is not None or g2 is not None

    # a private free helper of the driver crate that takes the result without testing it passes the obligation on to
    # its call sites (one level): those are then the take sites
    takers = []
    take_helpers = {}
    for f, bb, t in raw_takers:
        if f.self_adt is None and not f.trait and f.id.startswith("compio_driver::") and f.kind == "fn" \
                and not f.rec.get("pub") and not _take_guarded(f, bb):
            take_helpers[f.id] = f
        else:
            takers.append((f, bb, t))
    for g in db.fns.values():
        for bb, t in g.calls():
            if any(h.id in take_helpers for h in db.callee_fns(t, expand_traits=False)):
                takers.append((g, bb, t))

    def take_sites(f):
        return [bb for bb, t in f.calls() if call_matches(t, take_rx)
                or any(h.id in take_helpers for h in db.callee_fns(t, expand_traits=False))]

    ctx.floor("R4", "take_result call sites", len(takers), 4)
    for f, bb, t in takers:
        ok_mod = f.self_adt == "compio_driver::Proactor"
        ctx.ob("R4", "take_result-caller:" + f.name, ok_mod,
               "Key::take_result is only called by Proactor methods", f)
        ctx.ob("R4", "take_result-guard:" + f.name, _take_guarded(f, bb),
               "take_result only on the has_result()==true edge (or right after set_result)", f)
    canc = db.methods(self_adt=r"^compio_driver::Proactor$", name="cancel", trait="")
    if not canc:
        ctx.missing("R4", "Proactor::cancel")
    for f in canc:
        tk = take_sites(f)
        dc = [bb for bb, _ in calls(f, r"^compio_driver::sys::driver::\w+::Driver::cancel$")]
        ctx.ob("R4", "cancel-shape", len(tk) == 1 and len(dc) >= 1,
               "Proactor::cancel has one take_result site and reaches the driver's cancel", f)
        for bb in tk:
            ctx.ob("R4", "cancel-take-needs-unique", guarded_by_bool(f, bb, r"ErasedKey::is_unique$", True) is not None,
                   "the result is taken in cancel only when the key is unique (the driver holds no reference)", f)
            ctx.ob("R4", "cancel-take-needs-not-cancelled", guarded_by_bool(f, bb, r"ErasedKey::set_cancelled$", False) is not None,
                   "cancel returns early when the op was already cancelled", f)
        for bb in dc:
            ctx.ob("R4", "cancel-driver-needs-not-cancelled", guarded_by_bool(f, bb, r"ErasedKey::set_cancelled$", False) is not None,
                   "the driver cancel is issued only for the first cancellation", f)
        # every normal path: early-return(cancelled) | take | driver cancel
        cfg = f.cfg
        sc = [bb for bb, _ in calls(f, r"ErasedKey::set_cancelled$")]
        if sc:
            esc = cfg.reach_set([sc[0]], avoid=set(tk + dc))
            bad = []
            for r in cfg.returns:
                if r in esc:
                    # allowed only via the set_cancelled()==true edge
                    for (sbb, tt, ft) in _bool_edges(f, sc[0]):
                        esc2 = cfg.reach_from_block(ft, avoid=set(tk + dc))
                        if r in esc2:
                            bad.append(r)
            ctx.ob("R4", "cancel-no-silent-path", not bad,
                   "after the first cancellation every path takes the result or tells the driver", f)

    # ------------------------------------------------------------------ R5 frozen keys
    fz = [(f, bb, t) for f, bb, t in db.callers_of(r"^compio_driver::key::ErasedKey::freeze$") if not f.blocks[bb]["cl"]]
    ndrv = (1 if has_iour(db) else 0) + (1 if has_poll(db) else 0)
    ctx.floor("R5", "freeze call sites", len(fz), ndrv)
    disp = r"^compio_driver::asyncify::AsyncifyPool::dispatch$"
    for f, bb, t in fz:
        ok = re.search(DRV, f.id) is not None and bool(calls(f, disp))
        ctx.ob("R5", "freeze-caller:" + f.name, ok,
               "ErasedKey::freeze is only called by the driver function that dispatches to the blocking pool", f)
        # closure(s) built in f: into_inner -> Entry::new -> Sender::send
        found = False
        for cid in f.closures():
            c = db.fns.get(cid)
            if c is None:
                continue
            ii = calls(c, r"^compio_driver::key::FrozenKey::into_inner$")
            if not ii:
                continue
            found = True
            en = calls(c, r"^compio_driver::Entry::new$")
            sd = calls(c, r"^flume::Sender::<T>::send$")
            flows = False
            for b2, t2 in en:
                if any(call_matches(x, r"FrozenKey::into_inner$") for x in arg_origin_calls(c, t2, 0)):
                    for b3, t3 in sd:
                        if any(call_matches(x, r"compio_driver::Entry::new$") for x in arg_origin_calls(c, t3, 1)):
                            flows = True
            ctx.ob("R5", "frozen-key-returns-as-entry:" + f.name, flows,
                   "inside the pool closure FrozenKey::into_inner flows into Entry::new and is sent back to the driver thread", c)
            # the send post-dominates the closure entry (the key always travels back)
            ctx.ob("R5", "entry-always-sent:" + f.name, bool(sd) and all(c.cfg.postdominates(b3, 0) for b3, _ in sd[:1]),
                   "the completed entry is sent on every normal path of the closure", c)
        ctx.ob("R5", "pool-closure-found:" + f.name, found, "the dispatched closure consumes the frozen key", f)
    fk = db.adts.get("compio_driver::key::FrozenKey")
    if fk is None:
        ctx.missing("R5", "struct FrozenKey")
    else:
        ctx.ob("R5", "FrozenKey-has-Drop", "drop" in fk, "FrozenKey releases its reference in Drop")
        tys = [fl["ty"] for _, fl in db.adt_fields(fk)]
        ctx.ob("R5", "FrozenKey-owns-ErasedKey", any("ManuallyDrop<compio_driver::key::ErasedKey>" in x for x in tys),
               "FrozenKey owns an ErasedKey (a counted reference), not a raw pointer")
        for f in db.methods(self_adt=r"^compio_driver::key::FrozenKey$", name="drop", trait=r"Drop$"):
            d = [bb for bb, _ in calls(f, r"ManuallyDrop::<T>::drop$")]
            ctx.ob("R5", "FrozenKey-drop-thread-check",
                   bool(d) and all(guarded_by_bool(f, bb, r"SendWrapper::<T>::valid$", True) is not None for bb in d),
                   "the reference is released only on the owning thread (ThinCell is single-threaded)", f)

    # ------------------------------------------------------------------ R6 futures cancel on drop
    holders = []
    for a in db.adts.values():
        if a["name"].startswith("compio_driver::"):
            continue
        for v, fl in db.adt_fields(a):
            if "compio_driver::key::Key" in fl["adts"]:
                holders.append((a, v, fl))
    if any(n.startswith("compio_runtime::") for n in db.adts):
        ctx.floor("R6", "ADTs holding a compio_driver::Key", len(holders), 2)
    cancel_sum = Summaries(db, r"^compio_driver::Proactor::cancel$")
    for a, v, fl in holders:
        ctx.ob("R6", "key-holder-in-runtime:" + a["name"], a["name"].startswith("compio_runtime::future::"),
               "only compio-runtime's submit future/stream state hold a Key<T>")
        # the owners of this ADT: structs with a field whose type mentions it
        # (pin-project's generated projection types live in an anonymous const `_` and only borrow)
        owners = [o for o in db.adts.values() if any(a["name"] in f2["adts"] for _, f2 in db.adt_fields(o))
                  and o is not a and "::_::" not in o["name"]]
        ctx.ob("R6", "key-holder-owned:" + a["name"], len(owners) >= 1, "the state enum is owned by a future/stream struct")
        for o in owners:
            drops = [f for f in db.fns.values() if f.impl and f.impl.get("self_adt") == o["name"] and f.short == "drop"]
            ok = False
            for f in drops:
                ev = cancel_sum.event_blocks(f, "may")
                # guarded by the Submitted variant: the cancel is fed by a key moved out of the state
                if ev:
                    ok = True
            ctx.ob("R6", "drop-cancels:" + o["name"], ok,
                   "dropping the future/stream while submitted cancels the op through the Proactor "
                   "(the driver keeps its own reference until the final completion)", drops[0] if drops else None)

    # ------------------------------------------------------------------ R7 zero-copy hand-back
    tt = [f for f in db.fns.values() if f.name == "compio_runtime::future::stream::SubmitMulti::<T>::try_take"]
    if any(n.startswith("compio_runtime::") for n in db.adts):
        if not tt:
            ctx.missing("R7", "SubmitMulti::try_take")
        for f in tt:
            # every origin of the value wrapped in Ok(..) is a move out of State::Idle.op / State::Finished.op
            oks = [(bi, s) for bi, si, s in f.stmts() if s.get("r", {}).get("k") == "agg"
                   and s["r"].get("adt") == "core::result::Result" and s["r"].get("var") == "Ok"]
            good = bool(oks)
            why = ""
            for bi, s in oks:
                for op in s["r"]["ops"]:
                    p = op_place(op)
                    if p is None:
                        good = False
                        continue
                    for r in f.cfg.origins(p["l"], through_calls=flow_call):
                        if r[0] == "place":
                            dc = [e[1] for e in r[3]["p"] if isinstance(e, list) and e[0] == "d"]
                            own = [e[3] for e in r[3]["p"] if isinstance(e, list) and e[0] == "f"]
                            if not any(o.startswith("compio_runtime::future::stream::State::") for o in own) or \
                                    not all(v in ("Idle", "Finished", "Some") for v in dc):
                                good = False
                                why = "op taken from %s" % (own,)
                        else:
                            good = False
                            why = "op has origin %s" % (r[0],)
            ctx.ob("R7", "try_take-not-while-submitted", good,
                   "try_take yields the op only out of State::Idle / State::Finished, never while the op is "
                   "submitted (zero-copy: not before the notification CQE) " + why, f)
        fin_writers = []
        for f in db.fns.values():
            if not f.id.startswith("compio_runtime::future::stream::"):
                continue
            for bi, si, s in f.stmts():
                r = s.get("r", {})
                if r.get("k") == "agg" and r.get("adt") == "compio_runtime::future::stream::State" and r.get("var") == "Finished":
                    fin_writers.append((f, bi))
        ctx.floor("R7", "State::Finished constructions", len(fin_writers), 2)
        for i, (f, bi) in enumerate(fin_writers):
            # Finished{op} is built from: the Ready result of submit_raw / poll_task_with_extra (final pop), or from Finished itself
            ok = False
            srcs = calls(f, r"compio_runtime::future::(submit_raw|poll_task_with_extra)$")
            for cbb, t in srcs:
                if guarded_by_variant(f, bi, re.escape(t["fn"]) + "$", 1) is not None:
                    ok = True
            # re-store of an existing Finished state
            st = db.adts.get("compio_runtime::future::stream::State")
            if st:
                fidx = [i2 for i2, v in enumerate(st["variants"]) if v["name"] == "Finished"][0]
                for sbi, b in enumerate(f.blocks):
                    t = b["t"]
                    if t["k"] == "switch":
                        tg = dict(t["tg"])
                        e = tg.get(str(fidx))
                        if e is not None and f.cfg.edge_dominates(sbi, e, bi):
                            ok = True
            ctx.ob("R7", "finished-only-from-final-result:%s#%d" % (f.name, i), ok,
                   "the stream enters Finished (op handed back) only from the Ready branch of the final pop", f)

    # zero-copy future: the op (and its buffer) is taken back only after the stream produced its final item
    if any(n.startswith("compio_net::") for n in db.adts):
        zp = db.methods(self_adt=r"^compio_net::socket::Zerocopy$", name="poll", trait=r"Future$")
        if not zp:
            ctx.missing("R7", "Zerocopy::poll")
        for f in zp:
            pn = [bb for bb, t in calls(f, r"poll_next_unpin$|Stream::poll_next$")]
            tt2 = [bb for bb, t in calls(f, r"SubmitMulti::<T>::try_take$")]
            ok = len(pn) == 1 and len(tt2) == 1 and guarded_by_variant(f, tt2[0], r"poll_next_unpin$|Stream::poll_next$", 0) is not None
            ctx.ob("R7", "zerocopy-buffer-after-final-item", ok,
                   "the zero-copy future takes the op back (try_take) only on the Ready edge of the stream's next item, "
                   "i.e. after the kernel's release notification was delivered", f)
            ctx.ob("R7", "zerocopy-never-forces-the-op-out", bool(calls(f, r"Result::<T, E>::expect$|Result::<T, E>::unwrap$")) and
                   not calls(f, r"ManuallyDrop|mem::forget|ptr::read"),
                   "a refused try_take is a panic, not a forced extraction of a still-submitted op", f)
        sz = [f for f in db.fns.values() if f.id.startswith("compio_net::socket::submit_zerocopy::") and f.kind == "coroutine"]
        for f in sz:
            sm = [bb for bb, t in calls(f, r"submit_multi$")]
            # the Zerocopy future is built by its constructor or, equivalently, by the struct literal
            zn = [bb for bb, t in calls(f, r"socket::Zerocopy::<T>::new$")]
            zn += [bi for bi, si, s in f.stmts() if s.get("r", {}).get("k") == "agg"
                   and s["r"].get("adt") == "compio_net::socket::Zerocopy"]
            zn.sort(key=lambda b: (not (sm and f.cfg.dominates(sm[0], b)), b))
            ctx.ob("R7", "zerocopy-op-stays-in-stream", bool(sm) and bool(zn) and f.cfg.dominates(sm[0], zn[0]) and not calls(f, r"SubmitMulti::<T>::try_take$"),
                   "after the first (send) result the op stays inside the multishot stream, which the Zerocopy future owns", f)

    # ------------------------------------------------------------------ R8 pinned before init
    ini = [(f, bb, t) for f, bb, t in db.callers_of(r"compio_driver::control::Carrier::<T>::init$|compio_driver::sys::\w+::Carry::init$")
           if not f.blocks[bb]["cl"]]
    ini = [(f, bb, t) for f, bb, t in ini if call_matches(t, r"Carrier::<T>::init$")]
    ctx.floor("R8", "Carrier::init call sites", len(ini), 1)
    for f, bb, t in ini:
        ctx.ob("R8", "init-caller:" + f.name, f.name == "compio_driver::key::ErasedKey::new",
               "Carrier::init (takes self-references) is only called while the key is being created", f)
        tc = [b2 for b2, _ in calls(f, r"thin_cell::.*ThinCell::<T>::new$")]
        ctx.ob("R8", "init-after-pin:" + f.name, dominated_by_any(f, tc, bb) is not None,
               "the carrier is moved into its heap cell before init() records addresses of its fields", f)
        # receiver of init derives from the ThinCell (borrow_unchecked), not from a stack local
        via = arg_origin_calls(f, t, 0, follow_fields=True)
        ctx.ob("R8", "init-on-pinned-place:" + f.name, any(call_matches(x, r"ThinCell::<T>::(borrow_unchecked|borrow)$") for x in via),
               "init is called on the carrier inside the cell", f)


def rule_escape(ctx, db):
    """R9: no pointer handed to an io_uring SQE builder is the address of a stack local of the function that
    builds the entry (the SQE outlives that frame: the kernel reads / writes the memory until the CQE)."""
    from ..util import stack_address_roots
    from .. import opcodes as oc
    ctx.rule("R9", "ESCAPE", "pointers put into an SQE derive from the op (`*self`), its control block, a static or null — "
             "never from the address of a local of the function that builds the entry")
    n = 0
    seen = set()
    for imp, adt, ms in oc.op_impls(db, oc.IOUR_OP):
        for nm in ("create_entry", "create_entry_fallback", "init"):
            f0 = ms.get(nm)
            if f0 is None:
                continue
            for f in oc.reach_fns(db, f0, depth=2):
                if f.id in seen:
                    continue
                seen.add(f.id)
                sites = [(bb, t) for bb, t in f.calls() if call_matches(t, r"^io_uring::opcode::\w+::(new|\w+)$")]
                # stores of pointers into the control block (msghdr / iovec fields)
                for bb, t in sites:
                    for i, a in enumerate(t.get("args", [])):
                        p = op_place(a)
                        if p is None:
                            continue
                        ty = f.local_ty(p["l"])
                        if not (ty.startswith("*const ") or ty.startswith("*mut ")):
                            continue
                        n += 1
                        roots = stack_address_roots(f, p["l"])
                        ctx.ob("R9", "sqe-pointer-not-stack:%s#%s.%d" % (f.name, t["fn"].rsplit("::", 2)[-2], i), not roots,
                               "argument %d of %s is a pointer that may hold the address of the local(s) %s of this "
                               "function; the kernel uses it after the function returned" % (
                                   i, t["fn"], [f.local_name(l) or "_%d" % l for l, _ in roots]), f)
    ctx.floor("R9", "pointer arguments of SQE builders", n, 20)


def _discr_edges_of(f, cbb):
    from ..util import discr_edges
    return discr_edges(f, cbb)


def _bool_edges(f, cbb):
    from ..util import bool_edges
    return bool_edges(f, cbb)


def _ord(f, bb, strong):
    sites = sorted(b for (g, b, _) in strong if g.id == f.id)
    return str(sites.index(bb))


def rules_all(ctx, db):
    rules(ctx, db)
    if has_iour(db):
        rule_escape(ctx, db)
    if ctx.tier == "thorough" and ctx.cfg == "A":
        from .. import witness
        witness.obligations(ctx, "C01")


def check(tier):
    return engine.run("C01", tier, rules_all, NOT_DECIDED, [])
