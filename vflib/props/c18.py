"""C18 — The dispatcher starts every accepted task exactly once (thin structural clauses)."""
import re

from .. import engine
from ..facts import call_matches, op_place, rvalue_places
from ..util import (Summaries, calls, dominated_by_any, guarded_by_bool, guarded_by_variant, discr_edges, data_deps,
                    arg_origin_calls)

NOT_DECIDED = ("exactly-once start under concurrent dispatch and the hand-over between threads (semantics of the MPMC "
               "channel), completion of every accepted task before join in all schedules; the rules decide that the worker "
               "never drops a spawned handle, the join order, and that a rejected closure is handed back")


def rules(ctx, db):
    R = ctx.rule
    R("R1", "MPT", "worker loop: the JoinHandle of every spawned task is detached (concurrent) or awaited (sequential) before "
      "the next task is received — it is never just dropped (dropping a handle cancels the task)")
    R("R2", "ORD", "join: the sender is dropped first, the threads are joined on the blocking pool, the result is awaited and "
      "worker panics are resumed")
    R("R3", "MPT", "dispatch: a closure the workers cannot accept is handed back in the error; the accepted one is sent once; "
      "the spawned task sends its result to its own receiver after the closure's future completed")

    if not any(f.id.startswith("compio_dispatcher::") for f in db.fns.values()):
        return
    workers = [f for f in db.fns.values() if f.id.startswith("compio_dispatcher::") and f.kind == "coroutine" and
               calls(f, r"compio_dispatcher::Spawnable::spawn$|Runtime::with_current$") and calls(f, r"recv_async$")]
    ctx.floor("R1", "dispatcher worker loops", len(workers), 1)
    for f in workers:
        sp = [bb for bb, t in calls(f, r"Runtime::with_current$|compio_dispatcher::Spawnable::spawn$")]
        de = [bb for bb, t in calls(f, r"JoinHandle::<T>::detach$")]
        aw = [bb for bb, t in calls(f, r"core::future::future::Future::poll$") if t.get("ga") and "JoinHandle" in t["ga"][0]]
        rc = [bb for bb, t in calls(f, r"recv_async$")]
        ok = bool(sp) and bool(de) and bool(aw) and bool(rc)
        if ok:
            # from the spawn, the next recv_async is not reachable without detach or await
            reach = f.cfg.reach_set([sp[0]], avoid=set(de) | set(aw))
            ok = not any(r in reach for r in rc) and not any(r in reach for r in f.cfg.returns)
        ctx.ob("R1", "handle-detached-or-awaited", ok,
               "after spawning a dispatched task the worker detaches its handle or awaits it on every path back to the "
               "receive (never an implicit drop, which would cancel the task)", f)
        # the loop is left only through the Err result of the receive (channel closed *and* drained)
        from ..util import loop_exits, value_switches
        rp = [(bb, t) for bb, t in calls(f, r"core::future::future::Future::poll$") if t.get("ga") and "RecvFut" in t["ga"][0]]
        okx = False
        detail = "receive poll not found"
        if rp:
            le = loop_exits(f, rp[0][0])
            if le is None:
                detail = "the receive is not in a loop"
            else:
                scc, exits = le
                sws = {sw["bb"] for sw in value_switches(f, rp[0][1]["dst"]["l"])}
                bad = [(s_, t_) for s_, t_ in exits if s_ not in sws]
                okx = bool(exits) and not bad
                detail = "%d loop exit(s), all on the receive result" % len(exits) if okx else \
                    "loop exit(s) not decided by the receive result: %s" % ", ".join("bb%d->bb%d" % e for e in bad)
        ctx.ob("R1", "worker-leaves-only-on-closed-and-drained-channel", okx,
               "the worker loop is left only through the Err result of recv_async (the channel reports Err only when every "
               "sender is gone AND the queue is empty, so every accepted closure is started): " + detail, f)
        ctx.ob("R1", "sequential-awaits-before-next", bool(aw) and bool(rc) and all(rc[0] in f.cfg.reach_set([a]) for a in aw),
               "in sequential mode the task is awaited to completion before the next one is received", f)
    jn = [f for f in db.fns.values() if f.id.startswith("compio_dispatcher::") and "::join::" in f.id and f.kind == "coroutine"]
    ctx.floor("R2", "Dispatcher::join body", len(jn), 1)
    for f in jn:
        dr = [bb for bb, t in calls(f, r"^core::mem::drop$") if t.get("ga") and "Sender" in t["ga"][0]]
        dp = [bb for bb, t in calls(f, r"asyncify::AsyncifyPool::dispatch$")]
        aw = [bb for bb, t in calls(f, r"core::future::future::Future::poll$") if t.get("ga") and "Receiver" in t["ga"][0]]
        ru = [bb for bb, t in calls(f, r"^std::panic::resume_unwind$")] + \
             [bb for bb, t in calls(f, r"Result::<T, E>::unwrap_or_else$")]
        ok = bool(dr) and bool(dp) and bool(aw) and f.cfg.dominates(dr[0], dp[0]) and f.cfg.dominates(dp[0], aw[0])
        ctx.ob("R2", "drop-sender-join-await", ok,
               "drop(sender) ≺ dispatch of the thread-joining closure ≺ await of its result (workers drain the queue and "
               "leave only after the channel is closed; join returns only after all threads were joined)", f)
        ctx.ob("R2", "worker-panic-resumed", bool(ru) and all(f.cfg.dominates(aw[0], b) for b in ru) if aw else False,
               "each thread's join result is unwrapped with resume_unwind", f)
        sp = [bb for bb, t in calls(f, r"^std::thread::(functions::)?spawn$")]
        ctx.ob("R2", "join-closure-never-dropped", bool(sp) and all(guarded_by_variant(f, b, r"AsyncifyPool::dispatch$", 1) is not None for b in sp),
               "if the pool is saturated the joining closure runs on a fresh thread instead of being dropped", f)
    ds = db.methods(self_adt=r"^compio_dispatcher::Dispatcher$", name="dispatch", trait="")
    if not ds:
        ctx.missing("R3", "Dispatcher::dispatch")
    for f in ds:
        sd = [bb for bb, t in calls(f, r"^flume::Sender::<T>::send$")]
        errs = [(bi, s) for bi, si, s in f.stmts() if s.get("r", {}).get("k") == "agg" and s["r"].get("adt") == "core::result::Result" and s["r"].get("var") == "Err" and s["a"]["l"] == 0]
        ok = len(sd) == 1 and len(errs) == 1
        if ok:
            p = op_place(errs[0][1]["r"]["ops"][0])
            locs, cr, places = data_deps(f, p["l"])
            ok = any(call_matches(ct, r"Box::<T>::into_raw$") for _, ct in cr) and \
                guarded_by_variant(f, errs[0][0], r"^flume::Sender::<T>::send$", 1) is not None
        ctx.ob("R3", "rejected-closure-handed-back", ok,
               "when the channel is closed the DispatchError carries the original closure recovered from the send error", f)
    sp = [f for f in db.fns.values() if f.id.startswith("compio_dispatcher::") and f.kind == "coroutine" and calls(f, r"oneshot::Sender::<T>::send$")]
    ctx.floor("R3", "spawned task bodies", len(sp), 1)
    for f in sp:
        sd = [bb for bb, t in calls(f, r"oneshot::Sender::<T>::send$")]
        pl = [bb for bb, t in calls(f, r"core::future::future::Future::poll$")]
        ctx.ob("R3", "result-sent-after-completion", bool(pl) and all(f.cfg.dominates(pl[0], b) for b in sd) and len(sd) == 1,
               "the task's result is sent to its own oneshot receiver, once, after the closure's future completed", f)


def check(tier):
    return engine.run("C18", tier, rules, NOT_DECIDED, [])
