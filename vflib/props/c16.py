"""C16 — QUIC: pending futures are never stranded (structural clauses)."""
import re

from .. import engine
from ..facts import call_matches, op_place, rvalue_places
from ..util import (Summaries, calls, dominated_by_any, receiver_field, arg_origin_calls, data_deps)
from ..opcodes import fields_written, fields_read

NOT_DECIDED = ("ordered, exactly-once delivery of stream bytes and datagrams, flow-control behaviour (quinn-proto's job); "
               "the rules decide that closing wakes every parked future and that nobody parks after the error was set")

CS = "compio_quic::connection::ConnectionState"
W = "core::task::wake::Waker"


def rules(ctx, db):
    R = ctx.rule
    R("R1", "COVER", "terminate() drains every waker table of the connection state (the worker's own poller is woken by close()/wake())")
    R("R2", "ORD", "every site that parks a waker in a connection waker table has read the connection error first (under the same lock)")
    R("R3", "COVER", "the quinn event dispatch has an arm for every event kind and each arm wakes a waker table or terminates")

    a = db.adts.get(CS)
    if a is None:
        if any(f.id.startswith("compio_quic::") for f in db.fns.values()):
            ctx.missing("R1", "struct ConnectionState")
        return
    wf = [fl["name"] for _, fl in db.adt_fields(a) if W in fl["adts"]]
    ctx.floor("R1", "waker-bearing fields of ConnectionState", len(wf), 8)
    term = db.methods(self_adt="^" + CS + "$", name="terminate", trait="")
    if not term:
        ctx.missing("R1", "ConnectionState::terminate")
    for f in term:
        touched = fields_written(db, f, CS, depth=2) | {x for x in fields_read(db, f, CS, depth=2)}
        mut = fields_written(db, f, CS, depth=2)
        for fld in wf:
            if fld == "poller":
                continue
            ctx.ob("R1", "terminate-drains:" + fld, fld in mut,
                   "terminate() takes / drains `%s`: a future parked there when the connection dies must be woken to "
                   "observe the error" % fld, f)
        ctx.ob("R1", "terminate-sets-error-first", _error_set_first(f),
               "the error is stored before any waker is woken (a woken future must find it)", f)
    cl = db.methods(self_adt="^" + CS + "$", name="close", trait="")
    for f in cl:
        t1 = [bb for bb, _ in calls(f, r"ConnectionState::terminate$")]
        t2 = [bb for bb, _ in calls(f, r"ConnectionState::wake$")]
        ctx.ob("R1", "close-terminates-and-wakes-worker", bool(t1) and bool(t2) and f.cfg.postdominates(t1[0], 0) and f.cfg.postdominates(t2[0], 0),
               "close() terminates (waking every parked future) and wakes the connection worker", f)
    wk = db.methods(self_adt="^" + CS + "$", name="wake", trait="")
    for f in wk:
        ctx.ob("R1", "wake-takes-poller", "poller" in fields_written(db, f, CS, depth=1), "wake() takes the worker's poller waker", f)

    # ---------------- R2 park sites
    sites = []
    for f in db.fns.values():
        if not f.id.startswith("compio_quic::"):
            continue
        clones = [bb for bb, t in calls(f, r"<core::task::wake::Waker as core::clone::Clone>::clone$|core::clone::Clone::clone$")
                  if t.get("ga") and t["ga"][0].endswith("Waker")]
        if not clones:
            continue
        clone_dsts = {f.blocks[b]["t"]["dst"]["l"] for b in clones}
        der = f.cfg.derived_locals(clone_dsts, through_calls=lambda t: None)
        # (a) assignment into a waker field
        for bi, si, s in f.stmts():
            if "a" not in s:
                continue
            flds = [e[2] for e in s["a"]["p"] if isinstance(e, list) and e[0] == "f" and e[3] == CS]
            if flds and flds[0] in wf and any(p["l"] in der for p in rvalue_places(s["r"])):
                sites.append((f, bi, flds[0]))
        # (b) push_back / insert on a waker field with the cloned waker as an argument
        for bb, t in f.calls():
            if not call_matches(t, r"::(push_back|push_front|insert|push)$"):
                continue
            if not any((op_place(x) or {}).get("l") in der for x in t.get("args", [])[1:]):
                continue
            rf = [x for x in _recv_fields(f, t) if x in wf]
            if rf:
                sites.append((f, bb, rf[0]))
    ctx.floor("R2", "waker park sites in compio-quic", len(sites), 10)
    for f, bb, fld in sites:
        if fld == "poller":
            ctx.ob("R2", "park:%s@%s" % (fld, db.root_fn(f).name), True,
                   "the worker's own poller: woken by wake()/close(), the worker re-checks is_drained itself", f)
            continue
        ts = [b for b, _ in calls(f, r"ConnectionInner::try_state$")]
        er = []
        for bi, si, s in f.stmts():
            if "a" in s:
                for p in rvalue_places(s["r"]):
                    if any(isinstance(e, list) and e[0] == "f" and e[2] == "error" and e[3] == CS for e in p["p"]):
                        er.append(bi)
        ok = dominated_by_any(f, ts + er, bb, strict=False) is not None
        if not ok and f.kind in ("closure", "coroutine"):
            # the lock was taken (and the error checked) by the enclosing function, which lends `state` to this closure
            g = f
            while not ok and g.parent and g.parent in db.fns:
                g = db.fns[g.parent]
                ok = bool(calls(g, r"ConnectionInner::try_state$"))
        ctx.ob("R2", "park:%s@%s" % (fld, db.root_fn(f).name), ok,
               "before a waker is stored in `%s` the connection error is checked (try_state() or state.error) in the same "
               "critical section; otherwise a future that parks after terminate() drained the table waits forever" % fld, f)

    # ---------------- R1/R2 for the endpoint: close() completes every pending accept
    ES = "compio_quic::endpoint::EndpointState"
    es = db.adts.get(ES)
    if es is None:
        ctx.missing("R1", "struct EndpointState")
    else:
        ewf = [fl["name"] for _, fl in db.adt_fields(es) if W in fl["adts"]]
        ctx.floor("R1", "waker-bearing fields of EndpointState", len(ewf), 1)
        cls = [f for f in db.fns.values() if f.name == "compio_quic::endpoint::Endpoint::close"]
        if not cls:
            ctx.missing("R1", "Endpoint::close")
        for f in cls:
            mut = fields_written(db, f, ES, depth=1)
            for fld in ewf:
                ctx.ob("R1", "endpoint-close-drains:" + fld, fld in mut,
                       "Endpoint::close() wakes every task parked in `%s`" % fld, f)
            ctx.ob("R1", "endpoint-close-records-reason-first", "close" in mut and bool(calls(f, r"flume::Sender::<T>::send$|Sender::<T>::send$")),
                   "close() records the close reason (so later accepts end) and notifies every connection", f)
        for f in db.fns.values():
            if not f.id.startswith("compio_quic::endpoint::"):
                continue
            for bb, t in f.calls():
                if not call_matches(t, r"::(push_back|push_front|insert|push)$"):
                    continue
                p0 = op_place(t["args"][0]) if t.get("args") else None
                flds = []
                if p0 is not None:
                    flds = [e[2] for e in p0["p"] if isinstance(e, list) and e[0] == "f" and e[3] == ES]
                    for r_ in f.cfg.origins(p0["l"], follow_fields=True):
                        if r_[0] == "place":
                            flds += [e[2] for e in r_[3]["p"] if isinstance(e, list) and e[0] == "f" and e[3] == ES]
                hit = [x for x in flds if x in ewf]
                if not hit:
                    continue
                reads = [bi for bi, si, s in f.stmts() if "a" in s and any(
                    any(isinstance(e, list) and e[0] == "f" and e[2] == "close" and e[3] == ES for e in pl["p"]) for pl in rvalue_places(s["r"]))]
                reads += [b2 for b2, t2 in f.calls() if any((op_place(a) or {"p": []})["p"] and any(isinstance(e, list) and e[0] == "f" and e[2] == "close" and e[3] == ES for e in op_place(a)["p"]) for a in t2.get("args", []) if op_place(a))]
                ctx.ob("R2", "park:%s@%s" % (hit[0], db.root_fn(f).name), dominated_by_any(f, reads, bb, strict=False) is not None,
                       "a task parks in `%s` only after checking that the endpoint is not closed" % hit[0], f)

    # an event concerns every waiter of its table: waker queues are drained, never popped one at a time
    for f in db.fns.values():
        if not f.id.startswith("compio_quic::"):
            continue
        for bb, t in f.calls():
            if not call_matches(t, r"VecDeque::<.*>::(pop_front|pop_back|remove|swap_remove_back|swap_remove_front)$"):
                continue
            if not (t.get("ga") and t["ga"][0].endswith("task::wake::Waker")):
                continue
            ctx.ob("R3", "waker-queue-popped-one-at-a-time:" + db.root_fn(f).name, False,
                   "a queue of parked wakers is woken as a whole (drain): one protocol event (e.g. one MAX_STREAMS frame) can "
                   "serve several waiters, and waking only the first leaves the others stranded until the next event", f)

    # ---------------- R3 event dispatch
    ev = db.adts.get("quinn_proto::connection::Event") or db.adts.get("quinn_proto::Event")
    runs = [f for f in db.fns.values() if f.id.startswith("compio_quic::connection::") and "run" in f.id and calls(f, r"quinn_proto::connection::Connection::poll$")]
    ctx.floor("R3", "functions polling quinn events", len(runs), 1)
    for f in runs:
        pl = calls(f, r"quinn_proto::connection::Connection::poll$")
        ok = False
        for bb, t in pl:
            # a switch on the discriminant of the polled event with no reachable `otherwise` arm
            dst = t["dst"]["l"]
            from ..util import value_switches
            sws = [sw for sw in value_switches(f, dst) if sw["kind"] == "discr"]
            for sw in sws:
                ow = sw["otherwise"]
                if f.blocks[ow]["t"]["k"] == "unreachable" and len(sw["targets"]) >= 5:
                    ok = True
        ctx.ob("R3", "event-match-exhaustive", ok,
               "the match over quinn_proto::Event lists every variant explicitly (no wildcard arm that would swallow a new "
               "or forgotten event)", f)
        ctx.ob("R3", "connection-lost-terminates", bool(calls(f, r"ConnectionState::terminate$")), "ConnectionLost reaches terminate()", f)


def _recv_fields(f, t):
    out = []
    p = op_place(t["args"][0]) if t.get("args") else None
    if p is None:
        return out
    out.extend(e[2] for e in p["p"] if isinstance(e, list) and e[0] == "f" and e[3] == CS)
    for r in f.cfg.origins(p["l"], follow_fields=True, through_calls=lambda t2: 0 if call_matches(t2, r"::(deref_mut|deref|index_mut|index|get_mut|as_mut)$") else None):
        if r[0] == "place":
            out.extend(e[2] for e in r[3]["p"] if isinstance(e, list) and e[0] == "f" and e[3] == CS)
    return out


def _error_set_first(f):
    ws = [bi for bi, si, s in f.stmts() if "a" in s and any(isinstance(e, list) and e[0] == "f" and e[2] == "error" and e[3] == CS for e in s["a"]["p"])]
    wakes = [bb for bb, t in f.calls() if call_matches(t, r"Waker::wake$|wake_all_streams$|::for_each$")]
    return bool(ws) and all(f.cfg.dominates(ws[0], w) for w in wakes)


TX = re.compile(r"^quinn_proto::connection::(streams::(send::)?SendStream::<'\w+>::(write|write_chunks|finish|reset)|"
                r"streams::(recv::)?RecvStream::<'\w+>::stop|streams::recv::Chunks::<'\w+>::finalize|"
                r"datagrams::Datagrams::<'\w+>::send|Connection::(close|set_max_concurrent_streams|set_receive_window|set_send_window))$")


def rule_tx_wakes(ctx, db):
    """R4: whoever asks quinn-proto to queue something for transmission wakes the connection worker."""
    R = ctx.rule
    R("R4", "MPT(may)", "every function that makes quinn-proto queue data or a control frame for transmission (stream write / "
      "finish / reset / stop, read credit, datagram send, close, limit updates) wakes the connection worker — itself or in "
      "the helper it hands its closure to: otherwise the bytes wait for an unrelated event")
    if not any(f.id.startswith("compio_quic::") for f in db.fns.values()):
        return
    wake = Summaries(db, r"ConnectionState::wake$", depth=3)
    n = 0
    for f in db.fns.values():
        if not f.id.startswith("compio_quic::"):
            continue
        tx = [(bb, t) for bb, t in f.calls() if TX.match(t.get("rfn") or t.get("fn") or "")]
        if not tx:
            continue
        n += 1
        ok = wake.may(f)
        how = "wakes the worker itself"
        if not ok and f.kind == "closure":
            # the closure is handed to a helper (execute_poll_write / execute_poll_read) that performs the call and wakes
            par = db.fns.get(f.parent) if f.parent else None
            seen = set()
            while par is not None and par.id not in seen and not ok:
                seen.add(par.id)
                for bb, t in par.calls():
                    for a in t.get("args", []):
                        pl = op_place(a)
                        if pl is None:
                            continue
                        for r in par.cfg.origins(pl["l"]):
                            if r[0] == "agg" and r[3]["r"].get("def") == f.id or (r[0] == "agg" and r[3]["r"].get("x") in ("closure",) and
                                                                                 _encloses(db, r[3]["r"].get("def"), f.id)):
                                if any(wake.may(db.body_of(g)) for g in db.callee_fns(t)):
                                    ok = True
                                    how = "is run by " + (t.get("fn") or "?") + ", which wakes the worker"
                par = db.fns.get(par.parent) if par.parent else None
        names = sorted({(t.get("rfn") or t.get("fn")).rsplit("::", 1)[-1] for _, t in tx})
        ctx.ob("R4", "tx-wakes-worker:%s[%s]" % (db.root_fn(f).name, ",".join(names)), ok,
               how if ok else "queues %s for transmission but no wake of the connection worker follows" % ",".join(names), f)
        # must-form: where the function wakes itself, the wake lies on EVERY path from the success of the call to a return
        wb = set(wake.event_blocks(f, "may"))
        if wb:
            for bb, t in tx:
                nm = (t.get("rfn") or t.get("fn")).rsplit("::", 1)[-1]
                starts = _success_starts(f, bb, t)
                leak = any(any(r in f.cfg.reach_from_block(s0, avoid=wb) for r in f.cfg.returns) for s0 in starts if s0 not in wb)
                ctx.ob("R4", "tx-success-always-wakes:%s[%s]" % (db.root_fn(f).name, nm), not leak,
                       "from the successful `%s` (or its `should_transmit()` answer) every path to a return passes the wake" % nm
                       if not leak else "a path from the successful `%s` reaches a return without waking the connection worker" % nm, f)
    ctx.floor("R4", "functions that queue something for transmission", n, 8)


def _success_starts(f, bb, t):
    """Blocks from which the wake is owed: the `should_transmit() == true` target when the call's result is asked that
    question, else the Ok/Continue targets of switches on the call's result, else the call's own successor."""
    from ..util import discr_edges, bool_edges
    st = calls(f, r"ShouldTransmit::should_transmit$")
    dst = t["dst"]["l"]
    for sb, stt in st:
        pl = op_place(stt["args"][0])
        if pl is not None and dst in data_deps(f, pl["l"])[0] | {pl["l"]}:
            return [tt for (_, tt, ft) in bool_edges(f, sb) if tt is not None]
    from ..util import flow_call

    def through(tt):
        # the Ok/Err-ness of a Result survives map_err / `?`; follow it
        if call_matches(tt, r"Result::<T, E>::map_err$|Try::branch$|Result::<T, E>::inspect_err$|Result::<T, E>::or_else$"):
            return 0
        return flow_call(tt)
    # locals holding the call's result itself (whole-value copies / moves and the adaptors above; NOT its payload fields)
    same = {dst}
    changed = True
    while changed:
        changed = False
        for b in f.blocks:
            for st_ in b["st"]:
                if "a" not in st_ or st_["a"]["p"]:
                    continue
                r = st_["r"]
                if r.get("k") == "use" and r.get("ops"):
                    pl = op_place(r["ops"][0])
                    if pl is not None and not pl["p"] and pl["l"] in same and st_["a"]["l"] not in same:
                        same.add(st_["a"]["l"])
                        changed = True
            tt = b["t"]
            if tt["k"] == "call" and through(tt) is not None and tt.get("args"):
                pl = op_place(tt["args"][0])
                if pl is not None and not pl["p"] and pl["l"] in same and tt["dst"]["l"] not in same:
                    same.add(tt["dst"]["l"])
                    changed = True
    discr = {}
    for b in f.blocks:
        for st_ in b["st"]:
            r = st_.get("r", {})
            if r.get("k") == "discr" and "pl" in r and not r["pl"]["p"] and r["pl"]["l"] in same:
                discr[st_["a"]["l"]] = True
    outs = []
    for b in f.blocks:
        tt = b["t"]
        if tt["k"] == "switch":
            pl = op_place(tt["op"])
            if pl is not None and pl["l"] in discr:
                tg = dict(tt["tg"])
                if "0" in tg:
                    outs.append(tg["0"])
    # `if call().is_ok() { .. }`
    for cb, ct in calls(f, r"Result::<T, E>::is_ok$"):
        pl = op_place(ct["args"][0])
        if pl is not None and (pl["l"] in same or same & data_deps(f, pl["l"])[0]):
            outs.extend(tt_ for (_, tt_, ft_) in bool_edges(f, cb) if tt_ is not None)
    if outs:
        return outs
    return [x for x in f.cfg.succ[bb]]


def _encloses(db, outer_id, inner_id):
    x = db.fns.get(inner_id)
    seen = set()
    while x is not None and x.id not in seen:
        if x.id == outer_id:
            return True
        seen.add(x.id)
        x = db.fns.get(x.parent) if x.parent else None
    return False


def rules_all(ctx, db):
    rules(ctx, db)
    rule_tx_wakes(ctx, db)


def check(tier):
    return engine.run("C16", tier, rules_all, NOT_DECIDED, [])
