"""C11 — I/O helpers: chunking / transient-error invariance (thin structural clauses)."""
import re

from .. import engine
from ..facts import call_matches, op_place, rvalue_places
from ..util import calls, data_deps
from .. import arith

NOT_DECIDED = ("byte-exactness of the transferred data for all chunkings, offsets and capacities (the core of C11 is an "
               "input-space quantity); only the loop skeleton of every helper is decided: progress is counted, the buffer is "
               "re-sliced by the running count, a zero transfer leaves the loop with the documented error kind, Interrupted retries")

IO_CALL = re.compile(r"^compio_io::(read|write)::(AsyncRead|AsyncReadAt|AsyncWrite|AsyncWriteAt)::"
                     r"(read|read_at|read_vectored|read_vectored_at|write|write_at|write_vectored|write_vectored_at)$")
EXACT = re.compile(r"::(read_exact|read_exact_at|read_vectored_exact|read_vectored_exact_at|write_all|write_all_at|"
                   r"write_vectored_all|write_vectored_all_at|read_to_end|read_to_end_at)::\{closure#0\}$")


def in_cycle(f, bb):
    return bb in f.cfg.reach_set([bb])


def rules(ctx, db):
    R = ctx.rule
    R("R1", "LOOP", "every exact / all / to-end helper: the running count is increased by what the I/O call returned, and "
      "the next I/O call gets the buffer re-sliced from that count")
    R("R2", "GUARD", "a zero-length transfer leaves the loop (UnexpectedEof for exact reads, WriteZero for write-all, normal "
      "end for read-to-end) and ErrorKind::Interrupted goes round the loop again")

    if not any(f.id.startswith("compio_io::") for f in db.fns.values()):
        return
    loops = []
    for f in db.fns.values():
        if not f.id.startswith("compio_io::") or f.kind != "coroutine":
            continue
        if not EXACT.search(f.id) and not EXACT.search(f.name):
            continue
        ios = [(bb, t) for bb, t in f.calls() if call_matches(t, IO_CALL) and in_cycle(f, bb)]
        if ios:
            loops.append((f, ios))
    ctx.floor("R1", "exact/all/to-end helper loops", len(loops), 8)
    for f, ios in loops:
        name = db.root_fn(f).name
        iob = ios[0][0]
        cyc = f.cfg.reach_set([iob]) & {b for b in range(len(f.blocks)) if iob in f.cfg.reach_set([b])} | {iob}
        # (a) an Add in the cycle fed by the awaited result
        adds = []
        for bi in cyc:
            for s in f.blocks[bi]["st"]:
                r = s.get("r", {})
                if r.get("k") == "bin" and r.get("x", "").startswith("Add"):
                    for o in r["ops"]:
                        p = op_place(o)
                        if p is None:
                            continue
                        locs, cr, _ = data_deps(f, p["l"])
                        if any(call_matches(ct, r"core::future::future::Future::poll$") for _, ct in cr):
                            adds.append((bi, s["a"]["l"]))
        ctx.ob("R1", "progress-counted:" + name, bool(adds),
               "inside the loop a counter is increased by the count the I/O call returned", f)
        # (b) the I/O call's buffer argument is a slice whose start derives from that counter
        sl = [(bb, t) for bb, t in f.calls() if call_matches(t, r"(IoBufExt::slice|IoVectoredBuf::slice|IoVectoredBufMut::slice_mut|IoBufExt::uninit)$") and bb in cyc]
        ok = False
        tracked = set()
        for bi, l in adds:
            tracked |= f.cfg.derived_locals({l}, through_calls=lambda t: 0 if call_matches(t, r"::into$|::from$|RangeFrom") else None)
        for bb, t in sl:
            for a in t["args"][1:]:
                p = op_place(a)
                if p is None:
                    continue
                locs, cr, _ = data_deps(f, p["l"])
                if locs & tracked:
                    ok = True
        ctx.ob("R1", "buffer-resliced-by-count:" + name, ok,
               "the buffer handed to the next I/O call is sliced from the running count (bytes already transferred are "
               "neither overwritten nor sent twice)", f)
        # R2 zero transfer exits
        zero_exit = False
        for bi in cyc:
            t = f.blocks[bi]["t"]
            if t["k"] == "switch" and t.get("oty") == "usize":
                tg = dict(t["tg"])
                z = tg.get("0")
                if z is not None and iob not in f.cfg.reach_from_block(z, avoid=set()) or \
                        (z is not None and any(r in f.cfg.reach_from_block(z, avoid={iob}) for r in f.cfg.returns)):
                    zero_exit = True
        ctx.ob("R2", "zero-transfer-leaves-loop:" + name, zero_exit,
               "`Ok(0)` is matched and leads out of the loop (no endless retry at end-of-file / on a full sink)", f)
        kinds = set()
        for bi, si, s in f.stmts():
            r = s.get("r", {})
            if r.get("k") == "agg" and (r.get("adt") or "").endswith("io::error::ErrorKind"):
                kinds.add(r.get("var"))
        for bb, t in f.calls():
            for a in t.get("args", []):
                m = re.search(r"ErrorKind::(\w+)", a.get("k", ""))
                if m:
                    kinds.add(m.group(1))
        fam = "read_to_end" if "read_to_end" in name else ("read" if "read" in name else "write")
        want = {"read": "UnexpectedEof", "write": "WriteZero"}.get(fam)
        if want:
            ctx.ob("R2", "documented-error-kind:" + name, want in kinds,
                   "a premature end is reported as %s" % want, f)
        intr = False
        for bi in cyc:
            t = f.blocks[bi]["t"]
            if t["k"] == "switch":
                tg = dict(t["tg"])
                # ErrorKind::Interrupted discriminant
                for v, tb in tg.items():
                    if v == "35" and iob in f.cfg.reach_from_block(tb, avoid=set(f.cfg.returns)):
                        intr = True
        from ..util import bool_edges
        for bb, t in f.calls():
            if call_matches(t, r"core::cmp::PartialEq::eq$") and t.get("ga") and t["ga"][0].endswith("io::error::ErrorKind"):
                # one side is the Interrupted constant
                isint = False
                for a in t["args"]:
                    p = op_place(a)
                    if p is None:
                        continue
                    locs, cr, places = data_deps(f, p["l"])
                    for l in locs:
                        for d in f.cfg.defs.get(l, []):
                            if d[0] == "assign" and d[3]["r"].get("k") == "agg" and d[3]["r"].get("var") == "Interrupted":
                                isint = True
                    if "Interrupted" in (a.get("k") or ""):
                        isint = True
                # (the constant usually is a promoted `&ErrorKind::Interrupted`, whose value the facts do not carry:
                #  accept a comparison of the error's kind() that decides between 'go round again' and 'return')
                for a in t["args"]:
                    p = op_place(a)
                    if p is not None and any(call_matches(ct, r"io::error::Error::kind$") for _, ct in data_deps(f, p["l"])[1]):
                        isint = True
                if isint:
                    for (sbb, tt, ft) in bool_edges(f, bb):
                        if iob in f.cfg.reach_from_block(tt, avoid=set(f.cfg.returns)):
                            intr = True
        ctx.ob("R2", "interrupted-retries:" + name, intr and bool(calls(f, r"std::io::error::Error::kind$")),
               "an Interrupted error goes round the loop again instead of being returned", f)


SCOPE = ("compio_io::read::", "compio_io::write::", "compio_io::util::", "compio_io::buffer::")


def rule_arith(ctx, db):
    """R3: no in-memory reader / writer / cursor / Take / Buffer operation can panic on a position, length or limit:
    every checked subtraction `a - b` and every open-ended slice index `x[b..]` / `x[..b]` is preceded by one of
    the repository's idioms that establish b <= a (see vflib/arith.py)."""
    R = ctx.rule
    R("R3", "GUARD/arith", "in the in-memory readers, writers and cursors, Take and Buffer every checked subtraction and every "
      "open-ended slice index is justified: a dominating comparison, a min() clamp, the length of a re-slice, or the count "
      "of a copy helper bounded by the source length (positions beyond the end and odd capacities cannot panic)")
    if not any(f.id.startswith("compio_io::") for f in db.fns.values()):
        return
    n = 0
    per_fn = {}
    for f in db.fns.values():
        if not f.id.startswith(SCOPE):
            continue
        sg = None
        for st in arith.sites(f):
            if sg is None:
                sg = arith.Sigs(f)
            if st[0] == "sub":
                _, bb, a, b, ln = st
                j = arith.justify(db, f, sg, a, b, bb)
                what = "subtraction"
            else:
                _, bb, tgt, bound, kind, ln = st
                j = arith.justify(db, f, sg, None, bound, bb, a_is_len_of=sg.operand(tgt))
                what = "index-" + kind
            k = (db.root_fn(f).name, what)
            per_fn[k] = per_fn.get(k, 0) + 1
            n += 1
            ctx.ob("R3", "justified:%s:%s#%d" % (db.root_fn(f).name, what, per_fn[k]), j is not None,
                   "%s at line %s: %s" % (what, ln, j or "no comparison / min() / re-slice / bounded count establishes that the "
                                          "subtrahend (or index bound) cannot exceed the minuend (or the slice length): "
                                          "some position, length or capacity makes this panic"), f)
    ctx.floor("R3", "checked subtractions / open-ended indexes in scope", n, 25)


def rules_all(ctx, db):
    rules(ctx, db)
    rule_arith(ctx, db)


def check(tier):
    return engine.run("C11", tier, rules_all, NOT_DECIDED, [])
