"""C11 — I/O helpers: chunking / transient-error invariance (thin structural clauses)."""
import re

from .. import engine
from ..facts import call_matches, op_place, rvalue_places
from ..util import calls, data_deps
from .. import arith

NOT_DECIDED = ("byte-exactness of the transferred data for all chunkings, offsets and capacities (the core of C11 is an "
               "input-space quantity); only the loop skeleton of every helper is decided: progress is counted, the buffer is "
               "re-sliced by the running count, a zero transfer leaves the loop with the documented error kind, Interrupted retries")

IO_CALL = re.compile(r"^compio_io::(read|write)::(AsyncRead|AsyncReadAt|AsyncWrite|AsyncWriteAt)::"
                     r"(read|read_at|read_vectored|read_vectored_at|write|write_at|write_vectored|write_vectored_at)$")
EXACT = re.compile(r"::(read_exact|read_exact_at|read_vectored_exact|read_vectored_exact_at|write_all|write_all_at|"
                   r"write_vectored_all|write_vectored_all_at|read_to_end|read_to_end_at)::\{closure#0\}$")


def in_cycle(f, bb):
    return bb in f.cfg.reach_set([bb])


def rules(ctx, db):
    R = ctx.rule
    R("R1", "LOOP", "every exact / all / to-end helper: the running count is increased by what the I/O call returned, and "
      "the next I/O call gets the buffer re-sliced from that count")
    R("R2", "GUARD", "a zero-length transfer leaves the loop (UnexpectedEof for exact reads, WriteZero for write-all, normal "
      "end for read-to-end) and ErrorKind::Interrupted goes round the loop again")

    if not any(f.id.startswith("compio_io::") for f in db.fns.values()):
        return
    loops = []
    for f in db.fns.values():
        if not f.id.startswith("compio_io::") or f.kind != "coroutine":
            continue
        if not EXACT.search(f.id) and not EXACT.search(f.name):
            continue
        ios = [(bb, t) for bb, t in f.calls() if call_matches(t, IO_CALL) and in_cycle(f, bb)]
        if ios:
            loops.append((f, ios))
    ctx.floor("R1", "exact/all/to-end helper loops", len(loops), 8)
    for f, ios in loops:
        name = db.root_fn(f).name
        iob = ios[0][0]
        cyc = f.cfg.reach_set([iob]) & {b for b in range(len(f.blocks)) if iob in f.cfg.reach_set([b])} | {iob}
        # (a) an Add in the cycle fed by the awaited result
        adds = []
        for bi in cyc:
            for s in f.blocks[bi]["st"]:
                r = s.get("r", {})
                if r.get("k") == "bin" and r.get("x", "").startswith("Add"):
                    for o in r["ops"]:
                        p = op_place(o)
                        if p is None:
                            continue
                        locs, cr, _ = data_deps(f, p["l"])
                        if any(call_matches(ct, r"core::future::future::Future::poll$") for _, ct in cr):
                            adds.append((bi, s["a"]["l"]))
        ctx.ob("R1", "progress-counted:" + name, bool(adds),
               "inside the loop a counter is increased by the count the I/O call returned", f)
        # (b) the I/O call's buffer argument is a slice whose start derives from that counter
        sl = [(bb, t) for bb, t in f.calls() if call_matches(t, r"(IoBufExt::slice|IoVectoredBuf::slice|IoVectoredBufMut::slice_mut|IoBufExt::uninit)$") and bb in cyc]
        ok = False
        tracked = set()
        for bi, l in adds:
            tracked |= f.cfg.derived_locals({l}, through_calls=lambda t: 0 if call_matches(t, r"::into$|::from$|RangeFrom") else None)
        for bb, t in sl:
            for a in t["args"][1:]:
                p = op_place(a)
                if p is None:
                    continue
                locs, cr, _ = data_deps(f, p["l"])
                if locs & tracked:
                    ok = True
        ctx.ob("R1", "buffer-resliced-by-count:" + name, ok,
               "the buffer handed to the next I/O call is sliced from the running count (bytes already transferred are "
               "neither overwritten nor sent twice)", f)
        if "read_to_end" in name:
            # the slice also starts behind what the buffer held before the loop: a length taken outside the cycle
            base = False
            for bb, t in sl:
                for a in t["args"][1:]:
                    p = op_place(a)
                    if p is None:
                        continue
                    locs, cr, _pl = data_deps(f, p["l"])
                    for cb, ct in cr:
                        if call_matches(ct, r"Vec::<T, A>::len$|::buf_len$") and cb not in cyc:
                            base = True
            ctx.ob("R1", "read-to-end-appends:" + name, base,
                   "the first read starts at the buffer's initial length (taken before the loop): bytes already in the buffer "
                   "are kept and the new ones appended", f)
        # R2 zero transfer exits
        zero_exit = False
        for bi in cyc:
            t = f.blocks[bi]["t"]
            if t["k"] == "switch" and t.get("oty") == "usize":
                tg = dict(t["tg"])
                z = tg.get("0")
                if z is not None and iob not in f.cfg.reach_from_block(z, avoid=set()) or \
                        (z is not None and any(r in f.cfg.reach_from_block(z, avoid={iob}) for r in f.cfg.returns)):
                    zero_exit = True
        ctx.ob("R2", "zero-transfer-leaves-loop:" + name, zero_exit,
               "`Ok(0)` is matched and leads out of the loop (no endless retry at end-of-file / on a full sink)", f)
        kinds = set()
        for bi, si, s in f.stmts():
            r = s.get("r", {})
            if r.get("k") == "agg" and (r.get("adt") or "").endswith("io::error::ErrorKind"):
                kinds.add(r.get("var"))
        for bb, t in f.calls():
            for a in t.get("args", []):
                m = re.search(r"ErrorKind::(\w+)", a.get("k", ""))
                if m:
                    kinds.add(m.group(1))
        fam = "read_to_end" if "read_to_end" in name else ("read" if "read" in name else "write")
        want = {"read": "UnexpectedEof", "write": "WriteZero"}.get(fam)
        if want:
            ctx.ob("R2", "documented-error-kind:" + name, want in kinds,
                   "a premature end is reported as %s" % want, f)
        intr = False
        for bi in cyc:
            t = f.blocks[bi]["t"]
            if t["k"] == "switch":
                tg = dict(t["tg"])
                # ErrorKind::Interrupted discriminant
                for v, tb in tg.items():
                    if v == "35" and iob in f.cfg.reach_from_block(tb, avoid=set(f.cfg.returns)):
                        intr = True
        from ..util import bool_edges
        for bb, t in f.calls():
            if call_matches(t, r"core::cmp::PartialEq::eq$") and t.get("ga") and t["ga"][0].endswith("io::error::ErrorKind"):
                # one side is the Interrupted constant
                isint = False
                for a in t["args"]:
                    p = op_place(a)
                    if p is None:
                        continue
                    locs, cr, places = data_deps(f, p["l"])
                    for l in locs:
                        for d in f.cfg.defs.get(l, []):
                            if d[0] == "assign" and d[3]["r"].get("k") == "agg" and d[3]["r"].get("var") == "Interrupted":
                                isint = True
                    if "Interrupted" in (a.get("k") or ""):
                        isint = True
                # (the constant usually is a promoted `&ErrorKind::Interrupted`, whose value the facts do not carry:
                #  accept a comparison of the error's kind() that decides between 'go round again' and 'return')
                for a in t["args"]:
                    p = op_place(a)
                    if p is not None and any(call_matches(ct, r"io::error::Error::kind$") for _, ct in data_deps(f, p["l"])[1]):
                        isint = True
                if isint:
                    for (sbb, tt, ft) in bool_edges(f, bb):
                        if iob in f.cfg.reach_from_block(tt, avoid=set(f.cfg.returns)):
                            intr = True
        ctx.ob("R2", "interrupted-retries:" + name, intr and bool(calls(f, r"std::io::error::Error::kind$")),
               "an Interrupted error goes round the loop again instead of being returned", f)


SCOPE = ("compio_io::read::", "compio_io::write::", "compio_io::util::", "compio_io::buffer::")


def rule_arith(ctx, db):
    """R3: no in-memory reader / writer / cursor / Take / Buffer operation can panic on a position, length or limit:
    every checked subtraction `a - b` and every open-ended slice index `x[b..]` / `x[..b]` is preceded by one of
    the repository's idioms that establish b <= a (see vflib/arith.py)."""
    R = ctx.rule
    R("R3", "GUARD/arith", "in the in-memory readers, writers and cursors, Take and Buffer every checked subtraction and every "
      "open-ended slice index is justified: a dominating comparison, a min() clamp, the length of a re-slice, or the count "
      "of a copy helper bounded by the source length (positions beyond the end and odd capacities cannot panic)")
    if not any(f.id.startswith("compio_io::") for f in db.fns.values()):
        return
    n = 0
    per_fn = {}
    for f in db.fns.values():
        if not f.id.startswith(SCOPE):
            continue
        sg = None
        for st in arith.sites(f):
            if sg is None:
                sg = arith.Sigs(f)
            if st[0] == "sub":
                _, bb, a, b, ln = st
                j = arith.justify(db, f, sg, a, b, bb)
                what = "subtraction"
            else:
                _, bb, tgt, bound, kind, ln = st
                j = arith.justify(db, f, sg, None, bound, bb, a_is_len_of=sg.operand(tgt))
                what = "index-" + kind
            k = (db.root_fn(f).name, what)
            per_fn[k] = per_fn.get(k, 0) + 1
            n += 1
            ctx.ob("R3", "justified:%s:%s#%d" % (db.root_fn(f).name, what, per_fn[k]), j is not None,
                   "%s at line %s: %s" % (what, ln, j or "no comparison / min() / re-slice / bounded count establishes that the "
                                          "subtrahend (or index bound) cannot exceed the minuend (or the slice length): "
                                          "some position, length or capacity makes this panic"), f)
    ctx.floor("R3", "checked subtractions / open-ended indexes in scope", n, 25)


def _family(db, root_rx):
    rx = re.compile(root_rx)
    return [f for f in db.fns.values() if rx.search(db.root_fn(f).name)]


def _dep_calls(f, op):
    p = op_place(op)
    if p is None:
        return set(), [], []
    return data_deps(f, p["l"])


def _arg_depends_on_call(f, t, idx, pat):
    if idx >= len(t.get("args", [])):
        return False
    locs, cr, places = _dep_calls(f, t["args"][idx])
    return any(call_matches(ct, pat) for _, ct in cr)


def _arg_depends_on_field(f, t, idx, field):
    locs, cr, places = _dep_calls(f, t["args"][idx])
    return any(any(isinstance(e, list) and e[0] == "f" and e[2] == field for e in pl["p"]) for pl in places)


def _adds(f):
    for bi, si, st in f.stmts():
        r = st.get("r", {})
        if r.get("k") == "bin" and r.get("x", "").startswith("Add"):
            yield bi, st


def _subs(f):
    for bi, si, st in f.stmts():
        r = st.get("r", {})
        if r.get("k") == "bin" and r.get("x", "").startswith("Sub"):
            yield bi, st


def rule_cursors(ctx, db):
    """R5: position / progress / limit bookkeeping of Cursor, BufReader, BufWriter, Take, Buffer and `&[u8]`."""
    from ..util import guarded_by_bool
    R = ctx.rule
    R("R5", "same-value", "cursors move by what was transferred: Cursor reads/writes at position() and then sets position()+n; "
      "BufReader consumes exactly the count it handed out, refills only an exhausted buffer and appends at buf_len; BufWriter "
      "flushes before it appends at buf_len; Take clamps the request by its limit, stops at 0 and subtracts the transferred "
      "count; Buffer::advance re-slices at begin()+amount; `&[u8]` re-slices itself by the copied count")
    if not any(f.id.startswith("compio_io::") for f in db.fns.values()):
        return
    POLL = r"core::future::future::Future::poll$"
    # ---- Cursor
    cur = [f for f in db.fns.values() if f.kind == "coroutine" and re.match(r"<std::io::cursor::Cursor<A> as compio_io::(read::AsyncRead|write::AsyncWrite)>::(read|read_vectored|write|write_vectored)::", f.name)]
    ctx.floor("R5", "Cursor adapters", len(cur), 4)
    for f in cur:
        name = db.root_fn(f).name
        at = calls(f, r"compio_io::(read::AsyncReadAt|write::AsyncWriteAt)::\w+_at$")
        sp = calls(f, r"Cursor::<T>::set_position$")
        ok_at = bool(at) and all(_arg_depends_on_call(f, t, len(t["args"]) - 1, r"Cursor::<T>::position$") for _, t in at)
        ctx.ob("R5", "cursor-io-at-position:" + name, ok_at, "the positional call gets position() as its offset", f)
        ok_sp = False
        for bb, t in sp:
            locs, cr, places = _dep_calls(f, t["args"][1])
            has_pos = any(call_matches(ct, r"Cursor::<T>::position$") for _, ct in cr)
            has_res = any(call_matches(ct, POLL) for _, ct in cr)
            has_add = any(st["a"]["l"] in locs for _, st in _adds(f))
            if has_pos and has_res and has_add and at and all(f.cfg.dominates(ab, bb) for ab, _ in at):
                ok_sp = True
        ctx.ob("R5", "cursor-advances-by-count:" + name, ok_sp,
               "after the positional call completed the position becomes position() + n (n = what the call reported)", f)
    # ---- BufReader::read / read_vectored : consume(n) with n = the count handed to the caller
    for m in ("read", "read_vectored"):
        fam = _family(db, r"^<compio_io::read::buf::BufReader<R> as compio_io::read::AsyncRead>::%s$" % m)
        ok = False
        for f in fam:
            for bb, t in calls(f, r"AsyncBufRead::consume$|BufReader<R>.*::consume$"):
                p = op_place(t["args"][1])
                if p is None:
                    continue
                locs, cr, _pl = data_deps(f, p["l"])
                if f.kind == "closure" and 2 in locs:
                    ok = True          # `.map_res(|n| { self.consume(n); n })`: the closure's argument is the count
                if f.kind == "coroutine":
                    # `let BufResult(res, buf) = slice.read(buf).await; if let Ok(n) = res { self.consume(n) }`
                    for cb, ct in cr:
                        if call_matches(ct, POLL) and ct.get("ga") and not re.search(r"fill_buf", ct["ga"][0]):
                            ok = True
        if not fam:
            ctx.missing("R5", "BufReader::" + m)
        ctx.ob("R5", "bufreader-consumes-handed-out-count:" + m, ok,
               "the number of bytes copied to the caller (the closure's argument) is what is consumed from the buffer", fam[0] if fam else None)
    # ---- BufReader::fill_buf
    fam = _family(db, r"^<compio_io::read::buf::BufReader<R> as compio_io::read::buf::AsyncBufRead>::fill_buf$")
    co = [f for f in fam if f.kind == "coroutine"]
    if not co:
        ctx.missing("R5", "BufReader::fill_buf")
    for f in co:
        from ..util import guarded_everywhere
        n1, bad1 = guarded_everywhere(db, f, r"Buffer::<B>::reset$", r"Buffer::<B>::all_done$", True)
        ctx.ob("R5", "bufreader-reset-only-when-all-done", n1 > 0 and not bad1,
               "the buffer is reset only when every buffered byte was consumed (unread bytes are never discarded)" +
               ("" if not bad1 else ": unguarded in " + ", ".join(g.name for g, _ in bad1)), f)
        n2, bad2 = guarded_everywhere(db, f, r"Buffer::<B>::with$", r"Buffer::<B>::need_fill$", True)
        ctx.ob("R5", "bufreader-refills-only-when-empty", n2 > 0 and not bad2,
               "the inner reader is asked only when the buffer is empty", f)
    ok = False
    for f in fam:
        for bb, t in calls(f, r"IoBufExt::slice$"):
            if _arg_depends_on_call(f, t, 1, r"buf_len$"):
                ok = True
    ctx.ob("R5", "bufreader-fills-at-buf_len", ok, "the refill reads into the buffer sliced from its current length (nothing buffered is overwritten)", co[0] if co else None)
    # ---- BufWriter::write / write_vectored
    for m in ("write", "write_vectored"):
        fam = _family(db, r"^<compio_io::write::buf::BufWriter<W> as compio_io::write::AsyncWrite>::%s$" % m)
        co = [f for f in fam if f.kind == "coroutine"]
        if not co:
            ctx.missing("R5", "BufWriter::" + m)
            continue
        # the copy may live in a private helper of the module (one level)
        helpers = []
        for f in fam:
            for bb, t in f.calls():
                for g in db.callee_fns(t, expand_traits=False):
                    if g.id.startswith("compio_io::write::buf::") and g not in fam and g not in helpers:
                        helpers.append(db.body_of(g))
        ok = any(_arg_depends_on_call(f, t, 1, r"buf_len$") for f in fam + helpers for bb, t in calls(f, r"IoBufExt::slice$"))
        ctx.ob("R5", "bufwriter-appends-at-buf_len:" + m, ok, "new bytes are copied behind the bytes already buffered", co[0])
        f = co[0]
        fl = [bb for bb, _ in calls(f, r"BufWriter::<W>::flush_if_needed$")]
        ws = [bb for bb, _ in calls(f, r"Buffer::<B>::with_sync$")]
        ctx.ob("R5", "bufwriter-flushes-before-append:" + m, bool(fl) and bool(ws) and all(any(f.cfg.dominates(a, b) for a in fl) for b in ws),
               "flush_if_needed precedes the copy into the buffer", f)
    # ---- BufWriter::flush: the buffer is emptied into the inner writer and then the inner writer is flushed
    bf = [f for f in db.fns.values() if f.kind == "coroutine" and db.root_fn(f).name == "<compio_io::write::buf::BufWriter<W> as compio_io::write::AsyncWrite>::flush"]
    if not bf:
        ctx.missing("R5", "BufWriter::flush")
    for f in bf:
        ft = [bb for bb, _ in calls(f, r"Buffer::<B>::flush_to$")]
        inner = [bb for bb, _ in calls(f, r"compio_io::write::AsyncWrite::flush$")]
        ctx.ob("R5", "bufwriter-flush-reaches-the-inner-writer", bool(ft) and bool(inner) and all(any(f.cfg.dominates(a, b) for a in ft) for b in inner),
               "flush() first empties the buffer into the inner writer (flush_to) and then calls the inner writer's flush()", f)
    # ---- a reader that fills from index 0 records the length absolutely (advance_to), never relatively (advance)
    rel = []
    for f in db.fns.values():
        if not f.id.startswith(("compio_io::read::", "compio_io::util::")):
            continue
        if calls(f, r"SetLenExt::advance$"):
            rel.append(f)
    ctx.ob("R5", "readers-record-lengths-absolutely", not rel,
           "no reader / utility in compio-io calls the relative SetLenExt::advance (found in: %s); after filling a buffer from "
           "its start the new length is the count, not old length + count" % (", ".join(db.root_fn(f).name for f in rel) or "none"),
           rel[0] if rel else None)
    # ---- capacity 0 still leaves room for one byte
    for nm, fam_rx, callee in (("BufReader", r"^compio_io::read::buf::BufReader::<R>::with_capacity$", r"Buffer::with_capacity$"),
                               ("BufWriter", r"^compio_io::write::buf::BufWriter::<W>::with_capacity$", r"Buffer::with_capacity$"),
                               ("copy_with_size", r"^compio_io::util::copy::copy_with_size$", r"Vec::<T>::with_capacity$|Vec::<T, A>::with_capacity$")):
        fam = _family(db, fam_rx)
        if not fam:
            ctx.missing("R5", nm + " constructor")
            continue
        ok = False
        for f in fam:
            for bb, t in calls(f, callee):
                pl = op_place(t["args"][0])
                if pl is None:
                    continue
                locs, cr, _pl = data_deps(f, pl["l"])
                if any(call_matches(ct, r"core::cmp::Ord::max$") and any(str(a.get("v")) == "1" for a in ct["args"] if "k" in a) for _, ct in cr):
                    ok = True
        ctx.ob("R5", "capacity-at-least-one:" + nm, ok, "the internal buffer is created with max(capacity, 1) bytes: capacity 0 "
               "would make an empty refill look like EOF / accept nothing", fam[0])
    # ---- BufWriter::write: once the bytes are in the buffer the call cannot fail any more
    for m in ("write", "write_vectored"):
        fam = [f for f in _family(db, r"^<compio_io::write::buf::BufWriter<W> as compio_io::write::AsyncWrite>::%s$" % m) if f.kind == "coroutine"]
        for f in fam:
            ws = [bb for bb, _ in calls(f, r"Buffer::<B>::with_sync$")]
            if not ws:
                continue
            late = [bb for bb, t in calls(f, r"BufWriter::<W>::flush_if_needed$") if any(f.cfg.dominates(w, bb) for w in ws)]
            # the awaited result of a late flush must not reach the value the call returns
            ret_locs, ret_calls, _rp = data_deps(f, 0)
            bad = False
            for cb, ct in ret_calls:
                if call_matches(ct, POLL) and any(f.cfg.dominates(lb, cb) for lb in late):
                    bad = True
            ctx.ob("R5", "bufwriter-write-cannot-fail-after-accepting:" + m, bool(late) and not bad,
                   "after the bytes were copied into the buffer the trailing flush cannot turn the call into an error (a retry "
                   "of write_all / copy would buffer the same bytes twice)", f)
    # ---- Take
    tr = [f for f in db.fns.values() if f.kind == "coroutine" and f.name.startswith("<compio_io::util::take::Take<R> as compio_io::read::AsyncRead>::read::")]
    if not tr:
        ctx.missing("R5", "Take::read")
    for f in tr:
        rd = calls(f, r"compio_io::read::AsyncRead::read$")
        sl = calls(f, r"IoBufExt::slice$")
        ok_clamp = False
        for bb, t in sl:
            locs, cr, places = _dep_calls(f, t["args"][1])
            if any(call_matches(ct, arith.MIN) for _, ct in cr) and any(any(isinstance(e, list) and e[0] == "f" and e[2] == "limit" for e in pl["p"]) for pl in places) \
                    and any(call_matches(ct, r"buf_capacity$") for _, ct in cr):
                ok_clamp = True
        ctx.ob("R5", "take-clamps-request", ok_clamp and bool(rd), "the buffer handed to the inner reader is sliced to min(limit, capacity)", f)
        # limit == 0 test dominates the read
        zero = []
        for bi, si, st in f.stmts():
            r = st.get("r", {})
            if r.get("k") == "bin" and r.get("x") == "Eq" and any(str(o.get("v")) == "0" for o in r["ops"] if "k" in o):
                for o in r["ops"]:
                    pl = op_place(o)
                    if pl is not None and (any(isinstance(e, list) and e[0] == "f" and e[2] == "limit" for e in pl["p"]) or
                                           any(any(isinstance(e, list) and e[0] == "f" and e[2] == "limit" for e in q["p"]) for q in data_deps(f, pl["l"])[2])):
                        zero.append(bi)
        ctx.ob("R5", "take-stops-at-zero", bool(zero) and bool(rd) and all(any(f.cfg.dominates(z, bb) for z in zero) for bb, _ in rd),
               "limit == 0 is tested before the inner reader is asked", f)
        ok_sub = False
        for bi, si, st in f.stmts():
            a = st.get("a")
            if a and any(isinstance(e, list) and e[0] == "f" and e[2] == "limit" for e in a["p"]):
                for pl in rvalue_places(st["r"]):
                    locs, cr, places = data_deps(f, pl["l"])
                    if any(s2["a"]["l"] in locs | {pl["l"]} for _, s2 in _subs(f)) and any(call_matches(ct, POLL) for _, ct in cr):
                        ok_sub = True
        ctx.ob("R5", "take-subtracts-transferred", ok_sub, "limit becomes limit - n with n the count the inner reader reported", f)
    tf = [f for f in db.fns.values() if f.kind == "coroutine" and f.name.startswith("<compio_io::util::take::Take<R> as compio_io::read::buf::AsyncBufRead>::fill_buf::")]
    for f in tf:
        ok = False
        for bb, t in calls(f, arith.MIN):
            if any(_arg_depends_on_field(f, t, i, "limit") or (op_place(t["args"][i]) or {"p": []})["p"] and
                   any(isinstance(e, list) and e[0] == "f" and e[2] == "limit" for e in op_place(t["args"][i])["p"]) for i in range(len(t["args"]))):
                ok = True
        ctx.ob("R5", "take-fill_buf-clamped-by-limit", ok, "the slice handed out is cut at min(limit, available)", f)
    tc = [f for f in db.fns.values() if f.name == "<compio_io::util::take::Take<R> as compio_io::read::buf::AsyncBufRead>::consume"]
    for f in tc:
        inner = calls(f, r"compio_io::read::buf::AsyncBufRead::consume$")
        ok = bool(inner) and all(_arg_depends_on_call(f, t, 1, arith.MIN) for _, t in inner)
        ctx.ob("R5", "take-consume-clamped", ok, "the amount passed on to the inner reader (and subtracted) is min(limit, amount)", f)
    # ---- Buffer::advance
    adv = [f for f in db.fns.values() if f.name == "compio_io::buffer::Buffer::<B>::advance"]
    if not adv:
        ctx.missing("R5", "Buffer::advance")
    for f in adv:
        ok = False
        for bb, t in calls(f, r"IoBufExt::slice$"):
            locs, cr, places = _dep_calls(f, t["args"][1])
            if 2 in locs and any(call_matches(ct, r"Slice::<T>::begin$") for _, ct in cr) and any(st["a"]["l"] in locs for _, st in _adds(f)):
                ok = True
        ctx.ob("R5", "buffer-advance-reslices-at-begin-plus-amount", ok, "advance(amount) re-slices the buffer at begin() + amount", f)
    # ---- Vec<u8> positional writers: a position beyond the end zero-fills the gap before anything is appended
    vw = [f for f in db.fns.values() if f.kind == "coroutine" and re.match(r"<alloc::vec::Vec<u8> as compio_io::write::AsyncWriteAt>::(write_at|write_vectored_at)::\{closure#0\}$", f.name)]
    ctx.floor("R5", "Vec<u8> positional writers", len(vw), 2)
    for f in vw:
        name = db.root_fn(f).name
        sg = arith.Sigs(f)
        rz = calls(f, r"Vec::<T, A>::resize$")
        okz = False
        for bb, t in rz:
            # resize(pos, 0) on the edge where pos > len
            a1 = t["args"][1]
            lens = [("call", "len", (sg.operand(t["args"][0]),))]
            if arith.established_le(f, sg, lens[0], sg.operand(a1), bb) and str(t["args"][2].get("v")) == "0":
                okz = True
        ctx.ob("R5", "vec-writer-zero-fills-gap:" + name, okz,
               "when the position lies beyond the current length the vector is first resized to the position with zeros "
               "(so the bytes land at `pos`, like a sparse file), as the scalar and the vectored writer both must", f)
    # ---- &[u8]::read
    sr = [f for f in db.fns.values() if f.kind == "coroutine" and f.name.startswith("<&[u8] as compio_io::read::AsyncRead>::read::")]
    if not sr:
        ctx.missing("R5", "<&[u8] as AsyncRead>::read")
    for f in sr:
        ok = False
        for bb, t in calls(f, arith.INDEX):
            locs, cr, places = _dep_calls(f, t["args"][1])
            if any(call_matches(ct, r"compio_io::util::internal::slice_to_buf$") for _, ct in cr):
                ok = True
        ctx.ob("R5", "slice-reader-advances-by-copied-count", ok, "`*self = &self[len..]` with len the count slice_to_buf copied", f)


def rules_all(ctx, db):
    from .. import forward
    rules(ctx, db)
    rule_arith(ctx, db)
    if any(f.id.startswith("compio_io::") for f in db.fns.values()):
        forward.rule_io_forwarders(ctx, db, "R4", ("compio_io::",), 50)
    else:
        ctx.rule("R4", "FORWARD", "an I/O-trait method that only forwards calls the method of the same name and hands on every parameter")
    rule_cursors(ctx, db)


def check(tier):
    return engine.run("C11", tier, rules_all, NOT_DECIDED, [])
