"""C07 — Managed buffer pool: exclusive ownership and conservation (structural clauses)."""
import re

from .. import engine
from .. import opcodes as oc
from ..facts import call_matches, op_place, rvalue_places
from ..util import (Summaries, calls, dominated_by_any, postdominated_by_any, guarded_by_bool, guarded_by_variant,
                    discr_edges, receiver_field, arg_origin_calls, data_deps, indirect_calls)
from .c01 import has_iour, has_poll

NOT_DECIDED = ("conservation counts over arbitrary programs, exhaustion behaviour (ENOBUFS mapping aside), aliasing "
               "between a user-held handle and the kernel for every interleaving; the rules decide who may touch a "
               "slot and that every holder gives the buffer back or frees it")

BP = "compio_driver::buffer_pool::"


def rules(ctx, db):
    R = ctx.rule
    R("R1", "WMC", "a pool slot is written only by take (→None), reset (→Some + re-provide) and release (drain); a BufferRef "
      "is constructed only by BufferPool::take, from the pointer just taken out of the slot")
    R("R2", "MPT", "dropping a BufferRef always returns the buffer to the pool or frees it")
    R("R3", "COVER", "every io_uring op that lets the kernel select a pool buffer adopts it at completion (set_result takes "
      "it out of the pool); multishot ops wrap each intermediate result in a guard whose Drop returns the buffer")
    R("R4", "MPT", "the managed stream adapter turns a buffer id into a handle before any error can return")
    R("R5", "ORD", "the pool is released by Proactor::drop; the ring is unregistered before it is unmapped; buffers are "
      "freed only after the control block was released")

    if not any(n.startswith(BP) for n in db.adts):
        return
    # ---------------- R1
    writers = {}
    for f in db.fns.values():
        if not f.id.startswith("compio_driver::"):
            continue
        for bi, si, s in f.stmts():
            if "a" not in s:
                continue
            def is_bufs(p):
                return any(isinstance(e, list) and e[0] == "f" and e[2] == "bufs" and e[3] == BP + "Inner" for e in p["p"])
            r = s["r"]
            hit = is_bufs(s["a"]) or (r["k"] in ("ref", "rawptr") and str(r.get("x", "")).lower().startswith("mut") and is_bufs(r["pl"])) or \
                any("m" in o and is_bufs(o["m"]) for o in r.get("ops", []))
            if hit:
                writers[db.root_fn(f).name] = f
    ctx.floor("R1", "functions mutating Inner::bufs", len(writers), 3)
    for name, f in sorted(writers.items()):
        root = db.root_fn(f)
        own = root.self_adt in (BP + "Shared", BP + "BufferPoolRoot")
        # role of the writer: empties a slot (Option::take), refills one (Some + re-provide) or drains all (mem::take + free)
        role = bool(calls(f, r"core::option::Option::<T>::take$")) or bool(calls(f, r"BufControl::reset$")) or \
            (bool(calls(f, r"^core::mem::take$")) and bool(indirect_calls(f, "deallocate")))
        ctx.ob("R1", "slot-writer:" + name, own and role,
               "Inner::bufs is mutated only by the pool's own private types, in one of three roles: take a slot "
               "(→ None), refill it and re-provide the buffer, or drain everything at release", f)
    ctors = []
    for f in db.fns.values():
        for bi, si, s in f.stmts():
            r = s.get("r", {})
            if r.get("k") == "agg" and r.get("adt") == BP + "BufferRef":
                ctors.append((f, bi, s))
    ctx.floor("R1", "BufferRef constructions", len(ctors), 1)
    for f, bi, s in ctors:
        ok = f.name == BP + "BufferPool::take"
        ctx.ob("R1", "BufferRef-constructed-by:" + f.name, ok, "a BufferRef (exclusive handle) is created only by BufferPool::take", f)
        if ok:
            idx = s["r"]["fields"].index("ptr")
            p = op_place(s["r"]["ops"][idx])
            locs, croots, _ = data_deps(f, p["l"]) if p else (set(), [], [])
            ctx.ob("R1", "BufferRef-ptr-from-emptied-slot", any(call_matches(ct, r"buffer_pool::Shared::take$") for _, ct in croots),
                   "the handle's pointer is the one just taken out of the slot (the slot is None while the handle lives)", f)
    tk = [f for f in db.fns.values() if f.id.startswith("compio_driver::buffer_pool::") and db.root_fn(f).name == BP + "Shared::take" and f.kind == "closure"]
    for f in tk:
        ctx.ob("R1", "take-empties-slot", bool(calls(f, r"core::option::Option::<T>::take$")),
               "Shared::take leaves None in the slot (Option::take), so a second take of the same id yields nothing", f)
    # ---------------- R2
    dr = db.methods(self_adt=r"^compio_driver::buffer_pool::BufferRef$", name="drop", trait=r"Drop$")
    if not dr:
        ctx.missing("R2", "impl Drop for BufferRef")
    for f in dr:
        rs = [bb for bb, _ in calls(f, r"buffer_pool::Shared::reset$")]
        de = [bb for bb, _ in indirect_calls(f, "deallocate")]
        ctx.ob("R2", "drop-returns-or-frees", bool(rs) and bool(de) and postdominated_by_any(f, rs + de, 0),
               "every path of BufferRef::drop calls Shared::reset (pool alive) or the allocator's deallocate (pool gone)", f)
        ctx.ob("R2", "return-only-if-pool-alive", all(guarded_by_variant(f, b, r"Weak::<T, A>::upgrade$|Weak::<.*>::upgrade$", 1) is not None for b in rs),
               "the buffer is handed back only to a pool that still exists", f)
    rst = [f for f in db.fns.values() if db.root_fn(f).name == BP + "Shared::reset" and f.kind == "closure"]
    for f in rst:
        cr = [bb for bb, _ in calls(f, r"BufControl::reset$")]
        ws = [bi for bi, si, s in f.stmts() if "a" in s and s["r"].get("k") == "agg" and s["r"].get("var") == "Some"]
        ctx.ob("R2", "reset-refills-and-reprovides", bool(cr) and bool(ws),
               "Shared::reset stores the pointer back into its slot and re-provides the buffer to the driver", f)
    # ---------------- R3
    if has_iour(db):
        guards = set()
        for a in db.adts.values():
            if "drop" in a and a["name"].startswith("compio_driver::sys::op::"):
                d = db.fns.get(a["drop"])
                if d is not None and calls(d, r"buffer_pool::BufferPool::reset$"):
                    guards.add(a["name"])
        ctx.ob("R3", "guard-type-exists", len(guards) >= 1, "a guard type whose Drop returns a buffer id to the pool exists")
        sel = Summaries(db, r"^io_uring::opcode::\w+::buf_group$|^io_uring::opcode::(ReadMulti|RecvMulti|RecvMsgMulti)::new$", depth=6)
        take = Summaries(db, r"buffer_pool::BufferPool::take$", depth=6)
        multi = Summaries(db, r"^io_uring::opcode::(ReadMulti|RecvMulti|RecvMsgMulti)::new$", depth=6)
        nsel = 0
        for imp, adt, ms in oc.op_impls(db, oc.IOUR_OP):
            entries = [ms[m] for m in ("create_entry", "create_entry_fallback") if m in ms]
            if not any(sel.may(e) for e in entries):
                continue
            nsel += 1
            sr = ms.get("set_result")
            ctx.ob("R3", "completion-adopts-buffer:" + oc.short(adt), sr is not None and take.may(sr),
                   "an op whose SQE lets the kernel pick a pool buffer takes that buffer out of the pool in set_result, "
                   "which runs for every final completion even if nobody awaits it (cancelled op ⇒ buffer still owned "
                   "by the op and returned on its drop)", sr or entries[0])
            pm = ms.get("push_multishot")
            if pm is not None and any(multi.may(e) for e in entries):
                # reaches the construction of a guard
                def builds_guard(f, depth=6, seen=None):
                    seen = seen or set()
                    if f.id in seen:
                        return False
                    seen.add(f.id)
                    for bi, si, s in f.stmts():
                        r = s.get("r", {})
                        if r.get("k") == "agg" and r.get("adt") in guards:
                            return True
                    for c in f.closures():
                        if c in db.fns and builds_guard(db.fns[c], depth, seen):
                            return True
                    if depth > 0:
                        for g in db.succ_fns(f, expand_traits=True):
                            if g.id.startswith("compio_driver::") and builds_guard(g, depth - 1, seen):
                                return True
                    return False
                ctx.ob("R3", "multishot-result-guarded:" + oc.short(adt), builds_guard(pm),
                       "each intermediate multishot completion is stored together with a guard that returns its buffer "
                       "to the pool if the stream is dropped before the result is consumed", pm)
        ctx.floor("R3", "io_uring ops selecting a provided buffer", nsel, 8)
        # hand-over: the function that turns a stored multishot result into the consumer's (result, extra)
        # must defuse the guard — otherwise the buffer goes back to the kernel while the consumer takes it
        holders = [a for a in db.adts.values() if a["name"].startswith("compio_driver::sys::op::") and
                   any(g in fl["adts"] for g in guards for _, fl in db.adt_fields(a)) and a["name"] not in guards]
        ctx.floor("R3", "types storing a buffer guard", len(holders), 1)
        for a in holders:
            handovers = [f for f in db.fns.values() if f.impl and f.impl.get("self_adt") == a["name"] and f.argc >= 1 and
                         f.locals[1][0] == a["name"] and "compio_driver::sys::extra::Extra" in f.locals[0][0]]
            ctx.ob("R3", "hand-over-fn-exists:" + oc.short(a["name"]), len(handovers) >= 1,
                   "a by-value method hands the stored result and its Extra (buffer id) to the consumer")
            for f in handovers:
                defuse = False
                for bb, t in f.calls():
                    if call_matches(t, r"^core::mem::forget$"):
                        defuse = True
                    # the defusing inlined into the hand-over: ManuallyDrop::new(<the guard>)
                    if call_matches(t, r"ManuallyDrop::<T>::new$") and t.get("ga") and any(t["ga"][0] == g_ or t["ga"][0].endswith(g_.rsplit("::", 1)[-1]) for g_ in guards):
                        defuse = True
                    for g in db.callee_fns(t, expand_traits=False):
                        if g.impl and g.impl.get("self_adt") in guards and g.argc >= 1 and g.locals[1][0] in guards and \
                                calls(g, r"ManuallyDrop::<T>::new$"):
                            defuse = True
                ctx.ob("R3", "hand-over-defuses-guard:" + f.name, defuse,
                       "when a multishot result is handed to the consumer (who takes the buffer by id) its guard is "
                       "defused; if the guard's Drop ran here the buffer would be re-provided to the kernel while the "
                       "consumer owns it (two owners of one pool buffer)", f)
        lk = [(f, bb) for f, bb, t in db.callers_of(r"BufferGuard::leak$") if not f.blocks[bb]["cl"]]
        for f, bb in lk:
            ctx.ob("R3", "guard-leaked-only-on-hand-over:" + db.root_fn(f).name, db.root_fn(f).short == "into_result",
                   "the guard is defused only when the result (and with it the buffer id) is handed to the consumer", f)
    stream_adapter_rules(ctx, db, "R4")
    # ---------------- R5
    pd = db.methods(self_adt=r"^compio_driver::Proactor$", name="drop", trait=r"Drop$")
    if not pd:
        ctx.missing("R5", "impl Drop for Proactor")
    for f in pd:
        ctx.ob("R5", "proactor-drop-releases-pool", bool(calls(f, r"buffer_pool::BufferPoolRoot::release$")),
               "dropping the Proactor releases an initialised buffer pool", f)
    rl = [f for f in db.fns.values() if db.root_fn(f).name == BP + "BufferPoolRoot::release" and f.kind == "closure"]
    if not rl:
        ctx.missing("R5", "BufferPoolRoot::release body")
    for f in rl:
        cr = [bb for bb, _ in calls(f, r"BufControl::release$")]
        de = [bb for bb, _ in indirect_calls(f, "deallocate")]
        ok = bool(cr) and bool(de) and all(f.cfg.dominates(cr[0], d) for d in de) and \
            all(guarded_by_variant(f, d, r"BufControl::release$", 0) is not None for d in de)
        ctx.ob("R5", "buffers-freed-after-control-released", ok,
               "the buffers are deallocated only after the driver-side control (buffer ring) was released successfully", f)
    if has_iour(db):
        br = db.methods(self_adt=r"^compio_driver::sys::buffer_pool::iour::BufControl$", name="release", trait="")
        if not br:
            ctx.missing("R5", "iour BufControl::release")
        # the provided-buffer ring is a FIFO the kernel reads at its head: a buffer that is given back must be
        # written at the ring's *tail*, and the tail is advanced afterwards
        writers = [f for f in db.fns.values() if f.impl and f.impl.get("self_adt") == "compio_driver::sys::buffer_pool::iour::BufControl"
                   and calls(f, r"io_uring::types::BufRingEntry::set_bid$")]
        ctx.floor("R5", "functions writing buffer-ring entries", len(writers), 1)
        for f in writers:
            # indexing is a place projection `slice[idx]`
            idx_locals = set()
            for bi, si, st in f.stmts():
                for pl in ([st["a"]] if "a" in st else []) + rvalue_places(st.get("r", {})):
                    for e in pl["p"]:
                        if isinstance(e, list) and e[0] == "i":
                            idx_locals.add(e[1])
            ok = bool(idx_locals)
            for il in idx_locals:
                locs, cr, _ = data_deps(f, il)
                if not any(call_matches(ct, r"BufControl::tail$") for _, ct in cr):
                    ok = False
            ctx.ob("R5", "ring-entry-written-at-tail:" + f.name, ok,
                   "the ring slot a returned buffer is written to is computed from the ring's tail (the kernel consumes "
                   "entries in ring order; writing at an id-derived slot publishes stale entries of buffers still held "
                   "by users once buffers come back out of order)", f)
            for g, b2 in db.callers().get(f.id, []):
                if g.blocks[b2]["cl"]:
                    continue
                cm = [bb for bb, _ in calls(g, r"BufControl::commit$")]
                ctx.ob("R5", "tail-advanced-after-write:" + g.name, bool(cm) and any(g.cfg.dominates(b2, c) or b2 in g.cfg.reach_set([b2]) for c in cm) and
                       any(c in g.cfg.reach_from_block(b2) for c in cm),
                       "after the entry is written the tail is advanced (commit), making the buffer visible to the kernel", g)
        for f in br:
            un = [bb for bb, _ in calls(f, r"unregister_buf_ring$")]
            mu = [bb for bb, _ in calls(f, r"^rustix::mm::.*munmap$")]
            ctx.ob("R5", "unregister-before-munmap", bool(un) and bool(mu) and f.cfg.dominates(un[0], mu[0]) and
                   guarded_by_variant(f, mu[0], r"unregister_buf_ring$", 0) is not None,
                   "the buffer ring is unregistered from the kernel (successfully) before its memory is unmapped", f)


def stream_adapter_rules(ctx, db, RID="R4"):
    """Rules on SubmitMultiManaged::poll_next (shared by C07-R4 and C14-R5)."""
    # ---------------- R4
    if any(n.startswith("compio_runtime::") for n in db.adts):
        pn = db.methods(self_adt=r"^compio_runtime::future::stream::SubmitMultiManaged$", name="poll_next", trait=r"Stream$")
        if not pn:
            ctx.missing(RID, "SubmitMultiManaged::poll_next")
        for f in pn:
            bid = [(bb, t) for bb, t in calls(f, r"Extra::buffer_id$")]
            tk2 = [bb for bb, _ in calls(f, r"buffer_pool::BufferPool::take$")]
            ok = len(bid) == 1 and len(tk2) == 1
            if ok:
                # from the Continue edge of `buffer_id()?` no return is reachable without passing take
                okp = False
                for (sbb, targets, ow) in discr_edges(f, bid[0][0]):
                    c = targets.get("0")
                    if c is not None:
                        reach = f.cfg.reach_from_block(c, avoid=set(tk2))
                        if not any(r in reach for r in f.cfg.returns):
                            okp = True
                ok = okp
            # the item's own io result is propagated (`res?`) only after the buffer was taken (live op) or after the
            # finished inner stream was taken out (terminated op)
            pn_ = [bb for bb, _ in calls(f, r"poll_next_unpin$|Stream::poll_next$")]
            inner_take = [bb for bb, t in calls(f, r"core::option::Option::<T>::take$") if "inner" in receiver_field(f, t)]
            # ... or through a private helper of the adapter that takes the inner stream out
            helpers = {g.id for g in db.fns.values() if g.self_adt == "compio_runtime::future::stream::SubmitMultiManaged" and g.id != f.id and
                       any("inner" in receiver_field(g, t2) for _, t2 in calls(g, r"core::option::Option::<T>::take$"))}
            inner_take += [bb for bb, t in f.calls() if any(h.id in helpers for h in db.callee_fns(t, expand_traits=False))]
            okr = True
            nres = 0
            for bb, t in calls(f, r"core::ops::try_trait::Try::branch$|Try>::branch$"):
                p0 = op_place(t["args"][0])
                if p0 is None:
                    continue
                locs, cr, _ = data_deps(f, p0["l"])
                names = [ct.get("fn", "") + " " + (ct.get("rfn") or "") for _, ct in cr]
                from_item = any("poll_next" in n for n in names)
                own = any(("buffer_id" in n) or ("BufferPool::take" in n) for n in names)
                if from_item and not own:
                    nres += 1
                    if dominated_by_any(f, tk2 + inner_take, bb) is None:
                        okr = False
            ctx.ob(RID, "item-error-propagated-after-take", nres >= 1 and okr,
                   "an error carried by a stream item is returned only after the selected buffer was turned into a handle "
                   "(live op) or the finished inner stream was taken out (final item); returning earlier leaks the buffer id "
                   "and leaves a finished inner stream that the next poll mistakes for end-of-stream", f)
            ctx.ob(RID, "id-becomes-handle-before-any-error", ok,
                   "once the completion's buffer id is known, BufferPool::take runs before any `?` can return: the "
                   "handle's Drop then returns the buffer even if the result is an error", f)


def rules_all(ctx, db):
    rules(ctx, db)
    if ctx.tier == "thorough" and ctx.cfg == "A":
        from .. import witness
        witness.obligations(ctx, "C07")


def check(tier):
    return engine.run("C07", tier, rules_all, NOT_DECIDED, [])
