"""C02 — Every operation completes exactly once, with its own result (structural clauses)."""
import re

from .. import engine
from ..facts import call_matches, op_place, rvalue_places
from ..util import (Summaries, calls, dominated_by_any, guarded_by_bool, guarded_by_variant, discr_edges,
                    receiver_field, arg_origin_calls, flow_call, postdominated_by_any)
from .c01 import has_iour, has_poll, INTO_RAW, DRV

NOT_DECIDED = ("that results are never swapped for all mixes of pending operations (identity of the key is decided, "
               "not FIFO fairness of the per-descriptor queues); burst behaviour of the kernel; wake-up delivery "
               "across threads (C03)")

SQ_PUSH = r"^io_uring::squeue::SubmissionQueue::<.*>::push$"


def err_return_blocks(f):
    """blocks that mark an error exit: `_0 = Result::Err{..}`, FromResidual::from_residual into _0,
    or `_0 = Poll::Ready(Err)` is approximated by from_residual / Err aggregate anywhere in the block."""
    out = set()
    for bi, b in enumerate(f.blocks):
        if b["cl"]:
            continue
        for s in b["st"]:
            r = s.get("r")
            if r and r["k"] == "agg" and r.get("adt") == "core::result::Result" and r.get("var") == "Err":
                out.add(bi)
        t = b["t"]
        if t["k"] == "call" and call_matches(t, r"FromResidual<.*>::from_residual$|::from_residual$"):
            out.add(bi)
    return out


def sq_push_shape(ctx, rule, f, bb):
    """The SQ push at block bb of f is inside a submit-and-retry loop."""
    cfg = f.cfg
    edges = discr_edges(f, bb)
    ok_t = err_t = None
    for (sbb, targets, ow) in edges:
        if "0" in targets and "1" in targets:
            ok_t, err_t = targets["0"], targets["1"]
    if err_t is None:
        ctx.ob(rule, "sq-push-result-inspected:" + f.name, False,
               "the result of SubmissionQueue::push must be matched (Ok / queue full)", f)
        return
    reach_err = cfg.reach_from_block(err_t, avoid={bb})
    retry = bb in cfg.reach_from_block(err_t)
    ctx.ob(rule, "sq-full-retries:" + f.name, retry,
           "when the submission queue is full the entry is pushed again (submit-and-drain, then retry); an SQE "
           "is never dropped because the queue was full", f)
    submit = Summaries(ctx_db(ctx), r"^io_uring::submit::Submitter::<'_>::(submit|submit_and_wait|submit_with_args|enter)|^io_uring::IoUring::<.*>::(submit|submit_and_wait)$")
    sb = set(submit.event_blocks(f, "may"))
    ctx.ob(rule, "sq-full-submits-before-retry:" + f.name,
           retry and bb not in cfg.reach_from_block(err_t, avoid=sb),
           "every path from the queue-full edge back to the push passes a submit", f)
    # returns reachable from the full edge without pushing again must be error exits
    errs = err_return_blocks(f)
    bad = [r for r in cfg.returns if r in cfg.reach_from_block(err_t, avoid={bb} | errs)]
    ctx.ob(rule, "sq-full-never-reports-success:" + f.name, not bad,
           "from the queue-full edge the helper returns only an error or after a successful push", f)
    # Ok(()) only after success
    oks = [bi for bi, si, s in f.stmts() if s.get("r", {}).get("k") == "agg" and s["r"].get("adt") == "core::result::Result"
           and s["r"].get("var") == "Ok" and s["a"]["l"] == 0]
    ctx.ob(rule, "sq-ok-after-push:" + f.name,
           all(any(cfg.edge_dominates(sbb, targets.get("0"), b2) for (sbb, targets, ow) in edges if "0" in targets) for b2 in oks),
           "Ok is returned only on the success edge of the push", f)


_CTX_DB = {}


def ctx_db(ctx):
    return engine.db(ctx.cfg)


def rules(ctx, db):
    R = ctx.rule
    R("R1", "ORD+same-value", "the user_data of an SQE / the key of a readiness event is as_raw() of the very key that "
      "is leaked / queued, so a completion can only resolve its own operation")
    R("R2", "LOOP+WMC", "every SubmissionQueue::push sits in the submit-and-retry helper: queue overflow never drops an SQE")
    R("R3", "ORD+MPT", "set_result: op-specific set_result, then result = Ready on every path, then wake the stored waker")
    R("R4", "WMC", "the result slot is written only by new/set_result/set_waker/take_result; set_result is called only by "
      "Entry::notify and the synchronous-completion path; Entry::notify only by the drivers")
    R("R5", "MPT", "the Submit/SubmitMulti state machines put their state back before returning Pending, and every pop "
      "that stays pending registers the current waker")
    R("R6", "MPT+GUARD", "polling driver: after popping an interest the descriptor is re-armed on every non-error path; "
      "an entry is notified only on Ready; a still-pending op is re-queued at the front")
    R("R7", "ORD", "thread-pool jobs: the blocking call runs under catch_unwind, then the entry is sent, then the driver is woken")

    if has_iour(db):
        # R1 io_uring
        for f, bb, t in db.callers_of(INTO_RAW):
            if f.blocks[bb]["cl"] or "::iour::" not in f.id:
                continue
            ud = calls(f, r"^io_uring::squeue::Entry(128)?::user_data$")
            ok = False
            key_local = op_place(t["args"][0])["l"]
            key_args = {r[1] for r in f.cfg.origins(key_local, through_calls=flow_call) if r[0] == "arg"}
            for b2, t2 in ud:
                for ct in arg_origin_calls(f, t2, 1):
                    if call_matches(ct, r"ErasedKey::as_raw$"):
                        src = op_place(ct["args"][0])
                        roots = {r[1] for r in f.cfg.origins(src["l"], through_calls=flow_call) if r[0] == "arg"}
                        if roots & key_args and f.cfg.dominates(b2, bb):
                            ok = True
            ctx.ob("R1", "sqe-user_data-is-own-key:" + f.name, ok,
                   "the SQE's user_data is as_raw() of the key that is leaked for it", f)
        # R2
        pushers = [(f, bb, t) for f, bb, t in db.callers_of(SQ_PUSH) if not f.blocks[bb]["cl"]]
        ctx.floor("R2", "SubmissionQueue::push call sites", len(pushers), 1)
        for f, bb, t in pushers:
            ctx.sites()
            sq_push_shape(ctx, "R2", f, bb)
    if has_poll(db):
        # by role: the function of the polling driver that fills in polling::Event.key
        ev = [f for f in db.fns.values() if "::driver::poll::" in f.id and any(
            "a" in s_ and any(isinstance(e, list) and e[0] == "f" and e[2] == "key" and e[3] == "polling::Event" for e in s_["a"]["p"])
            for _, _, s_ in f.stmts())]
        if not ev:
            ctx.missing("R1", "FdQueue::event")
        for f in ev:
            ws = [(bi, si, s) for bi, si, s in f.stmts() if "a" in s and any(
                isinstance(e, list) and e[0] == "f" and e[2] == "key" and e[3] == "polling::Event" for e in s["a"]["p"])]
            ctx.floor("R1", "writes of polling::Event.key in FdQueue::event", len(ws), 2)
            for i, (bi, si, s) in enumerate(ws):
                ok = False
                for p in rvalue_places(s["r"]):
                    for r in f.cfg.origins(p["l"], through_calls=flow_call):
                        if r[0] == "call" and call_matches(r[2], r"ErasedKey::as_raw$"):
                            via = arg_origin_calls(f, r[2], 0)
                            if any(call_matches(x, r"VecDeque::<.*>::front$") for x in via):
                                ok = True
                ctx.ob("R1", "event-key-is-queue-head#%d" % i, ok,
                       "the readiness event is keyed by as_raw() of the operation at the head of the descriptor's queue", f)

    # R3 set_result
    sr = [f for f in db.fns.values() if f.name == "compio_driver::key::ErasedKey::set_result"]
    if not sr:
        ctx.missing("R3", "ErasedKey::set_result")
    for f in sr:
        carry = [bb for bb, _ in calls(f, r"::Carry::set_result$")]
        store = []
        for bb, t in calls(f, r"^core::mem::replace$"):
            if "result" in receiver_field(f, t):
                # second arg is a Ready aggregate
                p = op_place(t["args"][1])
                roots = f.cfg.origins(p["l"]) if p else []
                if any(r[0] == "agg" and r[3]["r"].get("var") == "Ready" for r in roots):
                    store.append(bb)
        for bi, si, s in f.stmts():
            if "a" in s and any(isinstance(e, list) and e[0] == "f" and e[2] == "result" for e in s["a"]["p"]) and \
                    s["r"]["k"] == "agg" and s["r"].get("var") == "Ready":
                store.append(bi)
        wakes = [bb for bb, _ in calls(f, r"^core::task::wake::Waker::(wake|wake_by_ref)$")]
        ctx.ob("R3", "store-exists", len(store) == 1, "set_result stores PushEntry::Ready(res) into the result slot", f)
        if len(store) == 1:
            ctx.ob("R3", "store-on-every-path", f.cfg.postdominates(store[0], 0), "the result is stored on every path", f)
            ctx.ob("R3", "op-set_result-before-store", bool(carry) and all(f.cfg.dominates(c, store[0]) for c in carry),
                   "the op-specific set_result (adopts fds / buffers) runs before the result becomes visible", f)
            ctx.ob("R3", "wake-after-store", bool(wakes) and all(f.cfg.dominates(store[0], w) and w != store[0] for w in wakes),
                   "the waiting task is woken, and only after the result is stored", f)

    # R4 who writes the result slot
    writers = set()
    for f in db.fns.values():
        if not f.id.startswith("compio_driver::"):
            continue
        for bi, si, s in f.stmts():
            if "a" not in s:
                continue
            r = s["r"]
            def is_res(p):
                return any(isinstance(e, list) and e[0] == "f" and e[2] == "result" and e[3] == "compio_driver::key::RawOp" for e in p["p"])
            if is_res(s["a"]):
                writers.add(f)
            if r["k"] in ("ref", "rawptr") and r.get("x") in ("mut", "Mut") and is_res(r["pl"]):
                writers.add(f)
            for op in r.get("ops", []):
                if "m" in op and is_res(op["m"]):
                    writers.add(f)
    ctx.floor("R4", "functions writing RawOp.result", len(writers), 3)
    for f in sorted(writers, key=lambda x: x.name):
        ctx.ob("R4", "result-writer:" + f.name, f.self_adt in ("compio_driver::key::ErasedKey", "compio_driver::key::Key", "compio_driver::key::RawOp"),
               "RawOp.result is written only by methods of the key types themselves (set_result / set_waker / take_result)", f)
    for f, bb, t in db.callers_of(r"^compio_driver::key::ErasedKey::set_result$"):
        if f.blocks[bb]["cl"]:
            continue
        ctx.ob("R4", "set_result-caller:" + f.name,
               f.name in ("compio_driver::Entry::notify", "compio_driver::Proactor::push_with_extra"),
               "ErasedKey::set_result is called only by Entry::notify and by the synchronous completion in push_with_extra", f)
    nots = [(f, bb) for f, bb, t in db.callers_of(r"^compio_driver::Entry::notify$") if not f.blocks[bb]["cl"]]
    ctx.floor("R4", "Entry::notify call sites", len(nots), 2)
    for f, bb in nots:
        ctx.ob("R4", "notify-caller:" + f.name, re.search(DRV, f.id) is not None,
               "Entry::notify is only called by the drivers", f)
    from ..util import waker_refresh_ok
    for f in db.methods(self_adt=r"^compio_driver::key::ErasedKey$", name="set_waker", trait=""):
        app, ok = waker_refresh_ok(db, f)
        ctx.ob("R4", "set_waker-refreshes-unless-will_wake", app and ok,
               "the op's waker is replaced by the current one unless the stored waker will_wake it (a stale waker "
               "would wake a task that no longer awaits the op)", f)
    tr = [f for f in db.fns.values() if f.name == "compio_driver::key::ErasedKey::take_result"]
    for f in tr:
        ctx.ob("R4", "take_result-consumes-unique-key", bool(calls(f, r"ThinCell::<T>::try_unwrap$")) and f.rec.get("sig", "").find("(compio_driver::key::ErasedKey") >= 0,
               "take_result takes the key by value and unwraps the cell (hands the result out once)", f)

    # R5 state machines
    if any(n.startswith("compio_runtime::") for n in db.adts):
        sms = [f for f in db.fns.values() if re.search(r"^<compio_runtime::future::(future::Submit<T(, .*)?>|stream::SubmitMulti<T>) as (core::future::future::Future>::poll|futures_core::stream::Stream>::poll_next)$", f.name)]
        ctx.floor("R5", "submit state machines", len(sms), 3)
        for f in sms:
            takes = [bb for bb, t in calls(f, r"core::option::Option::<T>::take$") if "state" in receiver_field(f, t)]
            ctx.ob("R5", "takes-state:" + f.name, bool(takes), "the state machine takes its state at the top of the loop", f)
            pend = [bi for bi, si, s in f.stmts() if s.get("r", {}).get("k") == "agg" and s["r"].get("adt") == "core::task::poll::Poll"
                    and s["r"].get("var") == "Pending" and s["a"]["l"] == 0]
            stores = []
            for bi, si, s in f.stmts():
                if "a" in s and any(isinstance(e, list) and e[0] == "f" and e[2] == "state" for e in s["a"]["p"]):
                    # `*this.state = Some(..)` (the Some aggregate is built into a temporary first)
                    p0 = [pp for pp in rvalue_places(s["r"])]
                    if any(any(r[0] == "agg" and r[3]["r"].get("var") == "Some" for r in f.cfg.origins(pp["l"])) for pp in p0):
                        stores.append(bi)
            ctx.ob("R5", "pending-restores-state:" + f.name,
                   bool(pend) and all(_restored(f, takes, stores, p) for p in pend),
                   "every `return Poll::Pending` is preceded (after the take) by `state = Some(..)`: the key is not lost", f)
        pops = [(f, bb) for f, bb, t in db.callers_of(r"^compio_driver::Proactor::(pop|pop_with_extra|pop_multishot)$")
                if not f.blocks[bb]["cl"] and not f.id.startswith("compio_driver::")]
        ctx.floor("R5", "Proactor::pop* call sites outside the driver", len(pops), 3)
        uw = Summaries(db, r"^compio_driver::Proactor::update_waker$")
        for f, bb in pops:
            ctx.ob("R5", "pending-pop-registers-waker:" + f.name, uw.may(f),
                   "a pop that stays pending registers the current waker with the key", f)

    # R6 polling driver event handler
    if has_poll(db):
        hs = [f for f in db.fns.values() if "::poll::" in f.id and calls(f, r"FdQueue::pop_interest$") and f.name != "compio_driver::sys::driver::poll::FdQueue::pop_interest"]
        ctx.floor("R6", "readiness handlers (callers of FdQueue::pop_interest)", len(hs), 1)
        for f in hs:
            pi = [bb for bb, _ in calls(f, r"FdQueue::pop_interest$")]
            rn = [bb for bb, _ in calls(f, r"poll::Driver::renew$")]
            errs = err_return_blocks(f)
            bad = [r for r in f.cfg.returns if r in f.cfg.reach_set(pi, avoid=set(rn) | errs)]
            ctx.ob("R6", "renew-after-pop:" + f.name, bool(rn) and not bad,
                   "after pop_interest every non-error path re-arms the descriptor for the remaining queue (renew)", f)
            nt = [bb for bb, _ in calls(f, r"^compio_driver::Entry::notify$")]
            ctx.ob("R6", "notify-only-on-ready:" + f.name,
                   bool(nt) and all(guarded_by_variant(f, bb, r"::Carry::operate$", 0) is not None for bb in nt),
                   "an entry is completed only when operate() returned Ready", f)
            sf = Summaries(db, r"poll::Driver::submit_front$", depth=2).event_blocks(f, "may")   # directly or in a private helper
            ctx.ob("R6", "pending-requeued-at-front:" + f.name,
                   bool(sf) and all(guarded_by_variant(f, bb, r"::Carry::operate$", 1) is not None for bb in sf),
                   "an op whose operate() is still Pending is put back at the front of its queues", f)
            # entry notified carries the popped key
            ok = False
            for bb, t in calls(f, r"^compio_driver::Entry::new$"):
                p = op_place(t["args"][0])
                roots = f.cfg.origins(p["l"], through_calls=flow_call)
                if any(r[0] == "call" and call_matches(r[2], r"FdQueue::pop_interest$") for r in roots):
                    ok = True
            ctx.ob("R6", "notified-key-is-popped-key:" + f.name, ok,
                   "the completed entry is built from the key popped for this event", f)

        # per-descriptor queues are FIFO and the queue an interest goes to / comes from matches its direction
        FQ = "compio_driver::sys::driver::poll::FdQueue"
        fq = [f for f in db.fns.values() if f.self_adt == FQ]
        ia = db.adts.get("compio_driver::sys::driver::poll::Interest") or next((a for n, a in db.adts.items() if n.endswith("::Interest") and n.startswith("compio_driver::")), None)
        if not fq or ia is None:
            ctx.missing("R6", "FdQueue / Interest")
        else:
            vidx = {v["name"]: i for i, v in enumerate(ia["variants"])}
            pair = {"read_queue": "Readable", "write_queue": "Writable"}
            npair = 0
            for f in fq:
                pb = calls(f, r"VecDeque::<T, A>::pop_back$")
                ctx.ob("R6", "fdqueue-never-pops-the-back:" + f.short, not pb, "operations leave a descriptor queue at its front only", f)
                for bb, t in calls(f, r"VecDeque::<T, A>::(push_back|push_front)$"):
                    fld = [x for x in receiver_field(f, t) if x in pair]
                    if len(fld) != 1:
                        continue
                    want = str(vidx.get(pair[fld[0]]))
                    ok = False
                    for bi, b in enumerate(f.blocks):
                        tt = b["t"]
                        if tt["k"] != "switch":
                            continue
                        sl = op_place(tt["op"])
                        if sl is None:
                            continue
                        isdisc = any(d[0] == "assign" and d[3]["r"].get("k") == "discr" and "Interest" in f.local_ty(d[3]["r"]["pl"]["l"])
                                     for d in f.cfg.defs.get(sl["l"], []))
                        if not isdisc:
                            continue
                        for v, tgt in tt["tg"]:
                            if v == want and f.cfg.edge_dominates(bi, tgt, bb):
                                ok = True
                    npair += 1
                    ctx.ob("R6", "interest-goes-to-its-queue:%s:%s" % (f.short, fld[0]), ok,
                           "%s is pushed only on the Interest::%s arm" % (fld[0], pair[fld[0]]), f)
                    if f.short.startswith("push_back"):
                        ctx.ob("R6", "new-interest-at-the-back:" + fld[0], call_matches(t, r"push_back$"), "a new operation queues behind the waiting ones", f)
                for bb, t in calls(f, r"VecDeque::<T, A>::pop_front$"):
                    fld = [x for x in receiver_field(f, t) if x in pair]
                    if len(fld) != 1:
                        continue
                    evf = "readable" if fld[0] == "read_queue" else "writable"
                    ok = False
                    for bi, b in enumerate(f.blocks):
                        tt = b["t"]
                        if tt["k"] != "switch" or tt.get("oty") != "bool":
                            continue
                        sl = op_place(tt["op"])
                        if sl is None:
                            continue
                        loads = [d for d in f.cfg.defs.get(sl["l"], []) if d[0] == "assign" and d[3]["r"].get("k") == "use" and
                                 any(any(isinstance(e, list) and e[0] == "f" and e[2] == evf for e in pl["p"]) for pl in rvalue_places(d[3]["r"]))]
                        if loads and f.cfg.edge_dominates(bi, tt["ow"], bb):
                            ok = True
                    npair += 1
                    ctx.ob("R6", "popped-queue-matches-event:" + fld[0], ok, "%s is popped only when the event reports `%s`" % (fld[0], evf), f)
                    # the interest reported with the popped key
                    vs = set()
                    for (sbb, targets, ow) in discr_edges(f, bb):
                        tgt = targets.get("1")
                        if tgt is None:
                            continue
                        for bi, si, st in f.stmts():
                            r = st.get("r", {})
                            if r.get("k") == "agg" and (r.get("adt") or "").endswith("::Interest") and f.cfg.edge_dominates(sbb, tgt, bi):
                                vs.add(r.get("var"))
                    ctx.ob("R6", "popped-interest-matches-queue:" + fld[0], vs == {pair[fld[0]]},
                           "the key popped from %s is reported as Interest::%s" % (fld[0], pair[fld[0]]), f)
            ctx.floor("R6", "queue/direction pairings in FdQueue", npair, 6)
        # the poll never blocks while finished operations wait in the completion channel (thread-pool results and the
        # entries of cancelled descriptor operations are queued without any wake)
        pf = [f for f in db.fns.values() if f.name == "compio_driver::sys::driver::poll::Driver::poll"]
        if not pf:
            ctx.missing("R6", "poll::Driver::poll")
        for f in pf:
            from ..util import value_switches
            waits = calls(f, r"polling::Poller::wait$")
            ies = [(bb, t) for bb, t in calls(f, r"flume::Receiver::<T>::is_empty$") if not waits or any(f.cfg.dominates(bb, wb) for wb, _ in waits)]
            ok = bool(waits) and bool(ies)
            detail = "the blocking wait and the test of the completion channel were located"
            if ok:
                wb, wt = waits[0]
                tl = op_place(wt["args"][2])
                # the local the wait's timeout is copied from
                tloc = None
                if tl is not None:
                    for r in f.cfg.origins(tl["l"]):
                        if r[0] == "arg":
                            tloc = r[1]
                ok = tloc is not None
                if ok:
                    rewrites = {bi for bi, si, st in f.stmts() if st.get("a") and st["a"]["l"] == tloc and not st["a"]["p"]}
                    # forbidden edges: the `channel is empty` edges of switches on is_empty()
                    empty_edges = set()
                    for bb, t in ies:
                        for sw in value_switches(f, t["dst"]["l"]):
                            if sw["kind"] != "bool":
                                continue
                            f_t = sw["targets"].get("0")
                            t_t = sw["otherwise"]
                            if f_t is None:
                                continue
                            # is_empty() true edge; `inverted` when the scrutinee is !is_empty()
                            e_t = f_t if sw["inverted"] else t_t
                            empty_edges.add((sw["bb"], e_t))
                    seen, work = set(), [0]
                    while work:
                        x = work.pop()
                        if x in seen or x in rewrites:
                            continue
                        seen.add(x)
                        for y in f.cfg.succ[x]:
                            if (x, y) in empty_edges:
                                continue
                            work.append(y)
                    ok = wb not in seen and bool(rewrites) and bool(empty_edges)
                    detail = "every path to the wait either saw an empty completion channel or replaced the timeout" if ok else \
                        "the wait is reachable with the caller's timeout although the completion channel was not seen empty"
            ctx.ob("R6", "poll-does-not-block-on-queued-completions", ok,
                   "poll(): " + detail + " (a queued completion is delivered by this poll instead of sleeping on it)", f)

    # R8 fusion dispatch: every method of the fused driver forwards to the same-named method of whichever driver is active
    fus = [f for f in db.fns.values() if f.impl and f.impl.get("self_adt") == "compio_driver::sys::driver::fusion::Driver"
           and f.short not in ("new", "as_iour", "as_iour_mut", "default_extra", "as_raw_fd", "fmt")]
    if fus:
        ctx.rule("R8", "PARITY", "the fused driver forwards each call to the same-named method of both underlying drivers")
        ctx.floor("R8", "forwarding methods of fusion::Driver", len(fus), 7)
        for f in fus:
            tg = [t.get("fn", "") for bb, t in f.calls() if re.search(r"^compio_driver::sys::driver::(iour|poll)::Driver::\w+$", t.get("fn", ""))]
            names = {x.rsplit("::", 1)[-1] for x in tg}
            backs = {x.split("::driver::")[1].split("::")[0] for x in tg}
            ctx.ob("R8", "fusion-forwards:" + f.short, names == {f.short} and backs == {"iour", "poll"},
                   "fusion::Driver::%s forwards to %s of the io_uring *and* the polling driver (a result or a "
                   "cancellation routed to a different operation breaks 'its own result')" % (f.short, f.short), f)

    # R7 thread-pool closures
    fz = [(f, bb, t) for f, bb, t in db.callers_of(r"^compio_driver::key::ErasedKey::freeze$") if not f.blocks[bb]["cl"]]
    for f, bb, t in fz:
        for cid in f.closures():
            c = db.fns.get(cid)
            if c is None or not calls(c, r"FrozenKey::into_inner$"):
                continue
            cu = [b2 for b2, _ in calls(c, r"^compio_driver::panic::catch_unwind_io$")]
            sd = [b2 for b2, _ in calls(c, r"^flume::Sender::<T>::send$")]
            wk = [b2 for b2, _ in calls(c, r"^core::task::wake::Waker::(wake|wake_by_ref)$")]
            ctx.ob("R7", "call-send-wake-order:" + f.name,
                   len(cu) == 1 and len(sd) == 1 and len(wk) >= 1 and c.cfg.dominates(cu[0], sd[0]) and
                   all(c.cfg.dominates(sd[0], w) for w in wk) and c.cfg.postdominates(wk[0], 0),
                   "pool closure: blocking call (under catch_unwind_io) ≺ completed.send(entry) ≺ waker.wake(), on every path", c)
            direct = calls(c, r"::Carry::(call_blocking|operate)$")
            inner = Summaries(db, r"::Carry::(call_blocking|operate)$")
            nested = any(inner.may(db.fns[x]) for x in c.closures() if x in db.fns)
            ctx.ob("R7", "blocking-call-under-catch_unwind:" + f.name, not direct and nested,
                   "the op's blocking call runs inside the closure given to catch_unwind_io (a panic becomes an error result)", c)
            # the result sent is the result of catch_unwind_io
            ok = False
            for b2, t2 in calls(c, r"^compio_driver::Entry::new$"):
                if any(call_matches(x, r"catch_unwind_io$") for x in arg_origin_calls(c, t2, 1)):
                    ok = True
            ctx.ob("R7", "entry-carries-call-result:" + f.name, ok, "the entry sent back carries the job's own result", c)


def _restored(f, takes, stores, p):
    """Poll::Pending block p: on every path from the (last dominating) take to p there is a state store."""
    cfg = f.cfg
    doms = [t for t in takes if cfg.dominates(t, p)]
    if not doms:
        return False
    # is p reachable from the take without passing any store?
    for t in doms:
        if p in cfg.reach_set([t], avoid=set(stores)):
            return False
    return True


def check(tier):
    return engine.run("C02", tier, rules, NOT_DECIDED, [])
