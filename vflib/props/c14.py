"""C14 — Socket transports deliver exactly what was sent (structural clauses)."""
import re

from .. import engine
from .. import opcodes as oc
from ..facts import call_matches, op_place
from ..util import calls, receiver_field, guarded_by_bool, guarded_by_variant
from .c01 import has_iour, has_poll

NOT_DECIDED = ("the byte / datagram contents actually delivered; partial sends; truncation values; ordering between "
               "concurrent readers and writers")


def rules(ctx, db):
    R = ctx.rule
    R("R1", "DIR", "socket ops: read-direction data and control buffers are exposed through their capacity, "
      "write-direction ones through their initialised part, on every backend")
    R("R2", "PARITY", "every backend of every socket op consumes every constructor-supplied field, incl. the "
      "SendTo/RecvFrom header structs (fd, addr, flags)")
    R("R3", "ADV", "every receive API records the returned length on the buffer (vectored form for vectored buffers, "
      "take_buffer for managed ones) and the *from*/msg ones extract the source address")
    R("R4", "COVER", "values produced by the OS (address length, control length, message flags, accepted descriptor) "
      "are written back by every backend before into_inner() reads them")
    R("R5", "LOOP", "multishot receive / accept streams re-submit when the kernel ended the multishot op, and stop "
      "only on end-of-stream, error or a fired cancel token")
    R("R7", "FORWARD", "an op that wraps another op (managed / multishot / zero-copy / fused wrappers) forwards every trait "
      "method the inner op overrides")
    n7 = oc.rule_forward(ctx, db, "R7", want_socket=True)
    ctx.floor("R7", "wrapper forwarding obligations (socket ops)", n7, 10)
    n1 = oc.rule_dir(ctx, db, "R1", want_socket=True)
    both = has_iour(db) and has_poll(db)
    ctx.floor("R1", "direction-typed buffer parameters (socket ops)", n1, 20 if both else 10)
    n2 = oc.rule_parity(ctx, db, "R2", want_socket=True)
    ctx.floor("R2", "constructor-input obligations (socket ops)", n2, 100 if both else 50)
    n4 = oc.rule_outputs(ctx, db, "R4", want_socket=True)
    ctx.floor("R4", "output-field obligations (socket ops)", n4, 25 if both else 12)
    if any(n.startswith("compio_net::") for n in db.adts):
        n3 = oc.rule_adv(ctx, db, "R3", want_socket=True, crate_rx=r"^compio_(net|quic|runtime)::")
        ctx.floor("R3", "receive op submissions in compio-net", n3, 9)
        # *from* / msg receives: the address is extracted with map_addr
        for f, bb, t, adt in oc.op_ctor_calls(db, r"^compio_net::"):
            base = adt.rsplit("::", 1)[-1]
            if base in ("RecvFrom", "RecvFromVectored", "RecvMsg"):
                ok = any(f.cfg.dominates(bb, b2) for b2, _ in calls(f, r"^compio_driver::sys::op::ext::RecvResultExt::map_addr$"))
                ctx.ob("R3", "source-address-extracted:%s@%s" % (base, db.root_fn(f).name), ok,
                       "the datagram's source address (and control length / flags) travel to the caller (map_addr)", f)
    if any(n.startswith("compio_net::") for n in db.adts):
        R("R6", "ORD", "shutdown half-closes the *write* direction and nothing else; the split halves share one descriptor")
        sh = [f for f in db.fns.values() if f.id.startswith("compio_net::socket::") and "shutdown" in f.id and calls(f, r"ShutdownSocket::<S>::new$")]
        ctx.floor("R6", "Socket::shutdown bodies", len(sh), 1)
        for f in sh:
            t = calls(f, r"ShutdownSocket::<S>::new$")[0][1]
            a = t["args"][1]
            how = a.get("k", "")
            if not how:
                p = op_place(a)
                for r_ in f.cfg.origins(p["l"]) if p else []:
                    if r_[0] == "agg":
                        how = r_[3]["r"].get("var", "")
                    elif r_[0] == "const":
                        how = " ".join(o.get("k", "") for o in r_[3].get("ops", []))
            ctx.ob("R6", "shutdown-is-write-half-close", "Write" in how and "Both" not in how and "Read" not in how,
                   "Socket::shutdown sends Shutdown::Write (found `%s`): the peer sees end-of-stream while this side can still read" % how, f)
    if any(n.startswith("compio_runtime::") for n in db.adts):
        pn = [f for f in db.fns.values() if re.search(r"^<compio_runtime::future::stream::SubmitMultiStream<F> as futures_core::stream::Stream>::poll_next$", f.name)]
        if not pn:
            ctx.missing("R5", "SubmitMultiStream::poll_next")
        for f in pn:
            cr = [bb for bb, _ in calls(f, r"SubmitMultiFactory::create$")]
            inner = [bb for bb, t in calls(f, r"futures_core::stream::Stream::poll_next$")]
            ctx.ob("R5", "resubmits", len(cr) == 1 and len(inner) >= 1 and inner[0] in f.cfg.reach_from_block(cr[0]) and cr[0] in f.cfg.reach_from_block(inner[0]),
                   "when the inner multishot submission ends (None) the loop creates a new one and polls it", f)
            if cr:
                ctx.ob("R5", "no-resubmit-after-cancel", guarded_by_bool(f, cr[0], r"core::option::Option::<T>::is_some_and$", False) is not None,
                       "a fired cancel token ends the stream instead of re-submitting", f)
    from .c07 import stream_adapter_rules
    stream_adapter_rules(ctx, db, "R5")
    if any(n.startswith("compio_net::") for n in db.adts):
        inc = [f for f in db.fns.values() if re.search(r"^<compio_net::incoming::\w+::Incoming<'_> as futures_core::stream::Stream>::poll_next$", f.name)]
        if not inc:
            ctx.missing("R5", "Incoming::poll_next")
        for f in inc:
            sm = [bb for bb, _ in calls(f, r"^compio_runtime::(runtime::)?submit_multi$|compio_runtime::.*submit_multi$")]
            inner = [bb for bb, t in calls(f, r"poll_next_unpin$")]
            ctx.ob("R5", "incoming-resubmits", bool(sm) and bool(inner) and inner[0] in f.cfg.reach_from_block(sm[0]) and sm[0] in f.cfg.reach_from_block(inner[0]),
                   "Incoming re-arms the multishot accept when it ended, and keeps polling it", f)
            # each accepted connection is turned into a Socket exactly where it is yielded: from_raw_fd on the CQE result
            fr = calls(f, r"FromRawFd>::from_raw_fd$|::from_raw_fd$")
            ii = calls(f, r"compio_buf::IntoInner::into_inner$")
            ctx.ob("R5", "incoming-wraps-every-result", bool(fr) and bool(ii),
                   "both an intermediate multishot result and the final result are wrapped into an owning socket", f)


    if any(n.startswith("compio_net::") for n in db.adts):
        from .. import forward
        forward.rule_io_forwarders(ctx, db, "R8", ("compio_net::",), 12)
    if has_poll(db):
        ctx.rule("R9", "DIR", "a polling socket op waits for the readiness its system call needs (Readable for recv/accept, Writable for send/connect)")
        n9 = oc.rule_interest(ctx, db, "R9", want_socket=True)
        ctx.floor("R9", "polling socket ops with a readiness interest", n9, 16)


def check(tier):
    return engine.run("C14", tier, rules, NOT_DECIDED, [])
