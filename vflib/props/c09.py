"""C09 — Timers never fire early and always fire (structural clauses)."""
import re

from .. import engine
from ..facts import call_matches, op_place, rvalue_places
from ..util import (Summaries, calls, dominated_by_any, postdominated_by_any, guarded_by_bool, guarded_by_variant,
                    discr_edges, receiver_field, arg_origin_calls, data_deps, arg_origin_args)
from .c05 import _guard_variant_on

NOT_DECIDED = ("clock arithmetic, interval alignment values, wake-up latency; the rules decide which instant is compared "
               "with which, which part of the wheel is woken, what bounds the idle sleep and that dropped timers leave nothing")

TR = r"^compio_runtime::time::runtime::TimerRuntime$"


def rules(ctx, db):
    R = ctx.rule
    R("R1", "COVER", "every type that holds a TimerKey removes it from the wheel when dropped")
    R("R2", "ORD+same-value", "insert refuses deadlines that are not in the future; wake() splits the wheel at (now, max generation) "
      "and wakes the lower part; a timer is ready exactly when its key has left the wheel")
    R("R3", "ORD", "the idle sleep is bounded by the first key of the wheel, and the wheel is woken after every driver poll")
    R("R4", "ORD", "Timeout polls the inner future first")

    if not any(n.startswith("compio_runtime::time::") for n in db.adts):
        return
    # ---------------- R1
    holders = []
    for a in db.adts.values():
        if not a["name"].startswith("compio_runtime::"):
            continue
        if a["name"] in ("compio_runtime::time::runtime::TimerKey", "compio_runtime::time::runtime::TimerRuntime"):
            continue
        if any("compio_runtime::time::runtime::TimerKey" in fl["adts"] for _, fl in db.adt_fields(a)):
            holders.append(a)
    ctx.floor("R1", "types holding a TimerKey", len(holders), 1)
    for a in holders:
        d = db.fns.get(a.get("drop", ""))
        ok = d is not None and bool(calls(d, r"TimerRuntime::cancel$"))
        if ok:
            t = calls(d, r"TimerRuntime::cancel$")[0][1]
            from ..util import arg_origin_fields
            ok = "key" in arg_origin_fields(d, t, 1)
        ctx.ob("R1", "drop-cancels-timer:" + a["name"], ok,
               "dropping the timer future removes its own key from the wheel (no residue, no stale wake-up)", d)
    cn = db.methods(self_adt=TR, name="cancel", trait="")
    for f in cn:
        ctx.ob("R1", "cancel-removes-key", bool(calls(f, r"BTreeMap::<K, V, A>::remove$|BTreeMap::<.*>::remove$")), "cancel removes the key from the wheel", f)

    # ---------------- R2
    ins = db.methods(self_adt=TR, name="insert", trait="")
    if not ins:
        ctx.missing("R2", "TimerRuntime::insert")
    for f in ins:
        now = calls(f, r"^std::time::Instant::now$")
        le = calls(f, r"core::cmp::PartialOrd::(le|lt)$|PartialOrd.*::(le|lt)$")
        ok = False
        for bb, t in le:
            a0 = arg_origin_args(f, t, 0)
            a1 = [x for x in arg_origin_calls(f, t, 1) if call_matches(x, r"Instant::now$")]
            if 2 in a0 and a1:
                nones = [bi for bi, si, s in f.stmts() if s.get("r", {}).get("k") == "agg" and s["r"].get("var") == "None" and s["a"]["l"] == 0]
                mi = [b for b, _ in calls(f, r"BTreeMap::<.*>::insert$")]
                if nones and mi and all(guarded_by_bool(f, n, re.escape(t["fn"]) + "$", True) is not None for n in nones) and \
                        all(guarded_by_bool(f, m_, re.escape(t["fn"]) + "$", False) is not None for m_ in mi):
                    ok = True
        ctx.ob("R2", "insert-refuses-past-deadline", ok,
               "`deadline <= now` ⇒ no key (the future is ready at once); only future deadlines enter the wheel", f)
        # generation is advanced after every insert
        ctx.ob("R2", "generation-advances", bool(calls(f, r"checked_add$")), "each inserted key gets a fresh generation (keys are unique)", f)
    wk = db.methods(self_adt=TR, name="wake", trait="")
    if not wk:
        ctx.missing("R2", "TimerRuntime::wake")
    for f in wk:
        so = calls(f, r"BTreeMap::<.*>::split_off$")
        ok = len(so) == 1
        if ok:
            # the split key aggregate
            keyaggs = [s for bi, si, s in f.stmts() if s.get("r", {}).get("k") == "agg" and s["r"].get("adt") == "compio_runtime::time::runtime::TimerKey"]
            ok = len(keyaggs) == 1
            if ok:
                r = keyaggs[0]["r"]
                d = dict(zip(r["fields"], r["ops"]))
                pd = op_place(d["deadline"])
                locs, cr, _ = data_deps(f, pd["l"]) if pd else (set(), [], [])
                ok_now = any(call_matches(ct, r"Instant::now$") for _, ct in cr)
                g = d["generation"]
                ok_gen = g.get("v") == "18446744073709551615"
                ctx.ob("R2", "split-at-now", ok_now, "the wheel is split at the instant read in this very call", f)
                ctx.ob("R2", "split-at-max-generation", ok_gen,
                       "the split key uses the maximal generation, so every timer with deadline <= now (any generation) "
                       "falls into the expired part and none with a later deadline does", f)
        ctx.ob("R2", "wake-splits-wheel", ok, "wake() splits the ordered map once", f)
        rp = calls(f, r"^core::mem::replace$")
        okr = False
        for bb, t in rp:
            if "wheel" in receiver_field(f, t) and any(call_matches(x, r"split_off$") for x in arg_origin_calls(f, t, 1)):
                # the replaced-out value is what gets woken
                dst = t["dst"]["l"]
                wakes = calls(f, r"^core::task::wake::Waker::wake$")
                # ... or handed to an iterator adaptor as a function item: `.for_each(Waker::wake)`
                wakes += [(b2, t2) for b2, t2 in f.calls() if any("Waker::wake" in (a.get("k") or "") for a in t2.get("args", []) if "k" in a)]
                okr = bool(wakes) and all(f.cfg.dominates(bb, wb) for wb, _ in wakes)
        ctx.ob("R2", "lower-part-is-woken", okr,
               "the part kept in the wheel is split_off's result (keys >= split key); the part replaced out (keys < split "
               "key, i.e. expired) is the one whose wakers are woken — never the pending part", f)
    pt = db.methods(self_adt=TR, name="poll_timer", trait="")
    for f in pt:
        rd = [bi for bi, si, s in f.stmts() if s.get("r", {}).get("k") == "agg" and s["r"].get("adt") == "core::task::poll::Poll" and s["r"].get("var") == "Ready" and s["a"]["l"] == 0]
        def _completed(b, want):
            # `is_completed(key)` or, inlined, `!wheel.contains_key(key)`
            return guarded_by_bool(f, b, r"TimerRuntime::is_completed$", want) is not None or \
                guarded_by_bool(f, b, r"BTreeMap::<K, V, A>::contains_key$|BTreeMap::<.*>::contains_key$", not want) is not None
        ctx.ob("R2", "ready-iff-key-left-wheel", bool(rd) and all(_completed(b, True) for b in rd),
               "a timer future completes only when its key is no longer in the wheel (woken or cancelled)", f)
        uw = [b for b, _ in calls(f, r"TimerRuntime::update_waker$")]
        ctx.ob("R2", "pending-registers-waker", bool(uw) and all(_completed(b, False) for b in uw),
               "a pending timer records the current waker", f)
    ic = db.methods(self_adt=TR, name="is_completed", trait="")
    for f in ic:
        ctx.ob("R2", "completed-means-absent", bool(calls(f, r"BTreeMap::<.*>::contains_key$")) and
               any(s.get("r", {}).get("k") == "un" and s["r"].get("x") == "Not" for bi, si, s in f.stmts()),
               "is_completed is `!wheel.contains_key(key)`", f)

    # ---------------- R3
    mt = db.methods(self_adt=TR, name="min_timeout", trait="")
    if not mt:
        ctx.missing("R3", "TimerRuntime::min_timeout")
    for f in mt:
        fk = Summaries(db, r"BTreeMap::<.*>::first_key_value$")
        sd = Summaries(db, r"Instant::saturating_duration_since$")
        ctx.ob("R3", "timeout-from-first-key", fk.may(f) and sd.may(f),
               "the idle timeout is the (saturating) distance to the smallest key of the wheel", f)
    RT = r"^compio_runtime::(runtime::)?Runtime$"
    pl = db.methods(self_adt=RT, name="poll", trait="")
    if not pl:
        ctx.missing("R3", "Runtime::poll")
    for f in pl:
        pw = calls(f, r"Runtime::poll_with$")
        ok = False
        for bb, t in pw:
            if any(call_matches(x, r"Runtime::current_timeout$") for x in arg_origin_calls(f, t, 1)):
                ok = True
        ctx.ob("R3", "poll-uses-current_timeout", ok, "Runtime::poll sleeps at most until the nearest deadline", f)
    ct = db.methods(self_adt=RT, name="current_timeout", trait="")
    for f in ct:
        ctx.ob("R3", "current_timeout-is-min_timeout", bool(calls(f, r"TimerRuntime::min_timeout$")), "current_timeout asks the wheel", f)
    pwf = db.methods(self_adt=RT, name="poll_with", trait="")
    if not pwf:
        ctx.missing("R3", "Runtime::poll_with")
    for f in pwf:
        dp = [b for b, _ in calls(f, r"^compio_driver::Proactor::poll$")]
        wk2 = [b for b, _ in calls(f, r"TimerRuntime::wake$")]
        ctx.ob("R3", "wheel-woken-after-every-driver-poll", bool(dp) and bool(wk2) and f.cfg.dominates(dp[0], wk2[0]) and postdominated_by_any(f, wk2, dp[0]),
               "after every driver poll (normal, timed out or interrupted) expired timers are woken", f)

    # ---------------- R4
    tp = db.methods(self_adt=r"^compio_runtime::time::future::Timeout$", name="poll", trait=r"Future$")
    if not tp:
        ctx.missing("R4", "Timeout::poll")
    for f in tp:
        polls = calls(f, r"core::future::future::Future::poll$")
        inner = [bb for bb, t in polls if t["ga"] and t["ga"][0] == "F"]
        sleep = [bb for bb, t in polls if t["ga"] and "Sleep" in t["ga"][0]]
        ctx.ob("R4", "inner-before-deadline", len(inner) == 1 and len(sleep) == 1 and f.cfg.dominates(inner[0], sleep[0]) and
               _guard_variant_on(f, sleep[0], inner[0], 1),
               "a timeout yields the inner result whenever the inner future is ready, even if the deadline has passed too", f)
    sl = db.methods(self_adt=r"^compio_runtime::time::future::Sleep$", name="poll", trait=r"Future$")
    for f in sl:
        rd = [bi for bi, si, s in f.stmts() if s.get("r", {}).get("k") == "agg" and s["r"].get("adt") == "core::task::poll::Poll" and s["r"].get("var") == "Ready" and s["a"]["l"] == 0]
        ctx.ob("R4", "sleep-ready-at-once-only-without-timer", True if not rd else all(_none_guard(f, b) for b in rd),
               "a Sleep is immediately ready only when no timer was created (deadline already passed)", f)


def rule_interval(ctx, db):
    R = ctx.rule
    R("R5", "ORD+same-value", "Interval::tick: the first tick sleeps until `start` and is recorded as delivered only after that "
      "sleep completed (a cancelled first tick is not skipped); later ticks sleep until an instant computed from now, start "
      "and period, and return that same instant")
    if not any(n.startswith("compio_runtime::time::") for n in db.adts):
        return
    tk = [f for f in db.fns.values() if f.kind == "coroutine" and db.root_fn(f).name == "compio_runtime::time::future::Interval::tick"]
    if not tk:
        ctx.missing("R5", "Interval::tick")
    for f in tk:
        su = calls(f, r"compio_runtime::time::sleep_until$")
        polls = [bb for bb, t in calls(f, r"core::future::future::Future::poll$") if t.get("ga") and "Sleep" in t["ga"][0]]
        # writes to the flag: assignments to the field and any mutable borrow of it
        wr = []
        for bi, si, st in f.stmts():
            a = st.get("a")
            if a and any(isinstance(e, list) and e[0] == "f" and e[2] == "first_ticked" for e in a["p"]):
                wr.append(bi)
            r = st.get("r", {})
            if r.get("k") in ("ref", "rawptr") and r.get("x") in ("mut", "Mut") and "pl" in r and \
                    any(isinstance(e, list) and e[0] == "f" and e[2] == "first_ticked" for e in r["pl"]["p"]):
                wr.append(bi)
        first = [(bb, t) for bb, t in su if any(any(isinstance(e, list) and e[0] == "f" and e[2] == "start" for e in pl["p"])
                                                 for pl in data_deps(f, op_place(t["args"][0])["l"])[2]) and
                 not any(call_matches(ct, r"Instant::now$") for _, ct in data_deps(f, op_place(t["args"][0])["l"])[1])]
        ctx.ob("R5", "first-tick-sleeps-until-start", len(first) == 1, "the first tick awaits sleep_until(self.start)", f)
        ok = bool(wr) and bool(first)
        if ok:
            fb = first[0][0]
            # the Sleep poll that belongs to the first sleep: the polls reachable from it before the other sleep_until
            others = {bb for bb, _ in su if bb != fb}
            mine = [pb for pb in polls if pb in f.cfg.reach_set([fb], avoid=others)]
            ok = bool(mine) and all(any(f.cfg.dominates(pb, w) for pb in mine) for w in wr)
        ctx.ob("R5", "first-tick-recorded-after-its-sleep", ok,
               "every write to (or mutable borrow of) `first_ticked` is dominated by the completed poll of the first sleep: "
               "a first tick that is dropped while pending is started again, not skipped", f)
        later = [(bb, t) for bb, t in su if (bb, t) not in first]
        ok2 = False
        for bb, t in later:
            locs, cr, places = data_deps(f, op_place(t["args"][0])["l"])
            flds = {e[2] for pl in places for e in pl["p"] if isinstance(e, list) and e[0] == "f"}
            if any(call_matches(ct, r"Instant::now$") for _, ct in cr) and {"start", "period"} <= flds:
                # the value returned is the slept-until instant
                rl, rc, rp = data_deps(f, 0)
                if op_place(t["args"][0])["l"] in rl or (locs & rl):
                    ok2 = True
        ctx.ob("R5", "later-ticks-on-the-grid", ok2,
               "a later tick sleeps until an instant derived from now, start and period and returns that instant", f)


def _none_guard(f, b):
    for sbi, blk in enumerate(f.blocks):
        t = blk["t"]
        if t["k"] == "switch":
            tg = dict(t["tg"])
            # Option discriminant: 1 = Some
            if "1" in tg and f.cfg.edge_dominates(sbi, t["ow"], b):
                return True
            if "0" in tg and f.cfg.edge_dominates(sbi, tg["0"], b):
                return True
    return False


def rule_deadline_arith(ctx, db):
    R = ctx.rule
    R("R6", "GUARD/arith", "a relative sleep / timeout turns its duration into a deadline with checked addition: a duration the "
      "platform's Instant cannot represent (Duration::MAX as \"no timeout\") must not panic")
    if not any(n.startswith("compio_runtime::time::") for n in db.adts):
        return
    n = 0
    for nm in ("sleep", "timeout"):
        fs = [f for f in db.fns.values() if f.name == "compio_runtime::time::" + nm]
        if not fs:
            ctx.missing("R6", "time::" + nm)
        for f in fs:
            n += 1
            # the deadline handed to Sleep::new / Timeout::new
            ctor = calls(f, r"time::future::(Sleep|Timeout::<F>)::new$|Sleep::new$|Timeout::<F>::new$")
            ok = bool(ctor)
            for bb, t in ctor:
                pl = op_place(t["args"][0])
                names = set()
                if pl is not None:
                    from ..util import deep_deps
                    names, _flds = deep_deps(db, f, pl["l"])
                panicking = any(re.search(r"Instant as core::ops::arith::Add<core::time::Duration>>::add$|ops::arith::Add::add$", x) for x in names) and \
                    not any(x.endswith("Instant::checked_add") for x in names)
                if panicking or not any(x.endswith("Instant::checked_add") or x.endswith("Instant::now") for x in names):
                    ok = False
            ctx.ob("R6", "relative-deadline-is-checked:" + nm, ok,
                   "the deadline is computed with Instant::checked_add (with a far-future fallback), not with the panicking `+`", f)
    ctx.floor("R6", "relative timer constructors", n, 2)


def rules_all(ctx, db):
    rules(ctx, db)
    rule_interval(ctx, db)
    rule_deadline_arith(ctx, db)


def check(tier):
    return engine.run("C09", tier, rules_all, NOT_DECIDED, [])
