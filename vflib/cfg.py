"""Per-function CFG helpers over the MIR facts: dominators, post-dominators on normal
edges (unwind edges, cleanup blocks and the coroutine-drop edge of Yield are not normal
exits), reachability with forbidden nodes, edge dominance, and a small def/use dataflow."""
from collections import defaultdict

from .facts import op_place, rvalue_places, term_operands


def _term_succ(t, normal=True):
    k = t["k"]
    out = []
    if k == "goto":
        out.append(t["t"])
    elif k == "switch":
        for _, bb in t["tg"]:
            out.append(bb)
        out.append(t["ow"])
    elif k in ("call", "drop", "assert"):
        if t.get("t") is not None:
            out.append(t["t"])
        if not normal and t.get("u") is not None:
            out.append(t["u"])
    elif k == "yield":
        out.append(t["t"])
        if not normal and t.get("drop") is not None:
            out.append(t["drop"])
    elif k == "asm":
        out.extend(t.get("tg", []))
    # return, resume, terminate, unreachable, coroutine_drop, tailcall: none
    seen = []
    for x in out:
        if x not in seen:
            seen.append(x)
    return seen


class CFG:
    def __init__(self, fn):
        self.fn = fn
        self.n = len(fn.blocks)
        self.succ = [_term_succ(b["t"], True) for b in fn.blocks]
        self.succ_all = [_term_succ(b["t"], False) for b in fn.blocks]
        self.pred = [[] for _ in range(self.n)]
        for i, ss in enumerate(self.succ):
            for s in ss:
                self.pred[s].append(i)
        self.returns = [i for i, b in enumerate(fn.blocks) if b["t"]["k"] in ("return", "tailcall") and not b["cl"]]
        self._dom = None
        self._pdom = None
        self._reach_cache = {}
        self._defs = None

    # ---- dominators ---------------------------------------------------------
    @staticmethod
    def _idoms(n, entry, succ, pred):
        # reverse postorder
        order = []
        seen = [False] * n
        stack = [(entry, iter(succ[entry]))]
        seen[entry] = True
        while stack:
            node, it = stack[-1]
            adv = False
            for s in it:
                if not seen[s]:
                    seen[s] = True
                    stack.append((s, iter(succ[s])))
                    adv = True
                    break
            if not adv:
                order.append(node)
                stack.pop()
        rpo = list(reversed(order))
        idx = {b: i for i, b in enumerate(rpo)}
        idom = {entry: entry}
        changed = True
        while changed:
            changed = False
            for b in rpo[1:]:
                new = None
                for p in pred[b]:
                    if p in idom:
                        if new is None:
                            new = p
                        else:
                            a, c = p, new
                            while a != c:
                                while idx[a] > idx[c]:
                                    a = idom[a]
                                while idx[c] > idx[a]:
                                    c = idom[c]
                            new = a
                if new is not None and idom.get(b) != new:
                    idom[b] = new
                    changed = True
        return idom

    @property
    def idom(self):
        if self._dom is None:
            self._dom = self._idoms(self.n, 0, self.succ, self.pred)
        return self._dom

    def reachable_from_entry(self, b):
        return b in self.idom

    def dominates(self, a, b):
        """block a dominates block b (reflexive) on normal edges. Unreachable b -> True."""
        idom = self.idom
        if b not in idom:
            return True
        x = b
        while True:
            if x == a:
                return True
            p = idom[x]
            if p == x:
                return False
            x = p

    @property
    def ipdom(self):
        if self._pdom is None:
            n = self.n
            exit_ = n
            succ = [list(p) for p in self.pred] + [list(self.returns)]
            pred = [list(s) for s in self.succ] + [[]]
            for r in self.returns:
                pred[r] = pred[r] + [exit_]
            self._pdom = self._idoms(n + 1, exit_, succ, pred)
        return self._pdom

    def can_return(self, b):
        return b in self.ipdom

    def postdominates(self, a, b):
        """a post-dominates b: every normal path from b to a return passes a.
        If b cannot reach a return at all, vacuously True."""
        ip = self.ipdom
        if b not in ip:
            return True
        x = b
        while True:
            if x == a:
                return True
            p = ip[x]
            if p == x or p == self.n:
                return False
            x = p

    # ---- reachability -------------------------------------------------------
    def reach_set(self, srcs, avoid=(), normal=True, include_src=False):
        """Blocks reachable from the successors of srcs without entering `avoid`."""
        avoid = set(avoid)
        succ = self.succ if normal else self.succ_all
        seen = set()
        work = []
        for s in srcs:
            if include_src:
                if s not in avoid:
                    work.append(s)
            else:
                for x in succ[s]:
                    if x not in avoid:
                        work.append(x)
        while work:
            x = work.pop()
            if x in seen:
                continue
            seen.add(x)
            for y in succ[x]:
                if y not in avoid and y not in seen:
                    work.append(y)
        return seen

    def reaches(self, a, b, avoid=()):
        return b in self.reach_set([a], avoid)

    def reach_from_block(self, start, avoid=()):
        """blocks reachable starting AT start (inclusive)."""
        return self.reach_set([start], avoid, include_src=True)

    # ---- edge dominance -----------------------------------------------------
    def edge_dominates(self, s, t, b):
        """Every normal path entry -> b traverses edge s->t."""
        # b reachable from entry without using edge (s,t)?
        seen = set()
        work = [0]
        while work:
            x = work.pop()
            if x in seen:
                continue
            seen.add(x)
            if x == b:
                return False
            for y in self.succ[x]:
                if x == s and y == t:
                    continue
                if y not in seen:
                    work.append(y)
        return True

    def reach_via_edge_only(self, s, t):
        """Set of blocks b such that edge s->t dominates b."""
        # blocks reachable from entry without the edge
        seen = set()
        work = [0]
        while work:
            x = work.pop()
            if x in seen:
                continue
            seen.add(x)
            for y in self.succ[x]:
                if x == s and y == t:
                    continue
                if y not in seen:
                    work.append(y)
        allr = self.reach_from_block(0)
        return allr - seen

    # ---- def/use ------------------------------------------------------------
    @property
    def defs(self):
        """local -> list of ('assign', bb, idx, stmt) | ('call', bb, term) | ('arg',)"""
        if self._defs is None:
            d = defaultdict(list)
            fn = self.fn
            for l in range(1, fn.argc + 1):
                d[l].append(("arg",))
            for bi, b in enumerate(fn.blocks):
                for si, s in enumerate(b["st"]):
                    if "a" in s:
                        d[s["a"]["l"]].append(("assign", bi, si, s))
                t = b["t"]
                if t["k"] == "call":
                    d[t["dst"]["l"]].append(("call", bi, t))
            self._defs = d
        return self._defs

    def origins(self, local, max_steps=200, through_calls=None, follow_fields=False):
        """Trace a local back through copies / moves / refs / casts / derefs.
        Returns a list of roots: ('arg', n, path) | ('call', bb, term) | ('const', op) |
        ('place', place) for field loads of other locals | ('agg', stmt) | ('other', stmt).
        `through_calls`: optional predicate(term) -> index of the argument whose value flows to
        the result (e.g. Deref::deref, Pin::get_mut, Into::into ...)."""
        roots = []
        seen = set()
        work = [local]
        steps = 0
        while work and steps < max_steps:
            l = work.pop()
            if l in seen:
                continue
            seen.add(l)
            steps += 1
            ds = self.defs.get(l, [])
            if not ds:
                roots.append(("undef", l))
            for d in ds:
                if d[0] == "arg":
                    roots.append(("arg", l))
                elif d[0] == "call":
                    t = d[2]
                    idx = through_calls(t) if through_calls else None
                    if idx is not None and idx < len(t["args"]):
                        p = op_place(t["args"][idx])
                        if p is not None:
                            work.append(p["l"])
                            continue
                    roots.append(("call", d[1], t))
                else:
                    s = d[3]
                    if s["a"]["p"]:
                        # partial assignment into a field of l: treat as other
                        roots.append(("partial", d[1], d[2], s))
                        continue
                    r = s["r"]
                    k = r["k"]
                    if k in ("use", "cast", "ref", "rawptr", "un", "repeat"):
                        ps = rvalue_places(r)
                        if ps:
                            for p in ps:
                                flds = [e for e in p["p"] if isinstance(e, list) and e[0] == "f"]
                                if any(not _transparent(e[3]) for e in flds):
                                    # a field of a real ADT / closure env: a sub-part, stop here
                                    roots.append(("place", d[1], d[2], p))
                                    if follow_fields:
                                        work.append(p["l"])
                                else:
                                    work.append(p["l"])
                        else:
                            roots.append(("const", d[1], d[2], r))
                    elif k == "agg":
                        roots.append(("agg", d[1], d[2], s))
                    else:
                        roots.append(("other", d[1], d[2], s))
        return roots

    def derived_locals(self, src_locals, through_calls=None):
        """Forward closure: all locals whose value derives (copy/move/ref/cast/field-of) from
        any local in src_locals. through_calls(term) -> arg index propagated to dst."""
        fn = self.fn
        out = set(src_locals)
        changed = True
        while changed:
            changed = False
            for bi, b in enumerate(fn.blocks):
                for s in b["st"]:
                    if "a" not in s:
                        continue
                    r = s["r"]
                    if r["k"] in ("use", "cast", "ref", "rawptr", "un", "agg", "bin", "discr", "repeat"):
                        for p in rvalue_places(r):
                            if p["l"] in out and s["a"]["l"] not in out:
                                out.add(s["a"]["l"])
                                changed = True
                t = b["t"]
                if t["k"] == "call" and through_calls is not None:
                    idxs = through_calls(t)
                    if idxs is None:
                        continue
                    if isinstance(idxs, int):
                        idxs = [idxs]
                    for idx in idxs:
                        if idx < len(t["args"]):
                            p = op_place(t["args"][idx])
                            if p is not None and p["l"] in out and t["dst"]["l"] not in out:
                                out.add(t["dst"]["l"])
                                changed = True
        return out


_TRANSPARENT = ("core::option::Option", "core::result::Result", "core::ops::control_flow::ControlFlow",
                "core::task::poll::Poll", "tuple", "compio_buf::buf_result::BufResult", "core::pin::Pin",
                "core::mem::manually_drop::ManuallyDrop")


def _transparent(owner):
    return any(owner.startswith(t) for t in _TRANSPARENT)


def all_args(t):
    return list(range(len(t.get("args", []))))
