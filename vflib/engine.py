"""Rule context: obligations, fail-closed anchors and floors, evidence, known findings."""
import json
import os
import re
import sys
import time

from . import extract
from .facts import DB

VERIF = extract.VERIF
_DBS = {}


def db(cfg):
    if cfg not in _DBS:
        _DBS[cfg] = DB.load(cfg)
    return _DBS[cfg]


class Ctx:
    def __init__(self, prop, tier, configs):
        self.prop = prop
        self.tier = tier
        self.configs = configs
        self.obligations = []      # dicts: rule, instance, ok, detail, where, config
        self.rules = {}            # rule id -> description
        self.functions = set()
        self.call_sites = 0
        self.notes = []
        self.t0 = time.time()
        self.cfg = None            # current config id while a rule runs

    # -- bookkeeping ---------------------------------------------------------
    def rule(self, rid, template, text):
        self.rules[rid] = {"template": template, "text": text}

    def analysed(self, *fns):
        for f in fns:
            if f is not None:
                self.functions.add((self.cfg, f.id))

    def sites(self, n=1):
        self.call_sites += n

    def ob(self, rule, instance, ok, detail="", where=None):
        """Record one obligation (rule instance)."""
        if hasattr(where, "where"):
            self.analysed(where)
            where = "%s (%s)" % (where.name, where.where)
        self.obligations.append({
            "rule": rule, "instance": instance, "ok": bool(ok), "detail": detail,
            "where": where, "config": self.cfg,
        })
        return bool(ok)

    def missing(self, rule, what):
        """Fail closed: an anchor this rule needs could not be located."""
        return self.ob(rule, "anchor-missing:" + what, False,
                       "anchor not found (fail closed): " + what)

    def floor(self, rule, what, count, minimum):
        return self.ob(rule, "floor:" + what, count >= minimum,
                       "%s: found %d, floor %d (confirmed by reading)" % (what, count, minimum))

    def note(self, s):
        self.notes.append(s)


def violation_key(prop, o):
    return "%s/%s/%s" % (prop, o["rule"], o["instance"])


def load_known():
    p = os.path.join(VERIF, "known_findings.json")
    try:
        return json.load(open(p))
    except FileNotFoundError:
        return {"findings": [], "fixed": []}


def finish(ctx, not_decided, assumptions):
    """Write evidence, print violations / known findings, return exit code."""
    prop = ctx.prop
    known = load_known()
    known_keys = {k["key"]: k for k in known.get("findings", []) if k.get("property") == prop}
    # aggregate by key across configs
    agg = {}
    for o in ctx.obligations:
        k = violation_key(prop, o)
        a = agg.setdefault(k, {"key": k, "rule": o["rule"], "instance": o["instance"], "ok": True,
                               "configs": [], "fail_configs": [], "detail": o["detail"], "where": o["where"]})
        a["configs"].append(o["config"])
        if not o["ok"]:
            a["ok"] = False
            a["fail_configs"].append(o["config"])
            a["detail"] = o["detail"]
            a["where"] = o["where"]
    fails = [a for a in agg.values() if not a["ok"]]
    new = [a for a in fails if a["key"] not in known_keys]
    kn = [a for a in fails if a["key"] in known_keys]
    evdir = os.environ.get("VF_EVIDENCE_DIR") or os.path.join(VERIF, "evidence")
    os.makedirs(evdir, exist_ok=True)
    vdir = os.path.join(evdir, prop + ".violations")
    if os.path.isdir(vdir):
        for f in os.listdir(vdir):
            os.unlink(os.path.join(vdir, f))
    for a in kn:
        print("KNOWN-FINDING: property=%s %s — %s" % (prop, a["key"], known_keys[a["key"]].get("what", a["detail"])))
    for a in new:
        os.makedirs(vdir, exist_ok=True)
        fname = re.sub(r"[^A-Za-z0-9_.-]+", "_", a["key"])[:180] + ".json"
        path = os.path.join(vdir, fname)
        rep = dict(a)
        rep["property"] = prop
        rep["rule_text"] = ctx.rules.get(a["rule"], {})
        json.dump(rep, open(path, "w"), indent=1)
        print("VIOLATION property=%s replay=%s" % (prop, path))
        print("  rule %s [%s] instance %s" % (a["rule"], ctx.rules.get(a["rule"], {}).get("template", "?"), a["instance"]))
        print("  at %s (configs %s)" % (a["where"], ",".join(sorted(set(a["fail_configs"])))))
        print("  %s" % a["detail"])
    n_ob = len(agg)
    n_ok = sum(1 for a in agg.values() if a["ok"])
    per_rule = {}
    for a in agg.values():
        r = per_rule.setdefault(a["rule"], {"instances": 0, "discharged": 0})
        r["instances"] += 1
        r["discharged"] += 1 if a["ok"] else 0
    samples = []
    seen_rules = set()
    for a in agg.values():
        if a["rule"] not in seen_rules or len(samples) < 12:
            if sum(1 for s in samples if s["rule"] == a["rule"]) < 3:
                samples.append({"rule": a["rule"], "instance": a["instance"], "where": a["where"],
                                "verdict": "holds" if a["ok"] else "VIOLATED", "detail": a["detail"][:300]})
                seen_rules.add(a["rule"])
    ev = {
        "property_id": prop,
        "tier": ctx.tier,
        "seed": int(os.environ.get("VERIF_SEED", "0") or 0),
        "level": "other",
        "coverage": {
            "explanation": (
                "Static analysis of /repo's current working tree: MIR/HIR facts extracted by a "
                "rustc_private driver under cargo +nightly check in configurations %s; the rules below "
                "are universally quantified over the enumerated code constructs (functions, call sites, "
                "ADT fields, impls) and decide structural necessary conditions of the property, not the "
                "behaviour itself. NOT decided: %s" % (",".join(ctx.configs), not_decided)),
            "obligations": n_ob,
            "discharged": n_ok,
            "evaluations": len(ctx.obligations),
            "distinct_nontrivial": n_ob,
            "rule": "one evaluation = one rule instance (rule x code construct) in one build configuration; "
                    "distinct = distinct (rule, construct) keys; every instance is non-trivial in that it "
                    "matched a concrete construct of the current tree (anchors that match nothing fail closed)",
            "samples": samples,
            "exhaustive": True,
            "rules": {rid: dict(ctx.rules.get(rid, {}), **per_rule.get(rid, {"instances": 0, "discharged": 0}))
                      for rid in sorted(set(list(ctx.rules) + list(per_rule)))},
            "functions_analysed": len(ctx.functions),
            "call_sites": ctx.call_sites,
            "configs": {c: extract.CONFIGS[c][2] for c in ctx.configs},
            "source_key": {c: db(c).info.get("key") for c in ctx.configs},
            "known_findings_reported": [a["key"] for a in kn],
            "notes": ctx.notes,
        },
        "assumptions": assumptions,
        "wall_s": round(time.time() - ctx.t0, 2),
        "violations": len(new),
    }
    json.dump(ev, open(os.path.join(evdir, prop + ".json"), "w"), indent=1)
    print("[%s] tier=%s configs=%s rules=%d obligations=%d discharged=%d violations=%d known=%d functions=%d wall=%.1fs" % (
        prop, ctx.tier, ",".join(ctx.configs), len(ctx.rules), n_ob, n_ok, len(new), len(kn),
        len(ctx.functions), time.time() - ctx.t0))
    return 1 if new else 0


def run(prop, tier, rule_fn, not_decided, assumptions, configs=None):
    """Common driver: evaluate rule_fn(ctx, db) in every configuration of the tier."""
    cfgs = configs or (["A", "E"] if tier == "quick" else ["A", "B", "C", "D", "E"])
    ctx = Ctx(prop, tier, cfgs)
    for c in cfgs:
        d = db(c)
        ctx.cfg = c
        rule_fn(ctx, d)
    ctx.cfg = None
    base = [
        "rustc nightly's type-checked MIR (mir_promoted, mir-opt-level=0) is a faithful image of the source",
        "third-party crates (io-uring, thin-cell, synchrony, flume, polling, quinn-proto) behave as documented",
        "only the Linux/unix cfg arms are analysed (no Windows/IOCP, kqueue, FreeBSD AIO)",
        "helper calls are followed to depth 4 inside the workspace; generic callees are decided on the trait method",
    ]
    return finish(ctx, not_decided, base + list(assumptions))
