"""Fact base: loads the JSON-lines files written by factdrv and indexes them."""
import glob
import json
import os
import re
from collections import defaultdict

from . import extract


class Fn:
    __slots__ = ("rec", "id", "name", "kind", "file", "line", "blocks", "locals", "argc",
                 "impl", "db", "_cfg", "root", "parent", "short")

    def __init__(self, rec, db):
        self.rec = rec
        self.db = db
        self.id = rec["id"]
        self.name = rec["name"]
        self.kind = rec["kind"]
        self.file = rec["file"]
        self.line = rec["line"]
        self.blocks = rec.get("blocks", [])
        self.locals = rec.get("locals", [])
        self.argc = rec.get("argc", 0)
        self.impl = rec.get("impl")
        self.root = rec.get("root")
        self.parent = rec.get("parent")
        self._cfg = None
        self.short = self.id.rsplit("::", 1)[-1]

    def __repr__(self):
        return "<Fn %s>" % self.id

    @property
    def where(self):
        return "%s:%d" % (self.file, self.line)

    @property
    def self_adt(self):
        return self.impl.get("self_adt") if self.impl else None

    @property
    def trait(self):
        return self.impl.get("trait") if self.impl else None

    @property
    def preds(self):
        return self.rec.get("preds", [])

    def calls(self, include_cleanup=False):
        """Yield (bb_index, terminator) for every call terminator."""
        for i, b in enumerate(self.blocks):
            if b["cl"] and not include_cleanup:
                continue
            t = b["t"]
            if t["k"] in ("call", "tailcall"):
                yield i, t

    def stmts(self, include_cleanup=False):
        for i, b in enumerate(self.blocks):
            if b["cl"] and not include_cleanup:
                continue
            for j, s in enumerate(b["st"]):
                yield i, j, s

    def local_ty(self, l):
        return self.locals[l][0]

    def local_name(self, l):
        return self.locals[l][1]

    @property
    def cfg(self):
        if self._cfg is None:
            from .cfg import CFG
            self._cfg = CFG(self)
        return self._cfg

    def closures(self):
        """ids of closures / coroutines constructed in this body."""
        out = []
        for _, _, s in self.stmts(include_cleanup=True):
            r = s.get("r")
            if r and r["k"] == "agg" and r.get("x") in ("closure", "coroutine", "coroutine_closure"):
                out.append(r["def"])
        return out


def callee_ids(t):
    """(declared id, resolved id or None)"""
    return t.get("fnid"), t.get("rfnid")


def callee_name(t):
    return t.get("rfn") or t.get("fn") or ""


def call_matches(t, pat):
    """pat: regex (compiled or str) searched in declared and resolved callee names."""
    if isinstance(pat, str):
        pat = re.compile(pat)
    f = t.get("fn")
    if f and pat.search(f):
        return True
    r = t.get("rfn")
    if r and pat.search(r):
        return True
    return False


class DB:
    def __init__(self, cfg):
        self.cfg = cfg
        self.fns = {}
        self.by_short = defaultdict(list)
        self.adts = {}
        self.impls = []
        self.traits = {}
        self.crates = []
        self.info = None
        self._callers = None
        self._trait_impl_items = None
        self._succ_cache = {}

    @classmethod
    def load(cls, cfg):
        info = extract.ensure(cfg)
        db = cls(cfg)
        db.info = info
        fdir = extract.facts_dir(cfg)
        for p in sorted(glob.glob(os.path.join(fdir, "*.jsonl"))):
            with open(p) as fh:
                for line in fh:
                    r = json.loads(line)
                    k = r["rec"]
                    if k == "fn":
                        f = Fn(r, db)
                        db.fns[f.id] = f
                        db.by_short[f.short].append(f)
                    elif k == "adt":
                        db.adts[r["name"]] = r
                    elif k == "impl":
                        db.impls.append(r)
                    elif k == "trait":
                        db.traits[r["name"]] = r
                    elif k == "crate":
                        db.crates.append(r["name"])
        return db

    # ---- lookup helpers -------------------------------------------------
    def find(self, pred):
        return [f for f in self.fns.values() if pred(f)]

    def named(self, regex):
        rx = re.compile(regex)
        return [f for f in self.fns.values() if rx.search(f.name)]

    def by_id(self, regex):
        rx = re.compile(regex)
        return [f for f in self.fns.values() if rx.search(f.id)]

    def methods(self, self_adt=None, name=None, trait=None, crate=None):
        """Functions in impls filtered by self ADT path regex / method name / trait regex."""
        out = []
        cands = self.by_short.get(name, []) if name else self.fns.values()
        for f in cands:
            if f.impl is None:
                continue
            if self_adt is not None and not re.search(self_adt, f.impl.get("self_adt") or f.impl.get("self") or ""):
                continue
            if trait is not None:
                if trait == "" and f.impl.get("trait"):
                    continue
                if trait and not re.search(trait, f.impl.get("trait") or ""):
                    continue
            if crate and not f.id.startswith(crate + "::"):
                continue
            out.append(f)
        return out

    def adt(self, regex):
        rx = re.compile(regex)
        return [a for n, a in self.adts.items() if rx.search(n)]

    def adt_fields(self, adt_rec):
        for v in adt_rec["variants"]:
            for fld in v["fields"]:
                yield v["name"], fld

    # ---- call graph ------------------------------------------------------
    def trait_impl_items(self):
        """(trait name, item name) -> [fn ids] over workspace impls."""
        if self._trait_impl_items is None:
            m = defaultdict(list)
            for imp in self.impls:
                tr = imp["info"].get("trait")
                if not tr:
                    continue
                for (nm, fid) in imp["items"]:
                    m[(tr, nm)].append(fid)
            self._trait_impl_items = m
        return self._trait_impl_items

    def callee_fns(self, t, expand_traits=True):
        """Workspace Fn objects a call terminator may invoke."""
        out = []
        rid = t.get("rfnid")
        if rid and rid in self.fns:
            return [self.fns[rid]]
        fid = t.get("fnid")
        if fid is None:
            return out
        if fid in self.fns:
            out.append(self.fns[fid])
        if rid is None and expand_traits and t.get("tr"):
            nm = fid.rsplit("::", 1)[-1]
            for iid in self.trait_impl_items().get((t["tr"], nm), []):
                if iid in self.fns and self.fns[iid] not in out:
                    out.append(self.fns[iid])
        return out

    def succ_fns(self, f, expand_traits=True):
        """Workspace functions directly called from f, plus closures/coroutines it builds."""
        key = (f.id, expand_traits)
        r = self._succ_cache.get(key)
        if r is None:
            r = []
            seen = set()
            for _, t in f.calls(include_cleanup=True):
                for g in self.callee_fns(t, expand_traits):
                    if g.id not in seen:
                        seen.add(g.id)
                        r.append(g)
            for cid in f.closures():
                if cid in self.fns and cid not in seen:
                    seen.add(cid)
                    r.append(self.fns[cid])
            self._succ_cache[key] = r
        return r

    def callers(self):
        """callee id (declared and resolved) -> list of (Fn, bb)"""
        if self._callers is None:
            m = defaultdict(list)
            for f in self.fns.values():
                for bb, t in f.calls(include_cleanup=True):
                    ids = set(x for x in (t.get("fnid"), t.get("rfnid")) if x)
                    for i in ids:
                        m[i].append((f, bb))
            self._callers = m
        return self._callers

    def callers_of(self, regex, by="name"):
        """All (Fn, bb, term) whose callee (declared or resolved name) matches regex."""
        rx = re.compile(regex)
        out = []
        for f in self.fns.values():
            for bb, t in f.calls(include_cleanup=True):
                if call_matches(t, rx):
                    out.append((f, bb, t))
        return out

    def reach(self, f, pred, depth=4, expand_traits=True, _seen=None):
        """Does f (transitively, through workspace callees and closures, up to depth) contain a
        call terminator satisfying pred(t)? Returns the witness chain or None."""
        if _seen is None:
            _seen = set()
        if f.id in _seen:
            return None
        _seen.add(f.id)
        for bb, t in f.calls(include_cleanup=False):
            if pred(t):
                return [(f, bb)]
        if depth <= 0:
            return None
        for g in self.succ_fns(f, expand_traits):
            w = self.reach(g, pred, depth - 1, expand_traits, _seen)
            if w:
                return [(f, None)] + w
        return None

    def root_fn(self, f):
        """The enclosing non-closure function of a closure/coroutine (or f itself)."""
        if f.root and f.root in self.fns:
            return self.fns[f.root]
        return f

    def body_of(self, f):
        """For an `async fn`, the coroutine holding its real body; else f."""
        if f.rec.get("async"):
            for cid in f.closures():
                g = self.fns.get(cid)
                if g is not None and g.kind == "coroutine":
                    return g
        return f


# ---- operand / place helpers ------------------------------------------------

def op_place(op):
    if op is None:
        return None
    return op.get("c") or op.get("m")


def op_local(op):
    p = op_place(op)
    return p["l"] if p else None


def place_fields(p):
    """list of field names in a place projection."""
    return [e[2] for e in p["p"] if isinstance(e, list) and e[0] == "f"]


def place_has_field(p, name, owner_rx=None):
    for e in p["p"]:
        if isinstance(e, list) and e[0] == "f" and e[2] == name:
            if owner_rx is None or re.search(owner_rx, e[3]):
                return True
    return False


def rvalue_places(r):
    """All places read by an rvalue."""
    out = []
    if r is None:
        return out
    if "pl" in r:
        out.append(r["pl"])
    for op in r.get("ops", []):
        p = op_place(op)
        if p:
            out.append(p)
    return out


def term_operands(t):
    ops = []
    k = t["k"]
    if k in ("call", "tailcall"):
        ops.extend(t.get("args", []))
        if "fnop" in t:
            ops.append(t["fnop"])
    elif k == "switch":
        ops.append(t["op"])
    elif k == "assert":
        ops.append(t["cond"])
        ops.extend(t.get("ops", []))
    elif k == "yield":
        ops.append(t["val"])
    return ops
