"""Human-readable rendering of the MIR facts (debugging aid and violation reports)."""

def place(p, fn=None):
    s = "_%d" % p["l"]
    if fn is not None and fn.locals[p["l"]][1]:
        s = "%s(_%d)" % (fn.locals[p["l"]][1], p["l"])
    for e in p["p"]:
        if e == "*":
            s = "(*%s)" % s
        elif isinstance(e, list):
            if e[0] == "f":
                s = "%s.%s" % (s, e[2])
            elif e[0] == "d":
                s = "(%s as %s)" % (s, e[1])
            elif e[0] == "i":
                s = "%s[_%d]" % (s, e[1])
            else:
                s = "%s[%s]" % (s, e[0])
        else:
            s = "%s.<%s>" % (s, e)
    return s


def operand(o, fn=None):
    if "c" in o:
        return place(o["c"], fn)
    if "m" in o:
        return "move " + place(o["m"], fn)
    return "const " + o.get("k", "?")


def rvalue(r, fn=None):
    k = r["k"]
    ops = ", ".join(operand(o, fn) for o in r.get("ops", []))
    if k == "use":
        return ops
    if k in ("ref", "rawptr"):
        return "&%s %s" % (r.get("x", ""), place(r["pl"], fn))
    if k == "discr":
        return "discr(%s)" % place(r["pl"], fn)
    if k == "agg":
        x = r.get("x")
        if x == "adt":
            return "%s::%s{%s}" % (r["adt"], r["var"], ops)
        if x in ("closure", "coroutine", "coroutine_closure"):
            return "%s %s [%s]" % (x, r["def"], ops)
        return "%s(%s)" % (x, ops)
    if k == "cast":
        return "%s as %s [%s]" % (ops, r.get("ty"), r.get("x"))
    return "%s.%s(%s)" % (k, r.get("x", ""), ops)


def term(t, fn=None):
    k = t["k"]
    if k in ("call", "tailcall"):
        callee = t.get("rfn") or t.get("fn") or ("indirect " + operand(t["fnop"], fn))
        if t.get("rfn") and t.get("fn"):
            callee = "%s  [decl %s]" % (t["rfn"], t["fn"])
        args = ", ".join(operand(a, fn) for a in t.get("args", []))
        dst = place(t["dst"], fn) if "dst" in t else "?"
        return "%s = %s(%s) -> bb%s unwind bb%s  <%s>" % (dst, callee, args, t.get("t"), t.get("u"), ",".join(t.get("ga", [])))
    if k == "switch":
        return "switch %s : %s -> %s otherwise bb%d" % (operand(t["op"], fn), t.get("oty"), t["tg"], t["ow"])
    if k == "drop":
        return "drop %s -> bb%s unwind bb%s" % (place(t["pl"], fn), t["t"], t.get("u"))
    if k == "assert":
        return "assert %s == %s [%s] -> bb%s" % (operand(t["cond"], fn), t["expected"], t["msg"], t["t"])
    if k == "yield":
        return "yield %s -> bb%s drop bb%s" % (operand(t["val"], fn), t["t"], t.get("drop"))
    if k == "goto":
        return "goto bb%s" % t["t"]
    return k


def fn_text(fn):
    out = []
    out.append("fn %s  [%s]  %s:%d  kind=%s" % (fn.name, fn.id, fn.file, fn.line, fn.kind))
    if fn.impl:
        out.append("  impl: trait=%s self=%s preds=%s" % (fn.impl.get("trait"), fn.impl.get("self"), fn.impl.get("preds")))
    if fn.rec.get("upvars"):
        out.append("  upvars: %s" % fn.rec["upvars"])
    for i, (ty, nm) in enumerate(fn.locals):
        out.append("  let _%d%s: %s%s" % (i, ("(" + nm + ")") if nm else "", ty, "  // arg" if 1 <= i <= fn.argc else ""))
    for d in fn.rec.get("dbg", []):
        out.append("  debug %s => %s" % (d[0], place(d[1])))
    for i, b in enumerate(fn.blocks):
        out.append("  bb%d%s:" % (i, " (cleanup)" if b["cl"] else ""))
        for s in b["st"]:
            if "a" in s:
                out.append("    %s = %s;   // L%d" % (place(s["a"], fn), rvalue(s["r"], fn), s["ln"]))
            elif "sd" in s:
                out.append("    discriminant(%s) = %d;" % (place(s["sd"], fn), s["v"]))
            elif "intr" in s:
                out.append("    %s(%s)" % (s["intr"], ", ".join(operand(o, fn) for o in s["ops"])))
        out.append("    %s   // L%d" % (term(b["t"], fn), b["t"].get("ln", 0)))
    return "\n".join(out)
