"""Compile-fail / compile-pass witnesses (engine E3): runs the doctests of /verif/witness with
`cargo +nightly test --doc` (the error codes of compile_fail are only honoured on nightly) and maps the
results to properties by the name of the documented item (CxxName)."""
import json
import os
import re
import shutil
import subprocess
import time

from . import extract

WDIR = os.path.join(extract.VERIF, "witness")


def run():
    key, _ = extract.source_key()
    with open(os.path.join(WDIR, "src", "lib.rs"), "rb") as fh:
        import hashlib
        key = hashlib.sha256(key.encode() + fh.read()).hexdigest()
    cache = os.path.join(extract.CACHE, "witness.json")
    if os.path.exists(cache):
        try:
            c = json.load(open(cache))
            if c.get("key") == key:
                return c
        except Exception:
            pass
    lock = os.path.join(extract.REPO, "Cargo.lock")
    if os.path.exists(lock):
        shutil.copy(lock, os.path.join(WDIR, "Cargo.lock"))
    # the harness path-depends on /repo's crates; point it at the tree under analysis
    man = open(os.path.join(WDIR, "Cargo.toml")).read()
    tmpman = None
    if extract.REPO != "/repo":
        tmpman = man
        open(os.path.join(WDIR, "Cargo.toml"), "w").write(man.replace('path = "/repo/', 'path = "%s/' % extract.REPO))
    env = dict(os.environ)
    env.update({"CARGO_NET_OFFLINE": "true", "CARGO_TARGET_DIR": os.path.join(extract.CACHE, "target-witness")})
    env.pop("RUSTC_WORKSPACE_WRAPPER", None)
    t0 = time.time()
    try:
        r = subprocess.run(["cargo", "+nightly", "test", "--doc", "--offline"], cwd=WDIR, env=env,
                           stdout=subprocess.PIPE, stderr=subprocess.STDOUT, text=True)
    finally:
        if tmpman is not None:
            open(os.path.join(WDIR, "Cargo.toml"), "w").write(tmpman)
    tests = []
    for m in re.finditer(r"^test src/lib\.rs - (\w+) \(line (\d+)\) - (compile fail|compile) \.\.\. (\w+)", r.stdout, re.M):
        tests.append({"item": m.group(1), "line": int(m.group(2)), "kind": m.group(3), "result": m.group(4)})
    out = {"key": key, "tests": tests, "ok": bool(tests), "wall_s": round(time.time() - t0, 1),
           "tail": r.stdout[-3000:] if not tests or r.returncode != 0 else ""}
    json.dump(out, open(cache, "w"), indent=1)
    return out


def obligations(ctx, prop):
    """Add the witness obligations of property `prop` (items named CxxSomething) to ctx."""
    res = run()
    ctx.rule("T", "TYPE", "compile_fail witnesses with their compiling twins (rustc is the decision procedure; nothing runs)")
    mine = [t for t in res["tests"] if t["item"].upper().startswith(prop.upper())]
    if not res["ok"]:
        ctx.ob("T", "witness-harness-builds", False, "the witness crate did not build / produced no doctest results: " + res.get("tail", "")[-600:])
        return
    ctx.floor("T", "witness doctests for " + prop, len(mine), 2)
    for t in mine:
        what = "must NOT compile (expected error code)" if t["kind"] == "compile fail" else "twin: must compile"
        ctx.ob("T", "%s@%d[%s]" % (t["item"], t["line"], t["kind"]), t["result"] == "ok",
               "witness %s — %s" % (t["item"], what), "witness/src/lib.rs:%d" % t["line"])
