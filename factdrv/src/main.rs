//! factdrv — rule-agnostic fact extractor for the compio verification harness.
//!
//! Runs as `RUSTC_WORKSPACE_WRAPPER` under `cargo +nightly check`: argv[1] is the
//! real rustc path (dropped), the rest are rustc's arguments. After analysis it
//! writes one JSON-lines file per compiled workspace crate into `$VF_FACTS_DIR`
//! (one write per process): `fn` records (with MIR of `mir_promoted`), `adt`,
//! `impl` records. It never decides anything.
#![feature(rustc_private)]
#![allow(clippy::all)]

extern crate rustc_abi;
extern crate rustc_driver;
extern crate rustc_hir;
extern crate rustc_interface;
extern crate rustc_middle;
extern crate rustc_session;
extern crate rustc_span;

use std::fmt::Write as _;

use rustc_driver::{Callbacks, Compilation};
use rustc_hir::def::DefKind;
use rustc_hir::def_id::{DefId, LocalDefId};
use rustc_middle::mir::{
    self, AggregateKind, BasicBlock, Body, Operand, Place, PlaceElem, Rvalue, StatementKind,
    TerminatorKind, UnwindAction,
};
use rustc_middle::ty::print::{
    with_no_trimmed_paths, with_no_visible_paths, with_resolve_crate_name,
};
use rustc_middle::ty::{self, Instance, Ty, TyCtxt};
use rustc_span::Span;

fn esc(s: &str, out: &mut String) {
    out.push('"');
    for c in s.chars() {
        match c {
            '"' => out.push_str("\\\""),
            '\\' => out.push_str("\\\\"),
            '\n' => out.push_str("\\n"),
            '\r' => out.push_str("\\r"),
            '\t' => out.push_str("\\t"),
            c if (c as u32) < 0x20 => {
                let _ = write!(out, "\\u{:04x}", c as u32);
            }
            c => out.push(c),
        }
    }
    out.push('"');
}

fn js(s: &str) -> String {
    let mut o = String::with_capacity(s.len() + 2);
    esc(s, &mut o);
    o
}

fn pretty<T>(f: impl FnOnce() -> T) -> T {
    with_resolve_crate_name!(with_no_visible_paths!(with_no_trimmed_paths!(f())))
}

struct Cx<'tcx> {
    tcx: TyCtxt<'tcx>,
    krate: String,
    owner: std::cell::Cell<Option<LocalDefId>>,
}

impl<'tcx> Cx<'tcx> {
    fn crate_of(&self, did: DefId) -> String {
        self.tcx.crate_name(did.krate).to_string()
    }

    /// unique id: crate name + verbose def path
    fn id(&self, did: DefId) -> String {
        format!("{}{}", self.crate_of(did), self.tcx.def_path(did).to_string_no_crate_verbose())
    }

    fn name(&self, did: DefId) -> String {
        pretty(|| self.tcx.def_path_str(did))
    }

    fn ty(&self, t: Ty<'tcx>) -> String {
        pretty(|| t.to_string())
    }

    fn loc(&self, sp: Span) -> (String, usize) {
        let sm = self.tcx.sess.source_map();
        let sp = sp.source_callsite();
        let lo = sm.lookup_char_pos(sp.lo());
        let f = match &lo.file.name {
            rustc_span::FileName::Real(r) => match r.local_path() {
                Some(p) => p.to_string_lossy().to_string(),
                None => format!("{:?}", r),
            },
            other => format!("{:?}", other),
        };
        (f, lo.line)
    }

    fn line(&self, sp: Span) -> usize {
        let sm = self.tcx.sess.source_map();
        sm.lookup_char_pos(sp.source_callsite().lo()).line
    }

    fn adts_in(&self, t: Ty<'tcx>) -> Vec<String> {
        let mut v = Vec::new();
        for ga in t.walk() {
            if let Some(t) = ga.as_type() {
                match t.kind() {
                    ty::Adt(def, _) => {
                        let n = self.name(def.did());
                        if !v.contains(&n) {
                            v.push(n);
                        }
                    }
                    ty::Dynamic(..) | ty::Param(_) | ty::Alias(..) => {
                        let n = self.ty(t);
                        if !v.contains(&n) {
                            v.push(n);
                        }
                    }
                    _ => {}
                }
            }
        }
        v
    }

    fn place(&self, body: &Body<'tcx>, p: &Place<'tcx>, out: &mut String) {
        let _ = write!(out, "{{\"l\":{},\"p\":[", p.local.as_usize());
        let mut pty = mir::PlaceTy::from_ty(body.local_decls[p.local].ty);
        let mut first = true;
        for elem in p.projection.iter() {
            if !first {
                out.push(',');
            }
            first = false;
            match elem {
                PlaceElem::Deref => out.push_str("\"*\""),
                PlaceElem::Field(f, _) => {
                    let (fname, owner) = match pty.ty.kind() {
                        ty::Adt(def, _) => {
                            let vidx = pty.variant_index.unwrap_or(rustc_abi::FIRST_VARIANT);
                            let var = def.variant(vidx);
                            let fname = var
                                .fields
                                .get(f)
                                .map(|fd| fd.name.to_string())
                                .unwrap_or_else(|| format!("{}", f.as_usize()));
                            let owner = if def.is_enum() {
                                format!("{}::{}", self.name(def.did()), var.name)
                            } else {
                                self.name(def.did())
                            };
                            (fname, owner)
                        }
                        ty::Tuple(_) => (format!("{}", f.as_usize()), "tuple".to_string()),
                        ty::Closure(d, _) | ty::Coroutine(d, _) | ty::CoroutineClosure(d, _) => {
                            // name the captured place (e.g. `self__max_buffer_size`) when the closure is local
                            let nm = d
                                .as_local()
                                .and_then(|ld| self.tcx.closure_captures(ld).get(f.as_usize()).map(|c| c.to_symbol().to_string()))
                                .unwrap_or_else(|| format!("{}", f.as_usize()));
                            (nm, format!("closure:{}", self.id(*d)))
                        }
                        _ => (format!("{}", f.as_usize()), "?".to_string()),
                    };
                    let _ = write!(out, "[\"f\",{},{},{}]", f.as_usize(), js(&fname), js(&owner));
                }
                PlaceElem::Index(l) => {
                    let _ = write!(out, "[\"i\",{}]", l.as_usize());
                }
                PlaceElem::ConstantIndex { offset, from_end, .. } => {
                    let _ = write!(out, "[\"ci\",{},{}]", offset, from_end);
                }
                PlaceElem::Subslice { from, to, from_end } => {
                    let _ = write!(out, "[\"ss\",{},{},{}]", from, to, from_end);
                }
                PlaceElem::Downcast(sym, v) => {
                    let n = sym.map(|s| s.to_string()).unwrap_or_else(|| format!("{}", v.as_usize()));
                    let _ = write!(out, "[\"d\",{},{}]", js(&n), v.as_usize());
                }
                PlaceElem::OpaqueCast(_) => out.push_str("\"oc\""),
                PlaceElem::UnwrapUnsafeBinder(_) => out.push_str("\"ub\""),
            }
            pty = pty.projection_ty(self.tcx, elem);
        }
        out.push_str("]}");
    }

    fn operand(&self, body: &Body<'tcx>, op: &Operand<'tcx>, out: &mut String) {
        match op {
            Operand::Copy(p) => {
                out.push_str("{\"c\":");
                self.place(body, p, out);
                out.push('}');
            }
            Operand::Move(p) => {
                out.push_str("{\"m\":");
                self.place(body, p, out);
                out.push('}');
            }
            Operand::Constant(c) => {
                let t = c.const_.ty();
                let s = pretty(|| format!("{}", c.const_));
                out.push_str("{\"k\":");
                esc(&s, out);
                out.push_str(",\"ty\":");
                esc(&self.ty(t), out);
                match t.kind() {
                    ty::FnDef(d, _) => {
                        out.push_str(",\"fn\":");
                        esc(&self.name(*d), out);
                        out.push_str(",\"fnid\":");
                        esc(&self.id(*d), out);
                    }
                    _ => {}
                }
                // try to evaluate integer / bool scalars
                if let Some(si) = c.const_.try_to_scalar_int() {
                    let _ = write!(out, ",\"v\":{}", js(&format!("{}", si.to_bits_unchecked())));
                }
                if let mir::Const::Unevaluated(uv, _) = c.const_ {
                    out.push_str(",\"uv\":");
                    esc(&self.name(uv.def), out);
                    if uv.promoted.is_some() {
                        out.push_str(",\"promoted\":true");
                    } else if t.is_integral() || t.is_bool() || t.is_char() {
                        if let Some(owner) = self.owner.get() {
                            let env = ty::TypingEnv::post_analysis(self.tcx, owner.to_def_id());
                            let r = std::panic::catch_unwind(std::panic::AssertUnwindSafe(|| {
                                c.const_.try_eval_scalar_int(self.tcx, env)
                            }));
                            if let Ok(Some(si)) = r {
                                let _ = write!(out, ",\"v\":{}", js(&format!("{}", si.to_bits_unchecked())));
                            }
                        }
                    }
                }
                if let mir::Const::Val(mir::ConstValue::Scalar(rustc_middle::mir::interpret::Scalar::Ptr(ptr, _)), _) = c.const_ {
                    // pointer to a static?
                    let alloc_id = ptr.provenance.alloc_id();
                    if let Some(rustc_middle::mir::interpret::GlobalAlloc::Static(d)) = self.tcx.try_get_global_alloc(alloc_id) {
                        out.push_str(",\"static\":");
                        esc(&self.name(d), out);
                    }
                }
                out.push('}');
            }
            #[allow(unreachable_patterns)]
            _ => {
                out.push_str("{\"k\":\"<runtime-checks>\",\"ty\":\"bool\"}");
            }
        }
    }

    fn callee(&self, owner: LocalDefId, func: &Operand<'tcx>, body: &Body<'tcx>, out: &mut String) {
        if let Some((did, args)) = func.const_fn_def() {
            out.push_str("\"fn\":");
            esc(&self.name(did), out);
            out.push_str(",\"fnid\":");
            esc(&self.id(did), out);
            out.push_str(",\"ga\":[");
            let mut first = true;
            for a in args.iter() {
                if a.as_region().is_some() {
                    continue;
                }
                if !first {
                    out.push(',');
                }
                first = false;
                let s = pretty(|| a.to_string());
                esc(&s, out);
            }
            out.push(']');
            if let Some(tr) = self.tcx.trait_of_assoc(did) {
                out.push_str(",\"tr\":");
                esc(&self.name(tr), out);
            }
            if let Some(imp) = self.tcx.impl_of_assoc(did) {
                if let Some(tr) = self.tcx.impl_opt_trait_id(imp) {
                    out.push_str(",\"itr\":");
                    esc(&self.name(tr), out);
                }
            }
            if matches!(self.tcx.def_kind(did), DefKind::Fn | DefKind::AssocFn) {
                let env = ty::TypingEnv::post_analysis(self.tcx, owner.to_def_id());
                let r = std::panic::catch_unwind(std::panic::AssertUnwindSafe(|| {
                    Instance::try_resolve(self.tcx, env, did, args)
                }));
                if let Ok(Ok(Some(inst))) = r {
                    let rd = inst.def_id();
                    if rd != did {
                        out.push_str(",\"rfn\":");
                        esc(&self.name(rd), out);
                        out.push_str(",\"rfnid\":");
                        esc(&self.id(rd), out);
                    }
                    match inst.def {
                        ty::InstanceKind::Item(_) => {}
                        ty::InstanceKind::Virtual(..) => out.push_str(",\"ik\":\"virtual\""),
                        ty::InstanceKind::Intrinsic(_) => out.push_str(",\"ik\":\"intrinsic\""),
                        ty::InstanceKind::ClosureOnceShim { .. } => out.push_str(",\"ik\":\"once_shim\""),
                        ty::InstanceKind::FnPtrShim(..) => out.push_str(",\"ik\":\"fnptr_shim\""),
                        ty::InstanceKind::DropGlue(..) => out.push_str(",\"ik\":\"drop_glue\""),
                        ty::InstanceKind::CloneShim(..) => out.push_str(",\"ik\":\"clone_shim\""),
                        _ => out.push_str(",\"ik\":\"other\""),
                    }
                }
            }
        } else {
            out.push_str("\"fnop\":");
            self.operand(body, func, out);
        }
    }

    fn rvalue(&self, body: &Body<'tcx>, rv: &Rvalue<'tcx>, out: &mut String) {
        match rv {
            Rvalue::Use(op, ..) => {
                out.push_str("{\"k\":\"use\",\"ops\":[");
                self.operand(body, op, out);
                out.push_str("]}");
            }
            Rvalue::Repeat(op, _) => {
                out.push_str("{\"k\":\"repeat\",\"ops\":[");
                self.operand(body, op, out);
                out.push_str("]}");
            }
            Rvalue::Ref(_, bk, p) => {
                let m = match bk {
                    mir::BorrowKind::Shared => "shared",
                    mir::BorrowKind::Fake(_) => "fake",
                    mir::BorrowKind::Mut { .. } => "mut",
                };
                let _ = write!(out, "{{\"k\":\"ref\",\"x\":\"{}\",\"pl\":", m);
                self.place(body, p, out);
                out.push('}');
            }
            Rvalue::ThreadLocalRef(d) => {
                let _ = write!(out, "{{\"k\":\"tls\",\"x\":{}}}", js(&self.name(*d)));
            }
            Rvalue::RawPtr(k, p) => {
                let _ = write!(out, "{{\"k\":\"rawptr\",\"x\":{},\"pl\":", js(&format!("{:?}", k)));
                self.place(body, p, out);
                out.push('}');
            }
            Rvalue::Cast(ck, op, t) => {
                let _ = write!(
                    out,
                    "{{\"k\":\"cast\",\"x\":{},\"ty\":{},\"ops\":[",
                    js(&format!("{:?}", ck)),
                    js(&self.ty(*t))
                );
                self.operand(body, op, out);
                out.push_str("]}");
            }
            Rvalue::BinaryOp(bop, ab) => {
                let _ = write!(out, "{{\"k\":\"bin\",\"x\":\"{:?}\",\"ops\":[", bop);
                self.operand(body, &ab.0, out);
                out.push(',');
                self.operand(body, &ab.1, out);
                out.push_str("]}");
            }
            Rvalue::UnaryOp(uop, op) => {
                let _ = write!(out, "{{\"k\":\"un\",\"x\":\"{:?}\",\"ops\":[", uop);
                self.operand(body, op, out);
                out.push_str("]}");
            }
            Rvalue::Discriminant(p) => {
                out.push_str("{\"k\":\"discr\",\"pl\":");
                self.place(body, p, out);
                out.push('}');
            }
            Rvalue::Aggregate(kind, ops) => {
                out.push_str("{\"k\":\"agg\",");
                match &**kind {
                    AggregateKind::Array(_) => out.push_str("\"x\":\"array\""),
                    AggregateKind::Tuple => out.push_str("\"x\":\"tuple\""),
                    AggregateKind::Adt(did, vidx, _, _, active) => {
                        let adt = self.tcx.adt_def(*did);
                        let var = adt.variant(*vidx);
                        let _ = write!(
                            out,
                            "\"x\":\"adt\",\"adt\":{},\"var\":{},\"fields\":[",
                            js(&self.name(*did)),
                            js(&var.name.to_string())
                        );
                        if let Some(a) = active {
                            esc(&var.fields[*a].name.to_string(), out);
                        } else {
                            let mut first = true;
                            for fd in var.fields.iter() {
                                if !first {
                                    out.push(',');
                                }
                                first = false;
                                esc(&fd.name.to_string(), out);
                            }
                        }
                        out.push(']');
                    }
                    AggregateKind::Closure(did, _) => {
                        let _ = write!(out, "\"x\":\"closure\",\"def\":{}", js(&self.id(*did)));
                    }
                    AggregateKind::Coroutine(did, _) => {
                        let _ = write!(out, "\"x\":\"coroutine\",\"def\":{}", js(&self.id(*did)));
                    }
                    AggregateKind::CoroutineClosure(did, _) => {
                        let _ = write!(out, "\"x\":\"coroutine_closure\",\"def\":{}", js(&self.id(*did)));
                    }
                    AggregateKind::RawPtr(..) => out.push_str("\"x\":\"rawptr\""),
                }
                out.push_str(",\"ops\":[");
                let mut first = true;
                for op in ops.iter() {
                    if !first {
                        out.push(',');
                    }
                    first = false;
                    self.operand(body, op, out);
                }
                out.push_str("]}");
            }
            Rvalue::CopyForDeref(p) => {
                out.push_str("{\"k\":\"use\",\"ops\":[{\"c\":");
                self.place(body, p, out);
                out.push_str("}]}");
            }
            Rvalue::WrapUnsafeBinder(op, _) => {
                out.push_str("{\"k\":\"use\",\"ops\":[");
                self.operand(body, op, out);
                out.push_str("]}");
            }
        }
    }

    fn unwind(&self, u: &UnwindAction) -> String {
        match u {
            UnwindAction::Cleanup(bb) => format!("{}", bb.as_usize()),
            _ => "null".to_string(),
        }
    }

    fn body(&self, owner: LocalDefId, body: &Body<'tcx>, out: &mut String) {
        self.owner.set(Some(owner));
        let _ = write!(out, "\"argc\":{},\"locals\":[", body.arg_count);
        // debug names
        let mut names: Vec<Option<String>> = vec![None; body.local_decls.len()];
        for vdi in &body.var_debug_info {
            if let mir::VarDebugInfoContents::Place(p) = &vdi.value {
                if p.projection.is_empty() && names[p.local.as_usize()].is_none() {
                    names[p.local.as_usize()] = Some(vdi.name.to_string());
                }
            }
        }
        for (i, (_l, decl)) in body.local_decls.iter_enumerated().enumerate() {
            if i > 0 {
                out.push(',');
            }
            let _ = write!(out, "[{},", js(&self.ty(decl.ty)));
            match &names[i] {
                Some(n) => esc(n, out),
                None => out.push_str("null"),
            }
            out.push(']');
        }
        out.push_str("],\"dbg\":[");
        // debug info with projections (captured upvars in closures / coroutines)
        let mut first = true;
        for vdi in &body.var_debug_info {
            if let mir::VarDebugInfoContents::Place(p) = &vdi.value {
                if !p.projection.is_empty() {
                    if !first {
                        out.push(',');
                    }
                    first = false;
                    let _ = write!(out, "[{},", js(&vdi.name.to_string()));
                    self.place(body, p, out);
                    out.push(']');
                }
            }
        }
        out.push_str("],\"blocks\":[");
        for (bbi, (_bb, data)) in body.basic_blocks.iter_enumerated().enumerate() {
            if bbi > 0 {
                out.push(',');
            }
            let _ = write!(out, "{{\"cl\":{},\"st\":[", data.is_cleanup);
            let mut first = true;
            for st in &data.statements {
                let mut s = String::new();
                match &st.kind {
                    StatementKind::Assign(b) => {
                        let (p, rv) = &**b;
                        s.push_str("{\"a\":");
                        self.place(body, p, &mut s);
                        s.push_str(",\"r\":");
                        self.rvalue(body, rv, &mut s);
                        let _ = write!(s, ",\"ln\":{}", self.line(st.source_info.span));
                        if st.source_info.span.from_expansion() {
                            s.push_str(",\"exp\":true");
                        }
                        s.push('}');
                    }
                    StatementKind::SetDiscriminant { place, variant_index } => {
                        s.push_str("{\"sd\":");
                        self.place(body, place, &mut s);
                        let _ = write!(s, ",\"v\":{},\"ln\":{}}}", variant_index.as_usize(), self.line(st.source_info.span));
                    }
                    StatementKind::Intrinsic(intr) => {
                        s.push_str("{\"intr\":");
                        match &**intr {
                            mir::NonDivergingIntrinsic::Assume(op) => {
                                s.push_str("\"assume\",\"ops\":[");
                                self.operand(body, op, &mut s);
                                s.push(']');
                            }
                            mir::NonDivergingIntrinsic::CopyNonOverlapping(c) => {
                                s.push_str("\"copy_nonoverlapping\",\"ops\":[");
                                self.operand(body, &c.src, &mut s);
                                s.push(',');
                                self.operand(body, &c.dst, &mut s);
                                s.push(',');
                                self.operand(body, &c.count, &mut s);
                                s.push(']');
                            }
                        }
                        let _ = write!(s, ",\"ln\":{}}}", self.line(st.source_info.span));
                    }
                    _ => {}
                }
                if !s.is_empty() {
                    if !first {
                        out.push(',');
                    }
                    first = false;
                    out.push_str(&s);
                }
            }
            out.push_str("],\"t\":");
            let term = data.terminator();
            let ln = self.line(term.source_info.span);
            let exp = term.source_info.span.from_expansion();
            match &term.kind {
                TerminatorKind::Goto { target } => {
                    let _ = write!(out, "{{\"k\":\"goto\",\"t\":{}", target.as_usize());
                }
                TerminatorKind::FalseEdge { real_target, imaginary_target } => {
                    let _ = write!(
                        out,
                        "{{\"k\":\"goto\",\"t\":{},\"imag\":{}",
                        real_target.as_usize(),
                        imaginary_target.as_usize()
                    );
                }
                TerminatorKind::FalseUnwind { real_target, .. } => {
                    let _ = write!(out, "{{\"k\":\"goto\",\"t\":{},\"loop\":true", real_target.as_usize());
                }
                TerminatorKind::SwitchInt { discr, targets } => {
                    out.push_str("{\"k\":\"switch\",\"op\":");
                    self.operand(body, discr, out);
                    let dty = discr.ty(body, self.tcx);
                    let _ = write!(out, ",\"oty\":{}", js(&self.ty(dty)));
                    out.push_str(",\"tg\":[");
                    let mut first = true;
                    for (v, bb) in targets.iter() {
                        if !first {
                            out.push(',');
                        }
                        first = false;
                        let _ = write!(out, "[\"{}\",{}]", v, bb.as_usize());
                    }
                    let _ = write!(out, "],\"ow\":{}", targets.otherwise().as_usize());
                }
                TerminatorKind::UnwindResume => out.push_str("{\"k\":\"resume\""),
                TerminatorKind::UnwindTerminate(_) => out.push_str("{\"k\":\"terminate\""),
                TerminatorKind::Return => out.push_str("{\"k\":\"return\""),
                TerminatorKind::Unreachable => out.push_str("{\"k\":\"unreachable\""),
                TerminatorKind::CoroutineDrop => out.push_str("{\"k\":\"coroutine_drop\""),
                TerminatorKind::Drop { place, target, unwind, .. } => {
                    out.push_str("{\"k\":\"drop\",\"pl\":");
                    self.place(body, place, out);
                    let pty = place.ty(body, self.tcx).ty;
                    let _ = write!(
                        out,
                        ",\"pty\":{},\"t\":{},\"u\":{}",
                        js(&self.ty(pty)),
                        target.as_usize(),
                        self.unwind(unwind)
                    );
                }
                TerminatorKind::Call { func, args, destination, target, unwind, .. } => {
                    out.push_str("{\"k\":\"call\",");
                    self.callee(owner, func, body, out);
                    out.push_str(",\"args\":[");
                    let mut first = true;
                    for a in args.iter() {
                        if !first {
                            out.push(',');
                        }
                        first = false;
                        self.operand(body, &a.node, out);
                    }
                    out.push_str("],\"dst\":");
                    self.place(body, destination, out);
                    match target {
                        Some(t) => {
                            let _ = write!(out, ",\"t\":{}", t.as_usize());
                        }
                        None => out.push_str(",\"t\":null"),
                    }
                    let _ = write!(out, ",\"u\":{}", self.unwind(unwind));
                }
                TerminatorKind::TailCall { func, args, .. } => {
                    out.push_str("{\"k\":\"tailcall\",");
                    self.callee(owner, func, body, out);
                    out.push_str(",\"args\":[");
                    let mut first = true;
                    for a in args.iter() {
                        if !first {
                            out.push(',');
                        }
                        first = false;
                        self.operand(body, &a.node, out);
                    }
                    out.push(']');
                }
                TerminatorKind::Assert { cond, expected, msg, target, unwind } => {
                    out.push_str("{\"k\":\"assert\",\"cond\":");
                    self.operand(body, cond, out);
                    let kind = match &**msg {
                        mir::AssertKind::BoundsCheck { .. } => "BoundsCheck".to_string(),
                        mir::AssertKind::Overflow(op, ..) => format!("Overflow({:?})", op),
                        mir::AssertKind::OverflowNeg(_) => "OverflowNeg".to_string(),
                        mir::AssertKind::DivisionByZero(_) => "DivisionByZero".to_string(),
                        mir::AssertKind::RemainderByZero(_) => "RemainderByZero".to_string(),
                        mir::AssertKind::MisalignedPointerDereference { .. } => "Misaligned".to_string(),
                        mir::AssertKind::NullPointerDereference => "NullDeref".to_string(),
                        mir::AssertKind::ResumedAfterReturn(_) => "ResumedAfterReturn".to_string(),
                        mir::AssertKind::ResumedAfterPanic(_) => "ResumedAfterPanic".to_string(),
                        _ => "Other".to_string(),
                    };
                    out.push_str(",\"ops\":[");
                    match &**msg {
                        mir::AssertKind::BoundsCheck { len, index } => {
                            self.operand(body, len, out);
                            out.push(',');
                            self.operand(body, index, out);
                        }
                        mir::AssertKind::Overflow(_, a, b) => {
                            self.operand(body, a, out);
                            out.push(',');
                            self.operand(body, b, out);
                        }
                        mir::AssertKind::OverflowNeg(a)
                        | mir::AssertKind::DivisionByZero(a)
                        | mir::AssertKind::RemainderByZero(a) => {
                            self.operand(body, a, out);
                        }
                        _ => {}
                    }
                    let _ = write!(
                        out,
                        "],\"expected\":{},\"msg\":{},\"t\":{},\"u\":{}",
                        expected,
                        js(&kind),
                        target.as_usize(),
                        self.unwind(unwind)
                    );
                }
                TerminatorKind::Yield { value, resume, drop, .. } => {
                    out.push_str("{\"k\":\"yield\",\"val\":");
                    self.operand(body, value, out);
                    let _ = write!(out, ",\"t\":{}", resume.as_usize());
                    match drop {
                        Some(d) => {
                            let _ = write!(out, ",\"drop\":{}", d.as_usize());
                        }
                        None => out.push_str(",\"drop\":null"),
                    }
                }
                TerminatorKind::InlineAsm { targets, .. } => {
                    out.push_str("{\"k\":\"asm\",\"tg\":[");
                    let mut first = true;
                    for t in targets.iter() {
                        if !first {
                            out.push(',');
                        }
                        first = false;
                        let _ = write!(out, "{}", t.as_usize());
                    }
                    out.push(']');
                }
            }
            let _ = write!(out, ",\"ln\":{}", ln);
            if exp {
                out.push_str(",\"exp\":true");
            }
            out.push_str("}}");
        }
        out.push(']');
        let _: Option<BasicBlock> = None;
    }

    fn predicates(&self, did: DefId, out: &mut String) {
        out.push('[');
        let preds = self.tcx.predicates_of(did);
        let mut first = true;
        let mut cur = Some(preds);
        while let Some(p) = cur {
            for (clause, _) in p.predicates.iter() {
                if !first {
                    out.push(',');
                }
                first = false;
                let s = pretty(|| clause.to_string());
                esc(&s, out);
            }
            cur = p.parent.map(|pp| self.tcx.predicates_of(pp));
        }
        out.push(']');
    }

    fn impl_info(&self, imp: DefId, out: &mut String) {
        let self_ty = self.tcx.type_of(imp).instantiate_identity().skip_norm_wip();
        let _ = write!(out, "{{\"id\":{},\"self\":{}", js(&self.id(imp)), js(&self.ty(self_ty)));
        if let ty::Adt(def, _) = self_ty.kind() {
            let _ = write!(out, ",\"self_adt\":{}", js(&self.name(def.did())));
        }
        if let Some(tr) = self.tcx.impl_opt_trait_ref(imp) {
            let tr = tr.instantiate_identity().skip_norm_wip();
            let _ = write!(
                out,
                ",\"trait\":{},\"trait_ref\":{}",
                js(&self.name(tr.def_id)),
                js(&pretty(|| tr.to_string()))
            );
        }
        out.push_str(",\"preds\":");
        self.predicates(imp, out);
        out.push('}');
    }

    fn run(&self) -> String {
        let tcx = self.tcx;
        let mut out = String::new();
        let nonce = std::env::var("VF_NONCE").unwrap_or_default();
        let _ = writeln!(
            out,
            "{{\"rec\":\"crate\",\"name\":{},\"nonce\":{}}}",
            js(&self.krate),
            js(&nonce)
        );
        let mut nbodies = 0usize;
        // Pass 1: clone every body's `mir_promoted` before anything else is queried. Serialising a body
        // evaluates constants, and const evaluation of crate-local `const fn`s steals *their* promoted MIR.
        let mut bodies: std::collections::HashMap<LocalDefId, Option<Body<'tcx>>> = Default::default();
        for ldid in tcx.hir_body_owners() {
            let kind = tcx.def_kind(ldid.to_def_id());
            if matches!(kind, DefKind::Fn | DefKind::AssocFn | DefKind::Closure) {
                let steal = tcx.mir_promoted(ldid).0;
                if steal.is_stolen() {
                    bodies.insert(ldid, None);
                } else {
                    bodies.insert(ldid, Some(steal.borrow().clone()));
                }
            }
        }
        for ldid in tcx.hir_body_owners() {
            let did = ldid.to_def_id();
            let kind = tcx.def_kind(did);
            let kstr = match kind {
                DefKind::Fn => "fn",
                DefKind::AssocFn => "assoc_fn",
                DefKind::Closure => {
                    if tcx.is_coroutine(did) {
                        "coroutine"
                    } else {
                        "closure"
                    }
                }
                DefKind::Const { .. } | DefKind::AssocConst { .. } | DefKind::Static { .. } => "const",
                DefKind::AnonConst | DefKind::InlineConst => "anon_const",
                _ => "other",
            };
            if kstr == "anon_const" || kstr == "other" {
                continue;
            }
            let (file, line) = self.loc(tcx.def_span(did));
            let mut rec = String::new();
            let _ = write!(
                rec,
                "{{\"rec\":\"fn\",\"id\":{},\"name\":{},\"kind\":\"{}\",\"file\":{},\"line\":{}",
                js(&self.id(did)),
                js(&self.name(did)),
                kstr,
                js(&file),
                line
            );
            if tcx.def_span(did).from_expansion() {
                rec.push_str(",\"exp\":true");
            }
            // parent (for closures: the enclosing fn)
            let tbase = tcx.typeck_root_def_id(did);
            if tbase != did {
                let _ = write!(rec, ",\"root\":{}", js(&self.id(tbase)));
                let _ = write!(rec, ",\"parent\":{}", js(&self.id(tcx.parent(did))));
            }
            if matches!(kind, DefKind::Fn | DefKind::AssocFn) {
                let sig = tcx.fn_sig(did).instantiate_identity().skip_norm_wip();
                let unsafe_ = sig.safety().is_unsafe();
                let _ = write!(rec, ",\"unsafe\":{}", unsafe_);
                let vis = tcx.visibility(did);
                let _ = write!(rec, ",\"pub\":{}", vis.is_public());
                let _ = write!(rec, ",\"async\":{}", tcx.asyncness(did).is_async());
                let sigs = pretty(|| sig.to_string());
                let _ = write!(rec, ",\"sig\":{}", js(&sigs));
                rec.push_str(",\"preds\":");
                self.predicates(did, &mut rec);
            }
            {
                // generic parameter names (types and consts, parents first; lifetimes skipped, as in "ga")
                let mut names: Vec<String> = Vec::new();
                let mut chain = Vec::new();
                let mut cur = Some(tcx.generics_of(did));
                while let Some(g) = cur {
                    chain.push(g);
                    cur = g.parent.map(|p| tcx.generics_of(p));
                }
                for g in chain.iter().rev() {
                    for p in g.own_params.iter() {
                        if !matches!(p.kind, ty::GenericParamDefKind::Lifetime) {
                            names.push(p.name.to_string());
                        }
                    }
                }
                rec.push_str(",\"generics\":[");
                for (i, n) in names.iter().enumerate() {
                    if i > 0 {
                        rec.push(',');
                    }
                    esc(n, &mut rec);
                }
                rec.push(']');
            }
            if let Some(imp) = tcx.impl_of_assoc(did) {
                rec.push_str(",\"impl\":");
                self.impl_info(imp, &mut rec);
            } else if let Some(tr) = tcx.trait_of_assoc(did) {
                let _ = write!(rec, ",\"trait_default\":{}", js(&self.name(tr)));
            }
            if kstr == "closure" || kstr == "coroutine" {
                rec.push_str(",\"upvars\":[");
                let mut first = true;
                for cp in tcx.closure_captures(ldid) {
                    if !first {
                        rec.push(',');
                    }
                    first = false;
                    esc(&cp.to_symbol().to_string(), &mut rec);
                }
                rec.push(']');
            }
            if kstr != "const" {
                match bodies.get(&ldid) {
                    Some(Some(b)) => {
                        rec.push(',');
                        self.body(ldid, b, &mut rec);
                    }
                    _ => {
                        rec.push_str(",\"stolen\":true");
                        let b = tcx.optimized_mir(did);
                        rec.push(',');
                        self.body(ldid, b, &mut rec);
                    }
                }
                nbodies += 1;
            }
            rec.push_str("}\n");
            out.push_str(&rec);
        }

        // ADTs, impls, traits
        for ldid in tcx.hir_crate_items(()).definitions() {
            let did = ldid.to_def_id();
            match tcx.def_kind(did) {
                DefKind::Struct | DefKind::Enum | DefKind::Union => {
                    let adt = tcx.adt_def(did);
                    let (file, line) = self.loc(tcx.def_span(did));
                    let _ = write!(
                        out,
                        "{{\"rec\":\"adt\",\"name\":{},\"id\":{},\"kind\":\"{}\",\"file\":{},\"line\":{},\"pub\":{},\"variants\":[",
                        js(&self.name(did)),
                        js(&self.id(did)),
                        if adt.is_enum() { "enum" } else if adt.is_union() { "union" } else { "struct" },
                        js(&file),
                        line,
                        tcx.visibility(did).is_public()
                    );
                    let mut firstv = true;
                    for var in adt.variants().iter() {
                        if !firstv {
                            out.push(',');
                        }
                        firstv = false;
                        let _ = write!(out, "{{\"name\":{},\"fields\":[", js(&var.name.to_string()));
                        let mut firstf = true;
                        for fd in var.fields.iter() {
                            if !firstf {
                                out.push(',');
                            }
                            firstf = false;
                            let fty = tcx.type_of(fd.did).instantiate_identity().skip_norm_wip();
                            let _ = write!(
                                out,
                                "{{\"name\":{},\"ty\":{},\"pub\":{},\"adts\":[",
                                js(&fd.name.to_string()),
                                js(&self.ty(fty)),
                                fd.vis.is_public()
                            );
                            let mut fa = true;
                            for a in self.adts_in(fty) {
                                if !fa {
                                    out.push(',');
                                }
                                fa = false;
                                esc(&a, &mut out);
                            }
                            out.push_str("]}");
                        }
                        out.push_str("]}");
                    }
                    out.push_str("],\"preds\":");
                    self.predicates(did, &mut out);
                    // Drop impl?
                    if let Some(d) = tcx.adt_destructor(did) {
                        let _ = write!(out, ",\"drop\":{}", js(&self.id(d.did)));
                    }
                    out.push_str("}\n");
                }
                DefKind::Impl { .. } => {
                    let (file, line) = self.loc(tcx.def_span(did));
                    out.push_str("{\"rec\":\"impl\",\"info\":");
                    self.impl_info(did, &mut out);
                    let _ = write!(out, ",\"file\":{},\"line\":{}", js(&file), line);
                    if tcx.impl_is_of_trait(did) {
                        let hdr = tcx.impl_trait_header(did);
                        let _ = write!(
                            out,
                            ",\"unsafe\":{},\"negative\":{}",
                            hdr.safety.is_unsafe(),
                            matches!(hdr.polarity, ty::ImplPolarity::Negative)
                        );
                    }
                    if tcx.def_span(did).from_expansion() {
                        out.push_str(",\"exp\":true");
                    }
                    out.push_str(",\"items\":[");
                    let mut first = true;
                    for it in tcx.associated_items(did).in_definition_order() {
                        if !first {
                            out.push(',');
                        }
                        first = false;
                        let _ = write!(out, "[{},{}]", js(&it.opt_name().map(|s| s.to_string()).unwrap_or_else(|| "<rpitit>".to_string())), js(&self.id(it.def_id)));
                    }
                    out.push_str("]}\n");
                }
                DefKind::Trait => {
                    let _ = write!(
                        out,
                        "{{\"rec\":\"trait\",\"name\":{},\"unsafe\":{},\"items\":[",
                        js(&self.name(did)),
                        tcx.trait_def(did).safety.is_unsafe()
                    );
                    let mut first = true;
                    for it in tcx.associated_items(did).in_definition_order() {
                        if !first {
                            out.push(',');
                        }
                        first = false;
                        let _ = write!(
                            out,
                            "[{},{},{}]",
                            js(&it.opt_name().map(|s| s.to_string()).unwrap_or_else(|| "<rpitit>".to_string())),
                            js(&self.id(it.def_id)),
                            it.defaultness(tcx).has_value()
                        );
                    }
                    out.push_str("]}\n");
                }
                _ => {}
            }
        }
        let _ = writeln!(out, "{{\"rec\":\"end\",\"bodies\":{}}}", nbodies);
        out
    }
}

struct Cb;

impl Callbacks for Cb {
    // Facts are extracted right after expansion, *before* `analysis` runs: at this point nothing has
    // stolen `mir_promoted` yet (borrowck / the coroutine transform steal it, and whether they run before
    // an `after_analysis` callback depends on the incremental cache — cold and warm builds differ).
    fn after_expansion<'tcx>(
        &mut self,
        _compiler: &rustc_interface::interface::Compiler,
        tcx: TyCtxt<'tcx>,
    ) -> Compilation {
        let dir = match std::env::var("VF_FACTS_DIR") {
            Ok(d) => d,
            Err(_) => return Compilation::Continue,
        };
        let krate = tcx.crate_name(rustc_hir::def_id::LOCAL_CRATE).to_string();
        if krate.starts_with("build_script_") {
            return Compilation::Continue;
        }
        // only lib / bin targets of workspace members reach here (workspace wrapper)
        let cx = Cx { tcx, krate: krate.clone(), owner: std::cell::Cell::new(None) };
        let text = cx.run();
        let ctype = tcx
            .crate_types()
            .first()
            .map(|c| format!("{:?}", c).to_lowercase())
            .unwrap_or_default();
        let path = format!("{}/{}-{}-{}.jsonl", dir, krate, ctype, std::process::id());
        let tmp = format!("{}.tmp", path);
        if std::fs::write(&tmp, text).is_ok() {
            let _ = std::fs::rename(&tmp, &path);
        }
        Compilation::Continue
    }
}

fn main() {
    let mut args: Vec<String> = std::env::args().collect();
    // wrapper mode: argv[1] is the path of the real rustc
    if args.len() > 1 && (args[1].ends_with("rustc") || args[1].contains("/rustc")) {
        args.remove(1);
    }
    let mut cb = Cb;
    rustc_driver::run_compiler(&args, &mut cb);
}
