//! F37 probe (defect found by a hunting sub-agent, confirmed here): SetLen for ArrayVec<u8, N> and SmallVec<[u8; N]>
//! ignored a smaller length, so `clear()` ("setting its length to 0") was a no-op for these two root buffer kinds while
//! Vec, BytesMut and pool buffers shrink. Fails before the /repo commit "fix: ArrayVec and SmallVec buffers can be
//! shortened through SetLen", passes after. Run: cargo test -p compio-buf --features arrayvec,smallvec --offline --test f37_probe
use compio_buf::{IoBuf, IoBufExt, IoBufMut, SetLenExt};

fn reuse<B: IoBufMut + IoBuf>(mut b: B) -> Vec<u8> {
    b.clear();
    assert_eq!(b.buf_len(), 0, "clear() must empty the buffer");
    let dst = b.as_uninit();
    for (d, s) in dst.iter_mut().zip(b"abc") {
        d.write(*s);
    }
    unsafe { b.advance_to(3) };
    b.as_init().to_vec()
}

#[test]
fn vec_control() {
    assert_eq!(reuse(b"hello".to_vec()), b"abc");
}

#[test]
fn arrayvec_clear_and_reuse() {
    let mut a = arrayvec::ArrayVec::<u8, 8>::new();
    a.try_extend_from_slice(b"hello").unwrap();
    assert_eq!(reuse(a), b"abc");
}

#[test]
fn smallvec_clear_and_reuse() {
    let mut a = smallvec::SmallVec::<[u8; 8]>::new();
    a.extend_from_slice(b"hello");
    assert_eq!(reuse(a), b"abc");
}
