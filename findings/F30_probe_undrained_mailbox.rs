//! HC19a demonstration 1: a `Call` that was accepted by a mailbox hangs forever
//! when the actor goes away on any path that does not run
//! `Receiver::close()` (the only place that drains the queue):
//!
//!  * `pre_start` fails (cluster/spawn.rs, `return Err(())` arm),
//!  * a handler panics (the executor catches the panic and drops the task),
//!  * `Cluster::join` is called while the actor is still running.
//!
//! In all three cases the flume receiver is dropped without draining. flume
//! keeps queued items alive as long as a `Sender` exists, and the caller holds
//! a `Mailbox` (= `Sender`) for the whole duration of `call`, so the queued
//! `Call` - and with it the reply `oneshot::Sender` - is never dropped.
//! Expected: the call resolves with `CallError::NoReply` (or `Closed`).

use std::{
    convert::Infallible,
    future::{Future, IntoFuture},
    num::NonZeroUsize,
    sync::mpsc,
    time::Duration,
};

use compio_actor::{
    Actor, Call, Cluster, Handler, Mailbox,
    cluster::SpawnError,
    mailbox::{CallError, DeliverError},
};
use compio_dispatcher::Dispatcher;
use futures_channel::oneshot;
use futures_util::{
    future::{Either, select},
    pin_mut, poll,
};

fn cluster() -> Cluster {
    let dispatcher = Dispatcher::builder()
        .worker_threads(NonZeroUsize::new(1).unwrap())
        .build()
        .unwrap();
    Cluster::from_dispatcher(dispatcher)
}

/// Resolves to `None` when `future` is still pending after `secs` seconds.
async fn with_timeout<F: Future>(secs: u64, future: F) -> Option<F::Output> {
    let (tx, rx) = oneshot::channel::<()>();
    std::thread::spawn(move || {
        std::thread::sleep(Duration::from_secs(secs));
        tx.send(()).ok();
    });
    pin_mut!(future);
    match select(future, rx).await {
        Either::Left((output, _)) => Some(output),
        Either::Right(_) => None,
    }
}

#[derive(Debug, PartialEq, Eq)]
struct Ping;

// ---------------------------------------------------------------------------
// 1. pre_start failure
// ---------------------------------------------------------------------------

struct FailingStarter {
    publish: mpsc::Sender<Mailbox<FailingStarter>>,
    fail_now: flume::Receiver<()>,
}

impl Actor for FailingStarter {
    type Arguments = ();
    type Error = &'static str;
    type State = ();

    async fn pre_start(
        &self,
        myself: &Mailbox<Self>,
        (): Self::Arguments,
    ) -> Result<Self::State, Self::Error> {
        // e.g. the actor registers itself with a process group / a peer
        // before a later start-up step fails.
        self.publish.send(myself.clone()).unwrap();
        self.fail_now.recv_async().await.unwrap();
        Err("start-up failed")
    }
}

impl Handler<Call<Ping, ()>> for FailingStarter {
    async fn handle(
        &self,
        _myself: &Mailbox<Self>,
        call: Call<Ping, ()>,
        _state: &mut Self::State,
    ) -> Result<(), Self::Error> {
        call.reply(()).ok();
        Ok(())
    }
}

#[compio_macros::test]
async fn call_accepted_during_failed_pre_start_gets_an_answer() {
    let cluster = cluster();
    let (publish, published) = mpsc::channel();
    let (fail_tx, fail_rx) = flume::bounded(1);
    let spawn = cluster
        .spawn(
            move || FailingStarter {
                publish,
                fail_now: fail_rx,
            },
            (),
        )
        .into_future();
    let mailbox = published.recv_timeout(Duration::from_secs(5)).unwrap();

    let call = mailbox.call(Ping);
    pin_mut!(call);
    // The first poll enqueues the request; the mailbox accepts it.
    assert!(poll!(call.as_mut()).is_pending());

    fail_tx.send(()).unwrap();
    assert_eq!(spawn.await.err(), Some(SpawnError::Start("start-up failed")));
    // The actor is gone, and the mailbox says so:
    assert!(mailbox.is_closed());
    assert_eq!(mailbox.send(CastPing), Err(DeliverError::Closed(CastPing)));

    let answer = with_timeout(3, call).await;
    assert_eq!(
        answer,
        Some(Err(CallError::NoReply)),
        "the call is still pending 3s after the actor failed to start"
    );
}

#[derive(Debug, PartialEq, Eq)]
struct CastPing;

impl Handler<CastPing> for FailingStarter {
    async fn handle(
        &self,
        _myself: &Mailbox<Self>,
        CastPing: CastPing,
        _state: &mut Self::State,
    ) -> Result<(), Self::Error> {
        Ok(())
    }
}

// ---------------------------------------------------------------------------
// 2./3. handler panic, Cluster::join with a running actor
// ---------------------------------------------------------------------------

struct Worker {
    entered: mpsc::Sender<()>,
}

#[derive(Debug)]
struct Explode(flume::Receiver<()>);

#[derive(Debug)]
struct LongIo;

impl Actor for Worker {
    type Arguments = ();
    type Error = Infallible;
    type State = ();

    async fn pre_start(
        &self,
        _myself: &Mailbox<Self>,
        (): Self::Arguments,
    ) -> Result<Self::State, Self::Error> {
        Ok(())
    }
}

impl Handler<Explode> for Worker {
    async fn handle(
        &self,
        _myself: &Mailbox<Self>,
        Explode(go): Explode,
        _state: &mut Self::State,
    ) -> Result<(), Self::Error> {
        self.entered.send(()).unwrap();
        go.recv_async().await.ok();
        panic!("handler bug");
    }
}

impl Handler<LongIo> for Worker {
    async fn handle(
        &self,
        _myself: &Mailbox<Self>,
        LongIo: LongIo,
        _state: &mut Self::State,
    ) -> Result<(), Self::Error> {
        self.entered.send(()).unwrap();
        futures_util::future::pending::<()>().await;
        Ok(())
    }
}

impl Handler<Call<Ping, ()>> for Worker {
    async fn handle(
        &self,
        _myself: &Mailbox<Self>,
        call: Call<Ping, ()>,
        _state: &mut Self::State,
    ) -> Result<(), Self::Error> {
        call.reply(()).ok();
        Ok(())
    }
}

#[compio_macros::test]
async fn call_queued_behind_a_panicking_handler_gets_an_answer() {
    let cluster = cluster();
    let (entered, entered_rx) = mpsc::channel();
    let (mailbox, handle) = cluster
        .spawn(move || Worker { entered }, ())
        .await
        .unwrap();
    let (go_tx, go_rx) = flume::bounded(1);
    mailbox.send(Explode(go_rx)).unwrap();
    entered_rx.recv_timeout(Duration::from_secs(5)).unwrap();

    let call = mailbox.call(Ping);
    pin_mut!(call);
    assert!(poll!(call.as_mut()).is_pending());

    go_tx.send(()).unwrap();
    // The actor task is gone: the handle reports it ...
    assert!(handle.await.is_err());
    assert!(mailbox.is_closed());

    // ... but the queued call never learns about it.
    let answer = with_timeout(3, call).await;
    assert_eq!(
        answer,
        Some(Err(CallError::NoReply)),
        "the call is still pending 3s after the actor task died"
    );
}

#[compio_macros::test]
async fn call_queued_when_the_cluster_is_joined_gets_an_answer() {
    let cluster = cluster();
    let (entered, entered_rx) = mpsc::channel();
    let (mailbox, handle) = cluster
        .spawn(move || Worker { entered }, ())
        .await
        .unwrap();
    mailbox.send(LongIo).unwrap();
    entered_rx.recv_timeout(Duration::from_secs(5)).unwrap();

    let call = mailbox.call(Ping);
    pin_mut!(call);
    assert!(poll!(call.as_mut()).is_pending());

    cluster.join().await.unwrap();
    // All workers have exited, the actor is gone.
    assert!(handle.await.is_err());
    assert!(mailbox.is_closed());

    let answer = with_timeout(3, call).await;
    assert_eq!(
        answer,
        Some(Err(CallError::NoReply)),
        "the call is still pending 3s after every worker thread exited"
    );
}

// ---------------------------------------------------------------------------
// Control: the same shape on the one path that does drain (graceful stop)
// passes, so the `with_timeout` harness is not what makes the tests above fail.
// ---------------------------------------------------------------------------

#[derive(Debug)]
struct Park(flume::Receiver<()>);

impl Handler<Park> for Worker {
    async fn handle(
        &self,
        _myself: &Mailbox<Self>,
        Park(go): Park,
        _state: &mut Self::State,
    ) -> Result<(), Self::Error> {
        self.entered.send(()).unwrap();
        go.recv_async().await.ok();
        Ok(())
    }
}

#[compio_macros::test]
async fn control_call_queued_when_the_actor_is_stopped_gets_no_reply() {
    let cluster = cluster();
    let (entered, entered_rx) = mpsc::channel();
    let (mailbox, handle) = cluster
        .spawn(move || Worker { entered }, ())
        .await
        .unwrap();
    let (go_tx, go_rx) = flume::bounded(1);
    mailbox.send(Park(go_rx)).unwrap();
    entered_rx.recv_timeout(Duration::from_secs(5)).unwrap();

    let call = mailbox.call(Ping);
    pin_mut!(call);
    assert!(poll!(call.as_mut()).is_pending());

    assert!(mailbox.stop());
    go_tx.send(()).unwrap();
    assert_eq!(handle.await.unwrap(), compio_actor::ActorExit::Stopped);
    assert_eq!(with_timeout(3, call).await, Some(Err(CallError::NoReply)));
}
