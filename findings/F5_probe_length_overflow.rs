// Put into compio-io/tests/ of a scratch copy: cargo test -p compio-io --test <name> --offline
// Observed: panicked at compio-io/src/framed/frame.rs: "attempt to add with overflow".
use compio_buf::IoBufExt;
use compio_io::framed::frame::{Framer, LengthDelimited};

#[test]
fn probe_len_overflow() {
    let mut framer = LengthDelimited::new().set_length_field_len(8);
    let buf = vec![0xFFu8; 8];
    let slice = buf.slice(..);
    let r = std::panic::catch_unwind(std::panic::AssertUnwindSafe(|| {
        let f = Framer::<Vec<u8>>::extract(&mut framer, &slice);
        if let Ok(Some(frame)) = f {
            let _ = frame.len();
        }
    }));
    assert!(r.is_ok(), "hostile length field made the framer panic");
}
