//! D1: `Uninit<T>` breaks the buffer contract as soon as it has been filled
//! once.
//!
//! After `set_len(n)` on an `Uninit`, `as_init()` reports the `n` bytes that
//! start at `begin`, but `as_uninit()` additionally skips those `n` bytes. So
//! the initialized bytes are no longer a prefix of the writable region,
//! `buf_len()` can exceed `buf_capacity()`, and every helper that combines the
//! two (`extend_from_slice`, `Writer`, `as_mut_slice`, `ensure_init`,
//! `is_filled`, `slice(n..)`) computes a position that is skipped twice.

use std::io::Write;

use compio_buf::*;

fn vec_with(content: &[u8], cap: usize) -> Vec<u8> {
    let mut v = Vec::with_capacity(cap);
    v.extend_from_slice(content);
    assert_eq!(v.capacity(), cap);
    v
}

/// Completely safe code. Two writes through `Writer<Uninit<Vec<u8>>>`.
/// Expected: the Vec holds b"ab" + b"XYZ" + b"123".
/// Actual: the second write lands 3 bytes too far; the Vec reports 8
/// initialized bytes of which 3 were never written (uninitialized memory
/// exposed, Miri: "using uninitialized data").
#[test]
fn writer_over_uninit_appends_in_order() {
    let mut buf = vec_with(b"ab", 32);
    // make the outcome deterministic when not running under Miri
    if !cfg!(miri) {
        buf.spare_capacity_mut().fill(std::mem::MaybeUninit::new(b'.'));
    }

    let mut w = buf.uninit().into_writer();
    w.write_all(b"XYZ").unwrap();
    w.write_all(b"123").unwrap();
    let buf = w.into_inner().into_inner();
    assert_eq!(buf.as_slice(), b"abXYZ123");
}

/// Same, with sizes chosen so that the doubly-skipped position leaves the
/// allocation: cap 16, 2 + 6 bytes present, second write of 6 bytes goes to
/// offset 2 + 6 + 6 = 14 and writes 14..20. Run under Miri to see the
/// out-of-bounds write; without Miri the content assertion fails.
#[test]
fn writer_over_uninit_stays_in_bounds() {
    let buf = vec_with(b"ab", 16);
    let mut w = buf.uninit().into_writer();
    w.write_all(b"ABCDEF").unwrap();
    w.write_all(b"UVWXYZ").unwrap();
    let buf = w.into_inner().into_inner();
    assert_eq!(buf.as_slice(), b"abABCDEFUVWXYZ");
}

/// Lengths never exceed capacities, and the initialized bytes are a prefix of
/// the writable region.
#[test]
fn uninit_len_le_capacity_and_prefix() {
    let buf = vec_with(b"", 10);
    let mut u = buf.uninit();
    assert_eq!(u.buf_capacity(), 10);
    // fill 8 bytes, as a driver would
    for (i, b) in u.as_uninit()[..8].iter_mut().enumerate() {
        b.write(i as u8);
    }
    unsafe { u.advance_to(8) };

    let len = u.buf_len();
    let init_ptr = u.as_init().as_ptr();
    let cap = u.buf_capacity();
    let uninit_ptr = u.as_uninit().as_ptr() as *const u8;
    assert_eq!(
        init_ptr, uninit_ptr,
        "initialized bytes must be a prefix of the writable region"
    );
    assert!(len <= cap, "buf_len {len} > buf_capacity {cap}");
}

/// `is_filled` is derived from len == capacity. After filling 5 of 10 bytes it
/// claims the view is full although 5 bytes are still writable.
#[test]
fn uninit_is_filled_half_way() {
    let buf = vec_with(b"", 10);
    let mut u = buf.uninit();
    for b in u.as_uninit()[..5].iter_mut() {
        b.write(7);
    }
    unsafe { u.advance_to(5) };
    assert_eq!(u.as_inner().len(), 5);
    assert!(
        !u.is_filled(),
        "5 of 10 bytes written, but is_filled() is true"
    );
}

/// `as_mut_slice` (safe) builds a slice from `buf_mut_ptr()` (skipped by len)
/// and `buf_len()`: with 8 of 10 bytes filled it covers bytes 8..16 of a 10
/// byte allocation.
#[test]
fn uninit_as_mut_slice_is_the_initialized_bytes() {
    let buf = vec_with(b"", 10);
    let mut u = buf.uninit();
    for (i, b) in u.as_uninit()[..8].iter_mut().enumerate() {
        b.write(i as u8 + 1);
    }
    unsafe { u.advance_to(8) };
    let base = u.as_inner().as_ptr() as usize;
    let s = u.as_mut_slice();
    let off = s.as_ptr() as usize - base;
    let len = s.len();
    assert!(
        off + len <= 10,
        "as_mut_slice covers {off}..{} of a 10 byte allocation",
        off + len
    );
}

/// `ensure_init` (safe) indexes the writable region with the length.
#[test]
fn uninit_ensure_init_does_not_panic() {
    let buf = vec_with(b"", 10);
    let mut u = buf.uninit();
    for b in u.as_uninit()[..8].iter_mut() {
        b.write(1);
    }
    unsafe { u.advance_to(8) };
    let all = u.ensure_init();
    assert!(all.len() <= 10);
}

/// What `AsyncReadExt::read_exact(buf.uninit())` does: `buf.slice(read..)`
/// over the `Uninit`, fill, `advance_to`. A reader delivering 4 bytes per call
/// fills 0..4, then 8..10 (position skipped twice), then panics on an
/// inverted range.
#[test]
fn read_exact_pattern_over_uninit() {
    let buf = vec_with(b"", 10);
    let mut u = buf.uninit();
    let total = u.buf_capacity();
    let mut read = 0usize;
    let mut next = 0u8;
    while read < total {
        let mut s = u.slice(read..);
        let dst = s.as_uninit();
        let n = dst.len().min(4);
        assert!(n > 0, "no room reported although {read} < {total}");
        for b in &mut dst[..n] {
            b.write(next);
            next += 1;
        }
        unsafe { s.advance_to(n) };
        read += n;
        u = s.into_inner();
    }
    let v = u.into_inner();
    assert_eq!(v.as_slice(), &[0, 1, 2, 3, 4, 5, 6, 7, 8, 9]);
}
