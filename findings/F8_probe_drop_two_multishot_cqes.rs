// Put into compio-driver/tests/ of a scratch copy:
//   cargo test -p compio-driver --features io-uring --test <name> --offline --no-run
//   valgrind -q <test binary> --nocapture --test-threads 1
// Observed: "Invalid read of size 8 ... inside a block of size 248 free'd" in <iour::Driver as Drop>::drop
// (second CQE of the same multishot op re-materialises the key the first CQE already freed).
use std::{
    net::{TcpListener, TcpStream},
    time::Duration,
};

use compio_driver::{AsRawFd, Proactor, PushEntry, SharedFd, op::AcceptMulti};

// Two multishot CQEs (both with IORING_CQE_F_MORE) are sitting in the completion
// queue, unprocessed, when the submitter gives up and the driver is dropped.
#[test]
fn probe_drop_with_two_multishot_cqes() {
    let mut driver = Proactor::builder().build().unwrap();
    let listener = TcpListener::bind("127.0.0.1:0").unwrap();
    let addr = listener.local_addr().unwrap();
    let fd = SharedFd::new(socket2::Socket::from(listener));
    driver.attach(fd.as_raw_fd()).unwrap();

    let op = AcceptMulti::new(fd.clone());
    let key = match driver.push(op) {
        PushEntry::Pending(k) => k,
        PushEntry::Ready(_) => panic!("unexpected"),
    };
    // submit without reaping completions
    driver.flush();
    let _c1 = TcpStream::connect(addr).unwrap();
    let _c2 = TcpStream::connect(addr).unwrap();
    std::thread::sleep(Duration::from_millis(200));
    // the awaiting future is dropped -> cancel drops the submitter's reference
    let _ = driver.cancel(key);
    drop(driver);
    eprintln!("PROBE survived drop");
}
