//! F21 probe: read_to_end / read_to_end_at must APPEND to a non-empty buffer (their documentation, std's behaviour, and
//! C11's "pre-existing buffer content preserved"). Fails before /repo commit "fix: read_to_end appends ...", passes after.
use compio_buf::BufResult;
use compio_io::{AsyncReadAtExt, AsyncReadExt};
use futures_executor::block_on;

#[test]
fn read_to_end_appends() {
    block_on(async {
        let mut src: &[u8] = b"ABCDE";
        let BufResult(n, buf) = src.read_to_end(b"hello ".to_vec()).await;
        assert_eq!(n.unwrap(), 5);
        assert_eq!(buf, b"hello ABCDE");
    })
}

#[test]
fn read_to_end_at_appends() {
    block_on(async {
        let src: &[u8] = b"ABCDE";
        let BufResult(n, buf) = src.read_to_end_at(b"hello ".to_vec(), 1).await;
        assert_eq!(n.unwrap(), 4);
        assert_eq!(buf, b"hello BCDE");
    })
}
