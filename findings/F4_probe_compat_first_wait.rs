use std::time::{Duration, Instant};

use compio_compat::{FuturesAdapter, RuntimeCompat};
use compio_runtime::Runtime;

// First awaited thing in external-loop mode is a thread-pool job that finishes
// *after* the loop has flushed and gone to wait on the driver descriptor.
#[test]
fn probe_first_wait_remote_wake() {
    let (tx, rx) = std::sync::mpsc::channel();
    std::thread::spawn(move || {
        futures_executor::block_on(async {
            let runtime = Runtime::new().unwrap();
            let runtime = RuntimeCompat::<FuturesAdapter>::new(runtime).unwrap();
            let start = Instant::now();
            runtime
                .execute(async {
                    compio_runtime::spawn_blocking(|| std::thread::sleep(Duration::from_millis(200)))
                        .await
                        .unwrap();
                })
                .await;
            tx.send(start.elapsed()).unwrap();
        })
    });
    match rx.recv_timeout(Duration::from_secs(5)) {
        Ok(d) => eprintln!("PROBE completed after {:?}", d),
        Err(_) => panic!("PROBE: external loop still blocked 5 s after the pool job finished (lost wake-up)"),
    }
}

// Control: the same job, but an io_uring op completed first (so `poll()` ran once
// and armed the notifier).
#[test]
fn control_after_first_poll() {
    let (tx, rx) = std::sync::mpsc::channel();
    std::thread::spawn(move || {
        futures_executor::block_on(async {
            let runtime = Runtime::new().unwrap();
            let runtime = RuntimeCompat::<FuturesAdapter>::new(runtime).unwrap();
            let start = Instant::now();
            runtime
                .execute(async {
                    let _f = compio_fs::File::open("Cargo.toml").await.unwrap();
                    compio_runtime::spawn_blocking(|| std::thread::sleep(Duration::from_millis(200)))
                        .await
                        .unwrap();
                })
                .await;
            tx.send(start.elapsed()).unwrap();
        })
    });
    match rx.recv_timeout(Duration::from_secs(5)) {
        Ok(d) => eprintln!("CONTROL completed after {:?}", d),
        Err(_) => panic!("CONTROL: blocked too"),
    }
}
