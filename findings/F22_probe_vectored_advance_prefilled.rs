//! Both drivers: a vectored receive into `[empty buffer, buffer that already
//! has a length]` reports n bytes received but leaves the first buffer with
//! length 0, so the received bytes cannot be observed.
//!
//! `BufResultExt::map_vec_advanced` (compio-driver/src/sys/op/ext.rs) calls
//! `SetLenExt::advance_vec_to(n)`, which compares n with the *total* length of
//! all buffers and does nothing when `n <= total_len`, although the kernel
//! filled the first buffer from its start.
//!
//! Run:
//!   cargo test --offline -p compio --features polling,net,time,macros,io-ancillary \
//!       --test hc14a_read_vectored_prefilled -- --nocapture --test-threads 1

use std::time::Duration;

use compio::{
    driver::DriverType,
    io::{AsyncRead, AsyncWrite},
    net::{TcpListener, TcpStream, UdpSocket},
    runtime::time::timeout,
};

const T: Duration = Duration::from_millis(1000);

async fn scenario() {
    let l = TcpListener::bind("127.0.0.1:0").await.unwrap();
    let addr = l.local_addr().unwrap();
    let (mut c, (mut s, _)) =
        futures_util::try_join!(TcpStream::connect(addr), l.accept()).unwrap();

    // plain sibling for comparison: a Vec that already has a length is
    // overwritten from its start, and n tells how much is new.
    c.write(b"ab").await.0.unwrap();
    let mut pre = Vec::with_capacity(8);
    pre.extend_from_slice(&[9, 9, 9]);
    let (n, b) = timeout(T, s.read(pre)).await.unwrap().unwrap();
    println!("read          into len3/cap8:                   n={n} buf={b:?}");
    assert_eq!(&b[..n], b"ab");

    c.write(b"ab").await.0.unwrap();
    let mut second = Vec::with_capacity(8);
    second.extend_from_slice(&[9, 9, 9]);
    let (n, bufs) = timeout(T, s.read_vectored([Vec::with_capacity(4), second]))
        .await
        .unwrap()
        .unwrap();
    println!("read_vectored into [len0/cap4, len3/cap8]:      n={n} bufs={bufs:?}");

    // same with a datagram socket
    let a = UdpSocket::bind("127.0.0.1:0").await.unwrap();
    let b = UdpSocket::bind("127.0.0.1:0").await.unwrap();
    a.send_to(b"xy", b.local_addr().unwrap()).await.0.unwrap();
    let mut second = Vec::with_capacity(8);
    second.extend_from_slice(&[9, 9, 9]);
    let ((m, _), dbufs) = timeout(T, b.recv_from_vectored([Vec::with_capacity(4), second]))
        .await
        .unwrap()
        .unwrap();
    println!("recv_from_vectored into [len0/cap4, len3/cap8]: n={m} bufs={dbufs:?}");

    assert_eq!(n, 2);
    assert_eq!(bufs[0], b"ab", "2 bytes were received into the first buffer, but it is empty");
    assert_eq!(dbufs[0], b"xy");
}

#[compio_macros::test(with_proactor(driver_type = DriverType::IoUring))]
async fn read_vectored_prefilled_uring() {
    scenario().await
}

#[compio_macros::test(with_proactor(driver_type = DriverType::Poll))]
async fn read_vectored_prefilled_poll() {
    scenario().await
}
