//! HC19a demonstration 2: `MailboxInner::send` checks `is_closed()` and only
//! then (after boxing the message) pushes into the channel, while the actor's
//! `finish()` does `begin_stop(); pre_stop(); receiver.close()` where `close`
//! drains the queue *before* the flume receiver is dropped. A sender that has
//! passed the `is_closed()` check before `begin_stop()` and reaches `try_send`
//! after `drain()` took the queue - but before the receiver is dropped, i.e.
//! while the drained messages are being dropped - gets `Ok(())`. Its message
//! is never handled and never dropped (flume keeps it as long as any `Mailbox`
//! exists), so a `call` hangs forever although the actor is gone.
//!
//! The schedule is forced here (no library code is changed):
//!  * the sending thread is parked inside the allocation made by
//!    `Delivering::from_msg` (between the check and `try_send`) by a global
//!    allocator that recognises the size of the boxed envelope,
//!  * the drain is held open by a queued message whose `Drop` waits.
//! Both only stand for "the thread was descheduled here".

use std::{
    alloc::{GlobalAlloc, Layout, System},
    cell::Cell,
    future::Future,
    num::NonZeroUsize,
    sync::{
        Arc,
        atomic::{AtomicBool, Ordering::SeqCst},
        mpsc,
    },
    task::{Context, Poll},
    time::{Duration, Instant},
};

use compio_actor::{Actor, ActorExit, Call, Cluster, Handler, Mailbox, mailbox::CallError};
use compio_dispatcher::Dispatcher;
use futures_util::task::noop_waker;

const MARK: usize = 4242;

static IN_GAP: AtomicBool = AtomicBool::new(false);
static LEAVE_GAP: AtomicBool = AtomicBool::new(false);

thread_local! {
    static ARMED: Cell<bool> = const { Cell::new(false) };
}

struct Stall;

unsafe impl GlobalAlloc for Stall {
    unsafe fn alloc(&self, layout: Layout) -> *mut u8 {
        if (MARK..MARK + 32).contains(&layout.size()) && ARMED.with(|a| a.replace(false)) {
            // We are in `Box::new(Envelope(call))`, i.e. after `is_closed()` and
            // before `try_send`.
            IN_GAP.store(true, SeqCst);
            while !LEAVE_GAP.load(SeqCst) {
                std::thread::sleep(Duration::from_millis(1));
            }
        }
        unsafe { System.alloc(layout) }
    }

    unsafe fn dealloc(&self, ptr: *mut u8, layout: Layout) {
        unsafe { System.dealloc(ptr, layout) }
    }
}

#[global_allocator]
static ALLOC: Stall = Stall;

fn wait_for(flag: &AtomicBool) {
    let deadline = Instant::now() + Duration::from_secs(10);
    while !flag.load(SeqCst) {
        assert!(Instant::now() < deadline, "schedule step timed out");
        std::thread::sleep(Duration::from_millis(1));
    }
}

struct Fragile {
    entered: mpsc::Sender<()>,
}

struct Gate(flume::Receiver<()>);
struct Fail;
struct Marker(#[allow(dead_code)] [u8; MARK]);

/// A queued cast that is slow to drop.
struct SlowDrop {
    dropping: Arc<AtomicBool>,
    finish_drop: Arc<AtomicBool>,
}

impl Drop for SlowDrop {
    fn drop(&mut self) {
        self.dropping.store(true, SeqCst);
        wait_for(&self.finish_drop);
    }
}

impl Actor for Fragile {
    type Arguments = ();
    type Error = &'static str;
    type State = ();

    async fn pre_start(&self, _: &Mailbox<Self>, (): ()) -> Result<(), Self::Error> {
        Ok(())
    }
}

impl Handler<Gate> for Fragile {
    async fn handle(&self, _: &Mailbox<Self>, Gate(go): Gate, _: &mut ()) -> Result<(), Self::Error> {
        self.entered.send(()).unwrap();
        go.recv_async().await.ok();
        Ok(())
    }
}

impl Handler<Fail> for Fragile {
    async fn handle(&self, _: &Mailbox<Self>, Fail: Fail, _: &mut ()) -> Result<(), Self::Error> {
        Err("handler failed")
    }
}

impl Handler<SlowDrop> for Fragile {
    async fn handle(&self, _: &Mailbox<Self>, _: SlowDrop, _: &mut ()) -> Result<(), Self::Error> {
        Ok(())
    }
}

impl Handler<Call<Marker, ()>> for Fragile {
    async fn handle(
        &self,
        _: &Mailbox<Self>,
        call: Call<Marker, ()>,
        _: &mut (),
    ) -> Result<(), Self::Error> {
        call.reply(()).ok();
        Ok(())
    }
}

#[compio_macros::test]
async fn call_racing_with_actor_failure_gets_an_answer() {
    let dispatcher = Dispatcher::builder()
        .worker_threads(NonZeroUsize::new(1).unwrap())
        .build()
        .unwrap();
    let cluster = Cluster::from_dispatcher(dispatcher);
    let (entered, entered_rx) = mpsc::channel();
    let (mailbox, handle) = cluster
        .spawn(move || Fragile { entered }, ())
        .await
        .unwrap();

    // Park the actor in a handler and queue [Fail, SlowDrop] behind it.
    let (go_tx, go_rx) = flume::bounded(1);
    mailbox.send(Gate(go_rx)).ok().unwrap();
    entered_rx.recv_timeout(Duration::from_secs(5)).unwrap();
    let dropping = Arc::new(AtomicBool::new(false));
    let finish_drop = Arc::new(AtomicBool::new(false));
    mailbox.send(Fail).ok().unwrap();
    mailbox
        .send(SlowDrop {
            dropping: dropping.clone(),
            finish_drop: finish_drop.clone(),
        })
        .ok()
        .unwrap();

    // The caller thread: polls `mailbox.call(..)` by hand.
    let enqueued = Arc::new(AtomicBool::new(false));
    let actor_gone = Arc::new(AtomicBool::new(false));
    let caller = std::thread::Builder::new()
        .stack_size(16 << 20)
        .spawn({
            let mailbox = mailbox.clone();
            let enqueued = enqueued.clone();
            let actor_gone = actor_gone.clone();
            move || {
                let waker = noop_waker();
                let mut cx = Context::from_waker(&waker);
                let mut call = Box::pin(mailbox.call(Marker([0; MARK])));
                ARMED.with(|a| a.set(true));
                // First poll: is_closed() == false, box the envelope (parked
                // there by the allocator), try_send.
                let first = call.as_mut().poll(&mut cx);
                enqueued.store(true, SeqCst);
                if let Poll::Ready(result) = first {
                    return Some(result);
                }
                wait_for(&actor_gone);
                // The actor has exited; give the call 3 more seconds.
                let deadline = Instant::now() + Duration::from_secs(3);
                while Instant::now() < deadline {
                    if let Poll::Ready(result) = call.as_mut().poll(&mut cx) {
                        return Some(result);
                    }
                    std::thread::sleep(Duration::from_millis(5));
                }
                None
            }
        })
        .unwrap();

    // 1. the caller has passed `is_closed()` (mailbox open) and is descheduled.
    wait_for(&IN_GAP);
    assert!(!mailbox.is_closed());
    // 2. the actor handles Fail: begin_stop, pre_stop, close() -> drain().
    go_tx.send(()).unwrap();
    wait_for(&dropping);
    assert!(mailbox.is_closed());
    // 3. the caller continues with try_send while the drained messages are
    //    being dropped.
    LEAVE_GAP.store(true, SeqCst);
    wait_for(&enqueued);
    // 4. the drain completes, the receiver is dropped, the actor exits.
    finish_drop.store(true, SeqCst);
    assert_eq!(handle.await.unwrap(), ActorExit::Failed("handler failed"));
    actor_gone.store(true, SeqCst);

    let outcome = caller.join().unwrap();
    match outcome {
        Some(Err(CallError::NoReply)) | Some(Err(CallError::Closed(_))) => {}
        Some(Ok(())) => panic!("impossible: the actor never handled the call"),
        Some(Err(CallError::Full(_))) => panic!("unexpected Full"),
        None => panic!(
            "the call was accepted by the mailbox (send returned Ok) after the queue had been \
             drained and is still pending 3s after the actor exited with Failed"
        ),
    }
}
