//! HC19a demonstration 2b: the same send/close race as in
//! `hc19a_send_close_race.rs`, but without forcing the schedule: plain threads,
//! no allocator tricks, no blocking `Drop`. The only "help" is the shape of the
//! input: large messages (boxing them takes a while, which is the sender's
//! window between `is_closed()` and `try_send`) and queued casts that own heap
//! data (dropping them is the window between `drain()` and the receiver drop).
//!
//! A call is reported as lost when `Mailbox::call` accepted it (first poll is
//! `Pending`) and it is still pending 3 seconds after the actor's handle
//! reported `ActorExit::Failed`.

use std::{
    future::Future,
    num::NonZeroUsize,
    pin::Pin,
    sync::{
        Arc,
        atomic::{AtomicBool, Ordering::SeqCst},
        mpsc,
    },
    task::{Context, Poll},
    time::{Duration, Instant},
};

use compio_actor::{Actor, ActorExit, Call, Cluster, Handler, Mailbox, mailbox::CallError};
use compio_dispatcher::Dispatcher;
use futures_util::task::noop_waker;

const BIG: usize = 256 * 1024;

struct Fragile {
    entered: mpsc::Sender<()>,
}

struct Gate(flume::Receiver<()>);
struct Fail;
struct Big(#[allow(dead_code)] [u8; BIG]);
struct Heavy(#[allow(dead_code)] Vec<Box<u64>>);

impl Actor for Fragile {
    type Arguments = ();
    type Error = &'static str;
    type State = ();

    async fn pre_start(&self, _: &Mailbox<Self>, (): ()) -> Result<(), Self::Error> {
        Ok(())
    }
}

impl Handler<Gate> for Fragile {
    async fn handle(&self, _: &Mailbox<Self>, Gate(go): Gate, _: &mut ()) -> Result<(), Self::Error> {
        self.entered.send(()).unwrap();
        go.recv_async().await.ok();
        Ok(())
    }
}

impl Handler<Fail> for Fragile {
    async fn handle(&self, _: &Mailbox<Self>, Fail: Fail, _: &mut ()) -> Result<(), Self::Error> {
        Err("handler failed")
    }
}

impl Handler<Heavy> for Fragile {
    async fn handle(&self, _: &Mailbox<Self>, _: Heavy, _: &mut ()) -> Result<(), Self::Error> {
        Ok(())
    }
}

impl Handler<Call<Big, ()>> for Fragile {
    async fn handle(
        &self,
        _: &Mailbox<Self>,
        call: Call<Big, ()>,
        _: &mut (),
    ) -> Result<(), Self::Error> {
        call.reply(()).ok();
        Ok(())
    }
}

type Pending = Pin<Box<dyn Future<Output = Result<(), CallError<Big>>>>>;

#[compio_macros::test]
async fn no_accepted_call_is_lost_when_the_actor_fails() {
    let dispatcher = Dispatcher::builder()
        .worker_threads(NonZeroUsize::new(1).unwrap())
        .stack_size(64 << 20)
        .build()
        .unwrap();
    let cluster = Cluster::from_dispatcher(dispatcher);
    let trials = 200;
    let mut lost_total = 0;

    for trial in 0..trials {
        let t0 = Instant::now();
        let (entered, entered_rx) = mpsc::channel();
        let (mailbox, handle) = cluster
            .spawn(move || Fragile { entered }, ())
            .await
            .unwrap();
        let (go_tx, go_rx) = flume::bounded(1);
        mailbox.send(Gate(go_rx)).ok().unwrap();
        entered_rx.recv_timeout(Duration::from_secs(5)).unwrap();
        mailbox.send(Fail).ok().unwrap();
        for _ in 0..40 {
            let heavy = Heavy((0..2000).map(Box::new).collect());
            mailbox.send(heavy).ok().unwrap();
        }

        let actor_gone = Arc::new(AtomicBool::new(false));
        let started = Arc::new(AtomicBool::new(false));
        let caller = std::thread::Builder::new()
            .stack_size(64 << 20)
            .spawn({
                let mailbox = mailbox.clone();
                let actor_gone = actor_gone.clone();
                let started = started.clone();
                move || {
                    let waker = noop_waker();
                    let mut cx = Context::from_waker(&waker);
                    let mut pending: Vec<Pending> = Vec::new();
                    let mut attempts = 0usize;
                    loop {
                        // The future borrows the mailbox; leak a clone per
                        // accepted call to keep the borrow 'static.
                        let mb: &'static Mailbox<Fragile> = Box::leak(Box::new(mailbox.clone()));
                        let mut call: Pending = Box::pin(mb.call(Big([0; BIG])));
                        attempts += 1;
                        if attempts >= 100 {
                            started.store(true, SeqCst);
                        }
                        match call.as_mut().poll(&mut cx) {
                            Poll::Pending => pending.push(call),
                            Poll::Ready(Err(CallError::Full(_))) => {}
                            Poll::Ready(Err(CallError::Closed(_))) => break,
                            Poll::Ready(_) => {}
                        }
                    }
                    while !actor_gone.load(SeqCst) {
                        std::thread::sleep(Duration::from_millis(1));
                    }
                    let deadline = Instant::now() + Duration::from_secs(3);
                    loop {
                        pending.retain_mut(|call| call.as_mut().poll(&mut cx).is_pending());
                        if pending.is_empty() || Instant::now() > deadline {
                            break;
                        }
                        std::thread::sleep(Duration::from_millis(5));
                    }
                    (attempts, pending.len())
                }
            })
            .unwrap();

        while !started.load(SeqCst) {
            std::thread::yield_now();
        }
        std::thread::sleep(Duration::from_micros(500 + 37 * (trial as u64 % 20)));
        go_tx.send(()).unwrap();
        assert_eq!(handle.await.unwrap(), ActorExit::Failed("handler failed"));
        actor_gone.store(true, SeqCst);
        let (attempts, lost) = caller.join().unwrap();
        if trial < 5 { eprintln!("trial {trial}: attempts {attempts} lost {lost} t={:?}", t0.elapsed()); }
        if lost > 0 {
            eprintln!("trial {trial}: {lost} accepted call(s) still pending after the actor failed ({attempts} attempts)");
            lost_total += lost;
            break;
        }
    }
    assert_eq!(
        lost_total, 0,
        "calls accepted by the mailbox were neither answered nor failed"
    );
}
