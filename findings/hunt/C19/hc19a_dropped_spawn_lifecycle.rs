//! HC19a demonstration 3 (lower severity): when the `SpawnFuture` is dropped
//! while `pre_start` is still running, cluster/spawn.rs goes straight from
//! `pre_start` to `finish()`: `pre_stop` and `post_stop` run although
//! `post_start` never ran. The documented order is
//! `pre_start, post_start, message handling, pre_stop, post_stop`.

use std::{
    future::IntoFuture,
    num::NonZeroUsize,
    sync::{Arc, Mutex, mpsc},
    time::Duration,
};

use compio_actor::{Actor, Cluster, Mailbox};
use compio_dispatcher::Dispatcher;

struct Logger {
    log: Arc<Mutex<Vec<&'static str>>>,
    entered: mpsc::Sender<()>,
    go: flume::Receiver<()>,
    done: mpsc::Sender<()>,
}

impl Actor for Logger {
    type Arguments = ();
    type Error = ();
    type State = ();

    async fn pre_start(&self, _: &Mailbox<Self>, (): ()) -> Result<(), ()> {
        self.log.lock().unwrap().push("pre_start");
        self.entered.send(()).unwrap();
        self.go.recv_async().await.unwrap();
        Ok(())
    }

    async fn post_start(&self, _: &Mailbox<Self>, _: &mut ()) -> Result<(), ()> {
        self.log.lock().unwrap().push("post_start");
        Ok(())
    }

    async fn pre_stop(&self, _: &Mailbox<Self>, _: &mut ()) -> Result<(), ()> {
        self.log.lock().unwrap().push("pre_stop");
        Ok(())
    }

    async fn post_stop(&self, _: &Mailbox<Self>, _: &mut ()) -> Result<(), ()> {
        self.log.lock().unwrap().push("post_stop");
        self.done.send(()).unwrap();
        Ok(())
    }
}

#[compio_macros::test]
async fn stop_hooks_only_run_after_post_start() {
    let dispatcher = Dispatcher::builder()
        .worker_threads(NonZeroUsize::new(1).unwrap())
        .build()
        .unwrap();
    let cluster = Cluster::from_dispatcher(dispatcher);
    let log = Arc::new(Mutex::new(Vec::new()));
    let (entered, entered_rx) = mpsc::channel();
    let (done, done_rx) = mpsc::channel();
    let (go_tx, go) = flume::bounded(1);
    let spawn = cluster
        .spawn(
            {
                let log = log.clone();
                move || Logger {
                    log,
                    entered,
                    go,
                    done,
                }
            },
            (),
        )
        .into_future();
    entered_rx.recv_timeout(Duration::from_secs(5)).unwrap();
    drop(spawn); // e.g. the spawner was cancelled by a timeout
    go_tx.send(()).unwrap();
    done_rx.recv_timeout(Duration::from_secs(5)).ok();
    std::thread::sleep(Duration::from_millis(100));

    let log = log.lock().unwrap().clone();
    let ok = log == ["pre_start", "post_start", "pre_stop", "post_stop"] || log == ["pre_start"];
    assert!(ok, "hooks ran as {log:?}");
}
