//! HC13a / D9: `Sink::poll_flush` panics (`unreachable!("`Framed` is closing,
//! cannot flush")`) if a `close()` was started and its future dropped before
//! the writer's `shutdown` completed (timeout / `select!` cancellation), and
//! the sink is flushed afterwards. `poll_ready` and `poll_close` both cope
//! with the `Closing` state (they drive it to completion via `poll_sink`);
//! `poll_flush` is the odd sibling.
//!
//! Expected: drive the pending shutdown to completion (like `poll_ready`
//! does) or return an error; never panic.
//!
//! Run: CARGO_TARGET_DIR=/tmp/sa/HC13a/target cargo test --offline --workspace --test hc13a_flush_after_cancelled_close

use std::{
    future::Future,
    io,
    pin::Pin,
    task::{Context, Poll},
};

use compio_buf::{BufResult, IoBuf, bytes::Bytes};
use compio_io::{
    AsyncWrite,
    framed::{Framed, codec::bytes::BytesCodec, frame::LengthDelimited},
};
use futures_executor::block_on;
use futures_util::SinkExt;

/// Returns `Pending` once (waking itself), then `Ready`.
struct YieldOnce(bool);

impl Future for YieldOnce {
    type Output = ();

    fn poll(mut self: Pin<&mut Self>, cx: &mut Context<'_>) -> Poll<()> {
        if self.0 {
            Poll::Ready(())
        } else {
            self.0 = true;
            cx.waker().wake_by_ref();
            Poll::Pending
        }
    }
}

struct SlowShutdown;

impl AsyncWrite for SlowShutdown {
    async fn write<T: IoBuf>(&mut self, buf: T) -> BufResult<usize, T> {
        use compio_buf::IoBufExt;
        BufResult(Ok(buf.buf_len()), buf)
    }

    async fn flush(&mut self) -> io::Result<()> {
        Ok(())
    }

    async fn shutdown(&mut self) -> io::Result<()> {
        YieldOnce(false).await;
        Ok(())
    }
}

#[test]
fn flush_after_cancelled_close_does_not_panic() {
    block_on(async {
        let mut framed = Framed::symmetric::<Bytes>(BytesCodec::new(), LengthDelimited::new())
            .with_reader(&b""[..])
            .with_writer(SlowShutdown);

        framed.send(Bytes::from_static(b"x")).await.unwrap();

        // Start closing, get `Pending`, and give up (e.g. a timeout fired).
        {
            let mut close = SinkExt::<Bytes>::close(&mut framed);
            assert!(futures_util::poll!(&mut close).is_pending());
        }

        // Panics: "internal error: entered unreachable code: `Framed` is
        // closing, cannot flush"
        let _ = SinkExt::<Bytes>::flush(&mut framed).await;
    });
}
