//! HC13a / D2: `LengthDelimited::enclose` silently truncates the payload
//! length to the configured length-field width.
//!
//! With `set_length_field_len(n)` for n in 1..=7 (all allowed, the assertion is
//! only `n <= 8`), a payload of `2^(8n)` bytes or more is enclosed with only
//! the low `n` bytes of its length (`&len.to_be_bytes()[8 - n..]` /
//! `&len.to_le_bytes()[..n]`). Nothing is reported to the sender, the full
//! payload is written, and the receiver (same framer, same parameters) decodes
//! a different sequence of frames: the frame is split into garbage frames and
//! the frames that follow are swallowed / misparsed.
//!
//! Expected: a frame that cannot be represented must be refused (error from
//! `start_send`, or at the very least a panic at the sender), never put on the
//! wire with a wrong header.
//!
//! Run: CARGO_TARGET_DIR=/tmp/sa/HC13a/target cargo test --offline --workspace --test hc13a_length_field_overflow

use std::{cell::RefCell, io, rc::Rc};

use compio_buf::{BufResult, IoBuf, IoBufExt, IoBufMut, bytes::Bytes};
use compio_io::{
    AsyncRead, AsyncWrite,
    framed::{
        Framed,
        codec::bytes::BytesCodec,
        frame::{Framer, LengthDelimited},
    },
};
use futures_executor::block_on;
use futures_util::{SinkExt, StreamExt};

struct CollectWriter(Rc<RefCell<Vec<u8>>>);

impl AsyncWrite for CollectWriter {
    async fn write<T: IoBuf>(&mut self, buf: T) -> BufResult<usize, T> {
        self.0.borrow_mut().extend_from_slice(buf.as_init());
        BufResult(Ok(buf.buf_len()), buf)
    }

    async fn flush(&mut self) -> io::Result<()> {
        Ok(())
    }

    async fn shutdown(&mut self) -> io::Result<()> {
        Ok(())
    }
}

/// Delivers `data` in pieces of at most `chunk` bytes.
struct ChunkReader {
    data: Vec<u8>,
    pos: usize,
    chunk: usize,
}

impl AsyncRead for ChunkReader {
    async fn read<B: IoBufMut>(&mut self, buf: B) -> BufResult<usize, B> {
        let end = self.pos.saturating_add(self.chunk).min(self.data.len());
        let mut src = &self.data[self.pos..end];
        let BufResult(res, buf) = src.read(buf).await;
        if let Ok(n) = &res {
            self.pos += n;
        }
        BufResult(res, buf)
    }
}

fn roundtrip(framer: LengthDelimited, frames: &[Vec<u8>], chunk: usize) -> Vec<Vec<u8>> {
    block_on(async {
        let wire = Rc::new(RefCell::new(Vec::new()));
        let mut tx = Framed::symmetric::<Bytes>(BytesCodec::new(), framer)
            .with_reader(&b""[..])
            .with_writer(CollectWriter(wire.clone()));
        for f in frames {
            tx.send(Bytes::from(f.clone())).await.unwrap();
        }
        let data = wire.borrow().clone();

        let mut rx = Framed::symmetric::<Bytes>(BytesCodec::new(), framer)
            .with_reader(ChunkReader {
                data,
                pos: 0,
                chunk,
            })
            .with_writer(CollectWriter(Rc::new(RefCell::new(Vec::new()))));
        let mut out = Vec::new();
        // Bounded: a broken framer must not hang the test.
        for _ in 0..10_000 {
            match rx.next().await {
                Some(Ok(b)) => out.push(b.to_vec()),
                Some(Err(e)) => panic!("decode error: {e}"),
                None => break,
            }
        }
        out
    })
}

/// Sanity: payloads that fit the field round-trip for every width,
/// endianness and fragmentation.
#[test]
fn fitting_payloads_roundtrip() {
    for lfl in 1..=8usize {
        for be in [true, false] {
            let framer = LengthDelimited::new()
                .set_length_field_len(lfl)
                .set_length_field_is_big_endian(be);
            let frames: Vec<Vec<u8>> = vec![
                vec![],
                b"a".to_vec(),
                vec![0xff; 255],
                vec![],
                (0..200u8).collect(),
            ];
            for chunk in [1, 2, 3, 7, 64, 4096] {
                assert_eq!(
                    roundtrip(framer, &frames, chunk),
                    frames,
                    "lfl={lfl} be={be} chunk={chunk}"
                );
            }
        }
    }
}

/// A 1-byte length field and a 256-byte payload followed by a small frame.
#[test]
fn oversize_payload_one_byte_field() {
    let framer = LengthDelimited::new().set_length_field_len(1);
    let frames = vec![vec![b'x'; 256], b"tail".to_vec()];
    let got = roundtrip(framer, &frames, 4096);
    assert_eq!(
        got.len(),
        frames.len(),
        "number of frames changed: got lengths {:?}",
        got.iter().map(Vec::len).collect::<Vec<_>>()
    );
    assert_eq!(got, frames);
}

/// A 2-byte little-endian length field and a 65536 + 3 byte payload.
#[test]
fn oversize_payload_two_byte_field_le() {
    let framer = LengthDelimited::new()
        .set_length_field_len(2)
        .set_length_field_is_big_endian(false);
    let frames = vec![vec![7u8; 65536 + 3], b"tail".to_vec()];
    let got = roundtrip(framer, &frames, 1000);
    assert_eq!(
        got.len(),
        frames.len(),
        "number of frames changed: got lengths {:?}",
        got.iter().map(Vec::len).collect::<Vec<_>>()
    );
    assert_eq!(got, frames);
}

/// The framer alone: the header written for a 300-byte payload with a 1-byte
/// field claims 44 bytes.
#[test]
fn enclose_header_matches_payload_len() {
    let mut framer = LengthDelimited::new().set_length_field_len(1);
    let mut buf = vec![0u8; 300];
    Framer::<Vec<u8>>::enclose(&mut framer, &mut buf);
    assert_eq!(buf.len(), 301);
    let frame = Framer::<Vec<u8>>::extract(&mut framer, &buf.slice(..))
        .unwrap()
        .unwrap();
    assert_eq!(
        frame.len(),
        301,
        "extract(enclose(payload)) must cover the whole enclosed payload"
    );
}
