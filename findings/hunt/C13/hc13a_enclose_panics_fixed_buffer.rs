//! HC13a / D10: with a fixed-capacity write buffer (`Framed::with_buffer`),
//! an item whose encoding fits the buffer but leaves no room for the framing
//! bytes makes `Sink::start_send` panic instead of returning an error.
//!
//! `start_send` reports an encoder failure as `Err` (and the bundled codecs do
//! return `Err` when the item itself does not fit), but the framing step
//! `Framer::enclose` has no way to fail: `LengthDelimited::enclose` does
//! `buf.reserve(n).expect("Reserve failed")` and `AnyDelimited::enclose` does
//! `extend_from_slice(..).expect("Failed to append delimiter")`. So whether a
//! too-large item is an `Err` or a panic of the sending task depends on
//! whether it misses the capacity by more or by less than the header size.
//!
//! Expected: `start_send` returns an error (e.g. `WriteZero`/`OutOfMemory`).
//!
//! Run: CARGO_TARGET_DIR=/tmp/sa/HC13a/target cargo test --offline --workspace --test hc13a_enclose_panics_fixed_buffer

use std::io;

use compio_buf::{BufResult, IoBuf, arrayvec::ArrayVec, bytes::Bytes};
use compio_io::{
    AsyncWrite,
    framed::{
        Framed,
        codec::bytes::BytesCodec,
        frame::{LengthDelimited, LineDelimited},
    },
};
use futures_executor::block_on;
use futures_util::SinkExt;

struct NullWriter;

impl AsyncWrite for NullWriter {
    async fn write<T: IoBuf>(&mut self, buf: T) -> BufResult<usize, T> {
        use compio_buf::IoBufExt;
        BufResult(Ok(buf.buf_len()), buf)
    }

    async fn flush(&mut self) -> io::Result<()> {
        Ok(())
    }

    async fn shutdown(&mut self) -> io::Result<()> {
        Ok(())
    }
}

#[test]
fn item_that_does_not_fit_at_all_is_an_error() {
    // Sanity: 17 bytes into a 16-byte buffer -> the codec reports Err.
    block_on(async {
        let mut tx = Framed::symmetric::<Bytes>(BytesCodec::new(), LengthDelimited::new())
            .with_buffer(ArrayVec::<u8, 16>::new(), ArrayVec::<u8, 16>::new())
            .with_reader(&b""[..])
            .with_writer(NullWriter);
        assert!(tx.send(Bytes::from_static(&[b'x'; 17])).await.is_err());
    });
}

#[test]
fn length_delimited_item_that_leaves_no_room_for_the_header_is_an_error() {
    block_on(async {
        let mut tx = Framed::symmetric::<Bytes>(BytesCodec::new(), LengthDelimited::new())
            .with_buffer(ArrayVec::<u8, 16>::new(), ArrayVec::<u8, 16>::new())
            .with_reader(&b""[..])
            .with_writer(NullWriter);
        // 14 + 4 > 16: panics with "Reserve failed: NotSupported"
        assert!(tx.send(Bytes::from_static(&[b'x'; 14])).await.is_err());
    });
}

#[test]
fn line_delimited_item_that_leaves_no_room_for_the_delimiter_is_an_error() {
    block_on(async {
        let mut tx = Framed::symmetric::<Bytes>(BytesCodec::new(), LineDelimited::new())
            .with_buffer(ArrayVec::<u8, 16>::new(), ArrayVec::<u8, 16>::new())
            .with_reader(&b""[..])
            .with_writer(NullWriter);
        // 16 + 1 > 16: panics with "Failed to append delimiter: NotSupported"
        assert!(tx.send(Bytes::from_static(&[b'x'; 16])).await.is_err());
    });
}
