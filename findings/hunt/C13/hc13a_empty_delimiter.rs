//! HC13a / D8: `AnyDelimited::new(b"")` is accepted, `enclose` works (appends
//! nothing), but `extract` panics on the first non-empty input:
//! `buf.windows(self.bytes.len())` is `windows(0)`, which panics with
//! "window size must be non-zero". The panic happens in the receive path, on
//! whatever bytes the peer sends first.
//!
//! Expected: reject the empty delimiter in `AnyDelimited::new` (documented
//! panic or `Result`), or return an `io::Error` from `extract`.
//!
//! Run: CARGO_TARGET_DIR=/tmp/sa/HC13a/target cargo test --offline --workspace --test hc13a_empty_delimiter

use compio_buf::IoBufExt;
use compio_io::framed::frame::{AnyDelimited, Framer};

#[test]
fn empty_delimiter_extract_does_not_panic() {
    let mut framer = AnyDelimited::new(b"");
    let mut buf = b"hello".to_vec();
    Framer::<Vec<u8>>::enclose(&mut framer, &mut buf);
    assert_eq!(buf, b"hello");
    // Panics: "window size must be non-zero"
    let res = Framer::<Vec<u8>>::extract(&mut framer, &buf.slice(..));
    assert!(res.is_err() || res.unwrap().is_none());
}
