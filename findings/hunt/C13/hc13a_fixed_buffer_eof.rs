//! HC13a / D3: with a fixed-capacity read buffer (`Framed::with_buffer`, e.g.
//! `ArrayVec<u8, N>`) the `Stream` side ends early and silently drops frames.
//!
//! `poll_next` never moves the unconsumed tail of the read buffer to the front:
//! the consumed prefix is only reclaimed when the buffer happens to be drained
//! completely (`if buf.advance(frame.len()) { buf.reset() }`). As soon as a
//! read ends in the middle of a frame the spare capacity behind the data
//! shrinks; `buf.reserve(16)` fails with `NotSupported` (ignored by
//! `Buffer::reserve`), `io.append(buf)` is issued with a zero-capacity
//! destination, returns `Ok(0)`, and that `0` is taken for EOF. Two such
//! reads later the stream yields `None` although the reader still has data,
//! and every frame not yet decoded is lost -- no error is reported.
//!
//! Expected: all frames that individually fit the buffer are delivered (compact
//! the buffer before reading), and a frame that cannot fit yields an error
//! instead of a clean end of stream.
//!
//! Run: CARGO_TARGET_DIR=/tmp/sa/HC13a/target cargo test --offline --workspace --test hc13a_fixed_buffer_eof

use std::io;

use compio_buf::{BufResult, IoBuf, IoBufMut, arrayvec::ArrayVec, bytes::Bytes};
use compio_io::{
    AsyncRead, AsyncWrite,
    framed::{Framed, codec::bytes::BytesCodec, frame::LengthDelimited},
};
use futures_executor::block_on;
use futures_util::StreamExt;

struct NullWriter;

impl AsyncWrite for NullWriter {
    async fn write<T: IoBuf>(&mut self, buf: T) -> BufResult<usize, T> {
        use compio_buf::IoBufExt;
        BufResult(Ok(buf.buf_len()), buf)
    }

    async fn flush(&mut self) -> io::Result<()> {
        Ok(())
    }

    async fn shutdown(&mut self) -> io::Result<()> {
        Ok(())
    }
}

/// Delivers `data` in pieces of at most `chunk` bytes and records whether it
/// was read to the end.
struct ChunkReader {
    data: Vec<u8>,
    pos: usize,
    chunk: usize,
}

impl AsyncRead for ChunkReader {
    async fn read<B: IoBufMut>(&mut self, buf: B) -> BufResult<usize, B> {
        let end = self.pos.saturating_add(self.chunk).min(self.data.len());
        let mut src = &self.data[self.pos..end];
        let BufResult(res, buf) = src.read(buf).await;
        if let Ok(n) = &res {
            self.pos += n;
        }
        BufResult(res, buf)
    }
}

fn wire(frames: &[&[u8]]) -> Vec<u8> {
    let mut v = Vec::new();
    for f in frames {
        v.push(f.len() as u8);
        v.extend_from_slice(f);
    }
    v
}

/// Ten 6-byte frames (1-byte length + 5 bytes), a 16-byte buffer: every frame
/// fits the buffer more than twice over.
#[test]
fn all_frames_arrive_with_arrayvec_buffer() {
    let frames: Vec<&[u8]> = vec![
        b"aaaaa", b"bbbbb", b"ccccc", b"ddddd", b"eeeee", b"fffff", b"ggggg", b"hhhhh", b"iiiii",
        b"jjjjj",
    ];
    let data = wire(&frames);

    let got = block_on(async {
        let mut rx = Framed::symmetric::<Bytes>(
            BytesCodec::new(),
            LengthDelimited::new().set_length_field_len(1),
        )
        .with_buffer(ArrayVec::<u8, 16>::new(), ArrayVec::<u8, 16>::new())
        .with_reader(ChunkReader {
            data,
            pos: 0,
            chunk: usize::MAX,
        })
        .with_writer(NullWriter);

        let mut out = Vec::new();
        for _ in 0..1000 {
            match rx.next().await {
                Some(Ok(b)) => out.push(b.to_vec()),
                Some(Err(e)) => panic!("unexpected error: {e}"),
                None => break,
            }
        }
        out
    });

    let want: Vec<Vec<u8>> = frames.iter().map(|f| f.to_vec()).collect();
    assert_eq!(
        got.len(),
        want.len(),
        "stream ended after {} of {} frames without an error",
        got.len(),
        want.len()
    );
    assert_eq!(got, want);
}

/// A single frame that is larger than the fixed buffer: the stream must not
/// pretend that the peer closed the connection cleanly.
#[test]
fn frame_larger_than_buffer_is_an_error_not_eof() {
    let payload = [b'z'; 40];
    let data = wire(&[&payload]);

    let first = block_on(async {
        let mut rx = Framed::symmetric::<Bytes>(
            BytesCodec::new(),
            LengthDelimited::new().set_length_field_len(1),
        )
        .with_buffer(ArrayVec::<u8, 16>::new(), ArrayVec::<u8, 16>::new())
        .with_reader(ChunkReader {
            data,
            pos: 0,
            chunk: usize::MAX,
        })
        .with_writer(NullWriter);
        rx.next().await
    });

    assert!(
        matches!(first, Some(Err(_))),
        "a 41-byte frame cannot fit the 16-byte buffer; expected Some(Err(_)), got {:?}",
        first.map(|r| r.map(|b| b.len()).map_err(|e| e.to_string()))
    );
}
