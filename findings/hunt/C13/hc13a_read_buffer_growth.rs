//! HC13a / D6: the read buffer of `Framed` grows without bound when the
//! fragmentation of the byte stream never lines up with a frame boundary.
//!
//! `poll_next` reclaims the consumed prefix of its buffer only if the buffer
//! is drained completely (`if buf.advance(frame.len()) { buf.reset() }`);
//! otherwise the slice start just moves forward and `buf.reserve(16)` makes
//! the `Vec` grow behind it. A peer that sends the first frame plus ONE byte of
//! the second, and from then on exactly one frame's worth of bytes per
//! segment, keeps one stray byte in the buffer forever: nothing is ever
//! reclaimed and the receiver's memory use equals the total number of bytes
//! ever received on the connection, although at most one 10-byte frame is
//! outstanding at any time.
//!
//! This test streams 20 MB of 10-byte frames that way and measures the heap
//! with a counting global allocator. Expected: a peak of a few KiB (compact the
//! buffer / `copy_within` the tail to the front before reading). Observed: the
//! peak is tens of MiB and proportional to the stream length.
//!
//! Run: CARGO_TARGET_DIR=/tmp/sa/HC13a/target cargo test --offline --workspace --test hc13a_read_buffer_growth

use std::{
    alloc::{GlobalAlloc, Layout, System},
    io,
    sync::atomic::{AtomicUsize, Ordering},
};

use compio_buf::{BufResult, IoBuf, IoBufMut, bytes::Bytes};
use compio_io::{
    AsyncRead, AsyncWrite,
    framed::{Framed, codec::bytes::BytesCodec, frame::LengthDelimited},
};
use futures_executor::block_on;
use futures_util::StreamExt;

struct Counting;

static LIVE: AtomicUsize = AtomicUsize::new(0);
static PEAK: AtomicUsize = AtomicUsize::new(0);

unsafe impl GlobalAlloc for Counting {
    unsafe fn alloc(&self, layout: Layout) -> *mut u8 {
        let p = unsafe { System.alloc(layout) };
        if !p.is_null() {
            let live = LIVE.fetch_add(layout.size(), Ordering::Relaxed) + layout.size();
            PEAK.fetch_max(live, Ordering::Relaxed);
        }
        p
    }

    unsafe fn dealloc(&self, ptr: *mut u8, layout: Layout) {
        LIVE.fetch_sub(layout.size(), Ordering::Relaxed);
        unsafe { System.dealloc(ptr, layout) }
    }

    unsafe fn realloc(&self, ptr: *mut u8, layout: Layout, new_size: usize) -> *mut u8 {
        let p = unsafe { System.realloc(ptr, layout, new_size) };
        if !p.is_null() {
            if new_size >= layout.size() {
                let d = new_size - layout.size();
                let live = LIVE.fetch_add(d, Ordering::Relaxed) + d;
                PEAK.fetch_max(live, Ordering::Relaxed);
            } else {
                LIVE.fetch_sub(layout.size() - new_size, Ordering::Relaxed);
            }
        }
        p
    }
}

#[global_allocator]
static GLOBAL: Counting = Counting;

struct NullWriter;

impl AsyncWrite for NullWriter {
    async fn write<T: IoBuf>(&mut self, buf: T) -> BufResult<usize, T> {
        use compio_buf::IoBufExt;
        BufResult(Ok(buf.buf_len()), buf)
    }

    async fn flush(&mut self) -> io::Result<()> {
        Ok(())
    }

    async fn shutdown(&mut self) -> io::Result<()> {
        Ok(())
    }
}

const FRAME: usize = 10; // 1-byte length (9) + 9 payload bytes

/// Generates the stream `09 xxxxxxxxx 09 xxxxxxxxx ...` lazily. The first
/// read returns 11 bytes, every later read 10 bytes.
struct OffByOnePeer {
    pos: usize,
    total: usize,
}

impl AsyncRead for OffByOnePeer {
    async fn read<B: IoBufMut>(&mut self, buf: B) -> BufResult<usize, B> {
        let want = if self.pos == 0 { FRAME + 1 } else { FRAME };
        let want = want.min(self.total - self.pos);
        let mut tmp = [0u8; FRAME + 1];
        for (i, b) in tmp[..want].iter_mut().enumerate() {
            *b = if (self.pos + i) % FRAME == 0 { 9 } else { b'x' };
        }
        let mut src = &tmp[..want];
        let BufResult(res, buf) = src.read(buf).await;
        if let Ok(n) = &res {
            self.pos += n;
        }
        BufResult(res, buf)
    }
}

#[test]
fn read_buffer_stays_bounded() {
    const FRAMES: usize = 2_000_000;
    let base = LIVE.load(Ordering::Relaxed);
    PEAK.store(base, Ordering::Relaxed);

    let n = block_on(async {
        let mut rx = Framed::symmetric::<Bytes>(
            BytesCodec::new(),
            LengthDelimited::new().set_length_field_len(1),
        )
        .with_reader(OffByOnePeer {
            pos: 0,
            total: FRAMES * FRAME,
        })
        .with_writer(NullWriter);

        let mut n = 0usize;
        while let Some(item) = rx.next().await {
            let item = item.unwrap();
            assert_eq!(&item[..], b"xxxxxxxxx");
            n += 1;
        }
        n
    });
    assert_eq!(n, FRAMES, "all frames decoded");

    let peak = PEAK.load(Ordering::Relaxed).saturating_sub(base);
    assert!(
        peak < 1 << 20,
        "receiving {} bytes in 10-byte frames needed a peak of {} bytes of heap",
        FRAMES * FRAME,
        peak
    );
}
