//! HC13a / D4: an error returned by `Framer::extract` leaves the read state
//! machine of `Framed` empty; the next `poll_next` panics.
//!
//! In `Stream::poll_next` the `Idle` arm does
//! `let (io, buf) = idle.take().expect(..)` and then
//! `this.framer.extract(inner)?`. On `Err` the `?` returns while the state is
//! still `Idle(None)`: the reader and the read buffer have been dropped. The
//! error item is delivered, but polling the stream again (what any `while let
//! Some(item) = framed.next().await` loop that logs-and-continues does)
//! panics with "Inconsistent state" instead of yielding an error or `None`.
//!
//! `Framer::extract` is documented to return `Err(io::Error)` "if an error
//! occurs during extraction", i.e. exactly when the peer sent bytes the framer
//! rejects (here: a frame length above a limit), so hostile input turns into a
//! panic of the receiving task.
//!
//! Run: CARGO_TARGET_DIR=/tmp/sa/HC13a/target cargo test --offline --workspace --test hc13a_extract_error_poisons

use std::io;

use compio_buf::{BufResult, IoBuf, IoBufMut, Slice, bytes::Bytes};
use compio_io::{
    AsyncWrite,
    framed::{
        Framed,
        codec::bytes::BytesCodec,
        frame::{Frame, Framer, LengthDelimited},
    },
};
use futures_executor::block_on;
use futures_util::StreamExt;

struct NullWriter;

impl AsyncWrite for NullWriter {
    async fn write<T: IoBuf>(&mut self, buf: T) -> BufResult<usize, T> {
        use compio_buf::IoBufExt;
        BufResult(Ok(buf.buf_len()), buf)
    }

    async fn flush(&mut self) -> io::Result<()> {
        Ok(())
    }

    async fn shutdown(&mut self) -> io::Result<()> {
        Ok(())
    }
}

/// `LengthDelimited` with the usual "max frame length" guard.
struct Limited {
    inner: LengthDelimited,
    max: usize,
}

impl<B: IoBufMut> Framer<B> for Limited {
    fn enclose(&mut self, buf: &mut B) {
        self.inner.enclose(buf)
    }

    fn extract(&mut self, buf: &Slice<B>) -> io::Result<Option<Frame>> {
        if buf.len() >= 4 {
            let len = u32::from_be_bytes(buf[..4].try_into().unwrap()) as usize;
            if len > self.max {
                return Err(io::Error::new(
                    io::ErrorKind::InvalidData,
                    "frame length over limit",
                ));
            }
        }
        self.inner.extract(buf)
    }
}

#[test]
fn stream_survives_an_extract_error() {
    block_on(async {
        // One good frame, then a header announcing 0xffff_fff0 bytes.
        let data: &'static [u8] = b"\x00\x00\x00\x02ok\xff\xff\xff\xf0garbage";
        let mut rx = Framed::symmetric::<Bytes>(
            BytesCodec::new(),
            Limited {
                inner: LengthDelimited::new(),
                max: 1 << 20,
            },
        )
        .with_reader(data)
        .with_writer(NullWriter);

        let first = rx.next().await.unwrap().unwrap();
        assert_eq!(&first[..], b"ok");

        let second = rx.next().await;
        assert!(matches!(second, Some(Err(_))), "the framer error is reported");

        // Any further poll must yield an error or `None`; it panics with
        // "Inconsistent state" instead.
        let third = rx.next().await;
        assert!(third.is_none() || third.unwrap().is_err());
    });
}
