//! HC13a / D7: a byte stream that ends in the middle of a frame is reported as
//! a clean end of stream; the trailing bytes are silently discarded.
//!
//! `Stream::poll_next` treats the second `Ok(0)` read as "return `None`"
//! without looking at what is left in the read buffer. A peer (or a broken
//! connection) that delivers `frame, frame, half-a-frame, EOF` is
//! indistinguishable from one that closed cleanly after two frames: the
//! truncated frame (which may even be a complete payload whose delimiter got
//! lost) is neither delivered nor reported. Expected: `Some(Err(UnexpectedEof))`
//! (what `tokio_util::codec::FramedRead` does: "bytes remaining on stream").
//!
//! Run: CARGO_TARGET_DIR=/tmp/sa/HC13a/target cargo test --offline --workspace --test hc13a_truncated_frame_eof

use std::io;

use compio_buf::{BufResult, IoBuf, bytes::Bytes};
use compio_io::{
    AsyncWrite,
    framed::{
        Framed,
        codec::bytes::BytesCodec,
        frame::{LengthDelimited, LineDelimited},
    },
};
use futures_executor::block_on;
use futures_util::StreamExt;

struct NullWriter;

impl AsyncWrite for NullWriter {
    async fn write<T: IoBuf>(&mut self, buf: T) -> BufResult<usize, T> {
        use compio_buf::IoBufExt;
        BufResult(Ok(buf.buf_len()), buf)
    }

    async fn flush(&mut self) -> io::Result<()> {
        Ok(())
    }

    async fn shutdown(&mut self) -> io::Result<()> {
        Ok(())
    }
}

#[test]
fn length_delimited_truncated_tail_is_reported() {
    block_on(async {
        // frame "ok", then a header announcing 16 bytes followed by only 5.
        let data: &'static [u8] = b"\x00\x00\x00\x02ok\x00\x00\x00\x10hello";
        let mut rx = Framed::symmetric::<Bytes>(BytesCodec::new(), LengthDelimited::new())
            .with_reader(data)
            .with_writer(NullWriter);

        assert_eq!(&rx.next().await.unwrap().unwrap()[..], b"ok");
        let tail = rx.next().await;
        assert!(
            matches!(tail, Some(Err(_))),
            "9 bytes of a truncated frame were dropped and the stream ended with {:?}",
            tail.map(|r| r.map_err(|e| e.to_string()))
        );
    });
}

#[test]
fn line_delimited_unterminated_tail_is_reported() {
    block_on(async {
        let data: &'static [u8] = b"first\nsecond-without-newline";
        let mut rx = Framed::symmetric::<Bytes>(BytesCodec::new(), LineDelimited::new())
            .with_reader(data)
            .with_writer(NullWriter);

        assert_eq!(&rx.next().await.unwrap().unwrap()[..], b"first");
        let tail = rx.next().await;
        assert!(
            tail.is_some(),
            "the unterminated last line was silently dropped (neither a frame nor an error)"
        );
    });
}
