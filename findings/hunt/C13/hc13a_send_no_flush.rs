//! HC13a / D1: `Framed`'s `Sink::poll_flush` and `Sink::poll_close` do not
//! flush / shut down the writer when they are polled while the frame write is
//! still in flight (state `Writing`), which is the state `start_send` always
//! leaves behind.
//!
//! `SinkExt::send(item)` is `feed(item)` followed by `poll_flush`: the flush
//! finds the state `Writing`, drives the write to completion and then returns
//! `Ready(Ok(()))` WITHOUT ever calling `AsyncWrite::flush` on the writer.
//! With any buffering writer (`compio_io::BufWriter`, a TLS stream, ...) the
//! frame never reaches the peer although `send().await` returned `Ok`.
//! Likewise `feed(item)` + `close()` returns `Ok` without ever calling
//! `AsyncWrite::shutdown` (and without flushing).
//!
//! Run: CARGO_TARGET_DIR=/tmp/sa/HC13a/target cargo test --offline --workspace --test hc13a_send_no_flush

use std::{cell::RefCell, io, rc::Rc};

use compio_buf::{BufResult, IoBuf, IoBufExt, bytes::Bytes};
use compio_io::{
    AsyncWrite, BufWriter,
    framed::{Framed, codec::bytes::BytesCodec, frame::LengthDelimited},
};
use futures_executor::block_on;
use futures_util::SinkExt;

#[derive(Default, Debug)]
struct Stats {
    data: Vec<u8>,
    flushes: usize,
    shutdowns: usize,
}

struct CountingWriter(Rc<RefCell<Stats>>);

impl AsyncWrite for CountingWriter {
    async fn write<T: IoBuf>(&mut self, buf: T) -> BufResult<usize, T> {
        self.0.borrow_mut().data.extend_from_slice(buf.as_init());
        BufResult(Ok(buf.buf_len()), buf)
    }

    async fn flush(&mut self) -> io::Result<()> {
        self.0.borrow_mut().flushes += 1;
        Ok(())
    }

    async fn shutdown(&mut self) -> io::Result<()> {
        self.0.borrow_mut().shutdowns += 1;
        Ok(())
    }
}

/// `send().await` returned `Ok`, so the frame must have been flushed to the
/// underlying transport.
#[test]
fn send_flushes_the_writer() {
    block_on(async {
        let stats = Rc::new(RefCell::new(Stats::default()));
        let mut framed = Framed::symmetric::<Bytes>(BytesCodec::new(), LengthDelimited::new())
            .with_reader(&b""[..])
            .with_writer(CountingWriter(stats.clone()));

        framed.send(Bytes::from_static(b"hello")).await.unwrap();

        let s = stats.borrow();
        assert_eq!(s.data, b"\x00\x00\x00\x05hello", "frame bytes written");
        assert_eq!(
            s.flushes, 1,
            "send() = feed + flush, but AsyncWrite::flush was never called"
        );
    });
}

/// Same defect, observable end to end: behind a `BufWriter` the frame never
/// reaches the transport although `send().await` returned `Ok`.
#[test]
fn send_through_bufwriter_reaches_the_transport() {
    block_on(async {
        let stats = Rc::new(RefCell::new(Stats::default()));
        let writer = BufWriter::new(CountingWriter(stats.clone()));
        let mut framed = Framed::symmetric::<Bytes>(BytesCodec::new(), LengthDelimited::new())
            .with_reader(&b""[..])
            .with_writer(writer);

        framed.send(Bytes::from_static(b"hello")).await.unwrap();

        assert_eq!(
            stats.borrow().data,
            b"\x00\x00\x00\x05hello",
            "send() completed but the frame is still sitting in the BufWriter"
        );
    });
}

/// `feed` + `close`: the close finds the state `Writing`, finishes the write
/// and reports `Ok` without shutting the writer down.
#[test]
fn feed_then_close_shuts_the_writer_down() {
    block_on(async {
        let stats = Rc::new(RefCell::new(Stats::default()));
        let mut framed = Framed::symmetric::<Bytes>(BytesCodec::new(), LengthDelimited::new())
            .with_reader(&b""[..])
            .with_writer(CountingWriter(stats.clone()));

        framed.feed(Bytes::from_static(b"hello")).await.unwrap();
        framed.close().await.unwrap();

        let s = stats.borrow();
        assert_eq!(s.data, b"\x00\x00\x00\x05hello", "frame bytes written");
        assert_eq!(
            s.shutdowns, 1,
            "close() returned Ok but AsyncWrite::shutdown was never called"
        );
    });
}

/// `close()` on a freshly configured `Framed` (nothing sent yet): `poll_close`
/// goes to `poll_sink`, which only initializes the state and returns
/// `Ready(Ok)`.
#[test]
fn close_on_fresh_framed_shuts_the_writer_down() {
    block_on(async {
        let stats = Rc::new(RefCell::new(Stats::default()));
        let mut framed = Framed::symmetric::<Bytes>(BytesCodec::new(), LengthDelimited::new())
            .with_reader(&b""[..])
            .with_writer(CountingWriter(stats.clone()));

        SinkExt::<Bytes>::close(&mut framed).await.unwrap();

        assert_eq!(
            stats.borrow().shutdowns,
            1,
            "close() returned Ok but AsyncWrite::shutdown was never called"
        );
    });
}
