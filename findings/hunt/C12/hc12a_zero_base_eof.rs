//! With base capacity 0 the adapter offers the inner stream a zero-length
//! buffer, gets `Ok(0)` back and latches a permanent EOF although the inner
//! stream still has data: all data is lost.
//!
//! Run: cargo test --offline -p compio-io --features compat --test hc12a_zero_base_eof

use std::io::Read;

use compio_io::compat::{AsyncReadStream, SyncStream};
use futures_executor::block_on;
use futures_util::AsyncReadExt;

#[test]
fn async_read_stream_capacity_zero() {
    let src: &'static [u8] = b"hello world";
    let stream = AsyncReadStream::with_capacity(0, src);
    let mut stream = std::pin::pin!(stream);
    let mut out = Vec::new();
    block_on(stream.read_to_end(&mut out)).unwrap();
    assert_eq!(out, src, "bytes delivered by the inner stream were lost (false EOF)");
}

#[test]
fn sync_stream_capacity_zero() {
    let src: &'static [u8] = b"hello world";
    let mut s = SyncStream::with_capacity(0, src);
    let n = block_on(s.fill_read_buf()).unwrap();
    let mut b = [0u8; 16];
    let r = s.read(&mut b);
    assert!(
        !(n == 0 && s.is_eof()),
        "fill_read_buf returned 0 and latched EOF (read -> {r:?}) although the inner stream has 11 bytes"
    );
}
