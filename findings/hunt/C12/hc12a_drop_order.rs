//! AsyncReadStream / AsyncWriteStream store a boxed future that borrows the
//! inner stream (`&'static mut` obtained through `extend_lifetime_mut`, with the
//! comment "The future won't live longer than the stream"). The fields are
//! declared `inner` first, `read_future` / `write_future` / `shutdown_future`
//! after it, so on drop the stream is destroyed FIRST and the future that
//! still borrows it is destroyed afterwards. Any inner stream whose
//! read/write future touches the stream in its destructor (deregistering a
//! waiter, returning a buffer to a pool, ...) then touches freed memory.
//!
//! Run (safe observation of the order):
//!   cargo test --offline -p compio-io --features compat --test hc12a_drop_order
//! Run (real use-after-free, detected by Miri):
//!   cargo +nightly miri test --offline -p compio-io --features compat --test hc12a_drop_order

use std::{
    cell::Cell,
    task::{Context, Poll, Waker},
};

use compio_buf::{BufResult, IoBufMut};
use compio_io::{AsyncRead, compat::AsyncReadStream};
use futures_util::AsyncRead as _;

thread_local! {
    static STREAM_ALIVE: Cell<bool> = const { Cell::new(true) };
    static FUTURE_DROPPED_AFTER_STREAM: Cell<bool> = const { Cell::new(false) };
}

struct Stream {
    waiters: Box<u32>,
}

impl Drop for Stream {
    fn drop(&mut self) {
        STREAM_ALIVE.set(false);
    }
}

struct Deregister<'a>(&'a mut u32);
impl Drop for Deregister<'_> {
    fn drop(&mut self) {
        if !STREAM_ALIVE.get() {
            FUTURE_DROPPED_AFTER_STREAM.set(true);
        }
        // Only dereference the (dangling) borrow under Miri, so that the
        // native run stays free of undefined behaviour.
        #[cfg(miri)]
        {
            *self.0 -= 1;
        }
    }
}

impl AsyncRead for Stream {
    async fn read<B: IoBufMut>(&mut self, buf: B) -> BufResult<usize, B> {
        *self.waiters += 1;
        let _guard = Deregister(&mut self.waiters);
        std::future::pending::<()>().await;
        BufResult(Ok(0), buf)
    }
}

#[test]
fn pending_future_is_dropped_before_the_stream_it_borrows() {
    let mut stream = Box::pin(AsyncReadStream::new(Stream {
        waiters: Box::new(0),
    }));
    let mut cx = Context::from_waker(Waker::noop());
    let mut b = [0u8; 4];
    assert!(matches!(stream.as_mut().poll_read(&mut cx, &mut b), Poll::Pending));
    drop(stream);
    assert!(
        !FUTURE_DROPPED_AFTER_STREAM.get(),
        "the in-flight read future (which borrows the inner stream) was dropped after the inner \
         stream had already been dropped"
    );
}
