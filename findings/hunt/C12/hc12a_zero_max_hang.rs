//! With max_buffer_size 0 AsyncStream::poll_write never returns: the sync
//! write reports WouldBlock ("buffer full"), the flush of the empty buffer
//! succeeds immediately, and the `loop` in poll_write spins forever inside a
//! single poll (no Pending, no error).
//!
//! Run: cargo test --offline -p compio-io --features compat --test hc12a_zero_max_hang

use std::{sync::mpsc, time::Duration};

use compio_io::compat::AsyncStream;
use futures_executor::block_on;
use futures_util::AsyncWriteExt;

#[test]
fn poll_write_with_zero_limit_terminates() {
    let (tx, rx) = mpsc::channel();
    std::thread::spawn(move || {
        let src: &'static [u8] = b"";
        let stream = AsyncStream::with_limits(8, 0, (src, Vec::<u8>::new()));
        let mut stream = std::pin::pin!(stream);
        let r = block_on(stream.write(b"x"));
        let _ = tx.send(r.map_err(|e| e.to_string()));
    });
    match rx.recv_timeout(Duration::from_secs(5)) {
        Ok(r) => println!("poll_write returned {r:?}"),
        Err(_) => panic!("poll_write did not return within 5s: busy loop inside a single poll"),
    }
}
