//! AsyncWriteStream::poll_flush / poll_close report success while accepted
//! bytes are still sitting in the adapter's buffer (and close drops them).
//!
//! Run: cargo test --offline -p compio-io --features compat --test hc12a_stale_flush

use std::{
    cell::RefCell,
    future::Future,
    io,
    pin::Pin,
    rc::Rc,
    task::{Context, Poll},
};

use compio_buf::{BufResult, IoBuf, IoBufExt};
use compio_io::{AsyncWrite, compat::AsyncWriteStream};
use futures_executor::block_on;
use futures_util::AsyncWriteExt;

#[derive(Default)]
struct Log {
    received: Vec<u8>,
    flushes: usize,
    shutdown: bool,
}

/// An inner stream whose `write` completes immediately and whose `flush` needs
/// one extra poll (like a TLS stream or any stream whose flush does IO).
struct SlowFlush(Rc<RefCell<Log>>);

struct YieldOnce(bool);
impl Future for YieldOnce {
    type Output = ();

    fn poll(mut self: Pin<&mut Self>, cx: &mut Context<'_>) -> Poll<()> {
        if self.0 {
            Poll::Ready(())
        } else {
            self.0 = true;
            cx.waker().wake_by_ref();
            Poll::Pending
        }
    }
}

impl AsyncWrite for SlowFlush {
    async fn write<T: IoBuf>(&mut self, buf: T) -> BufResult<usize, T> {
        self.0.borrow_mut().received.extend_from_slice(buf.as_init());
        BufResult(Ok(buf.buf_len()), buf)
    }

    async fn flush(&mut self) -> io::Result<()> {
        YieldOnce(false).await;
        self.0.borrow_mut().flushes += 1;
        Ok(())
    }

    async fn shutdown(&mut self) -> io::Result<()> {
        self.0.borrow_mut().shutdown = true;
        Ok(())
    }
}

#[test]
fn flush_ok_means_everything_accepted_was_sent() {
    let log = Rc::new(RefCell::new(Log::default()));
    let stream = AsyncWriteStream::with_capacity(8, SlowFlush(log.clone()));
    let mut stream = std::pin::pin!(stream);
    block_on(async {
        // fills the 8-byte buffer -> the next write has to flush first
        stream.write_all(b"AAAAAAAA").await.unwrap();
        // 1st poll: WouldBlock -> flush future started, parks in inner.flush()
        // 2nd poll: buffer is back, "BBBB" accepted, flush future left pending
        stream.write_all(b"BBBB").await.unwrap();
        // polls the *old* flush future, which completes -> Ok(())
        stream.flush().await.unwrap();
    });
    assert_eq!(
        String::from_utf8_lossy(&log.borrow().received),
        "AAAAAAAABBBB",
        "flush() returned Ok(()) but accepted bytes were not sent to the inner stream"
    );
}

#[test]
fn close_ok_means_everything_accepted_was_sent() {
    let log = Rc::new(RefCell::new(Log::default()));
    let stream = AsyncWriteStream::with_capacity(8, SlowFlush(log.clone()));
    let mut stream = std::pin::pin!(stream);
    block_on(async {
        stream.write_all(b"AAAAAAAA").await.unwrap();
        stream.write_all(b"BBBB").await.unwrap();
        stream.close().await.unwrap();
    });
    assert!(log.borrow().shutdown);
    assert_eq!(
        String::from_utf8_lossy(&log.borrow().received),
        "AAAAAAAABBBB",
        "close() returned Ok(()) and shut the stream down, but accepted bytes were dropped"
    );
}
