//! Side finding (not one of the compat adapters, but built on the same
//! buffer.rs `Buffer::flush_to`): `BufWriter::flush` empties its own buffer
//! into the inner writer but never calls the inner writer's `flush`, so with
//! any inner writer that buffers itself (another BufWriter, a TLS stream, ...)
//! `flush().await` returns Ok(()) while the bytes have not reached the
//! underlying stream. (std's BufWriter::flush does call `inner.flush()`.)
//!
//! Run: cargo test --offline -p compio-io --test hc12a_bufwriter_flush

use compio_io::{AsyncWrite, AsyncWriteExt, BufWriter};
use futures_executor::block_on;

#[test]
fn flush_propagates_to_inner_writer() {
    let mut w = BufWriter::new(BufWriter::new(Vec::<u8>::new()));
    block_on(async {
        w.write_all(b"hello").await.unwrap();
        w.flush().await.unwrap();
    });
    let sink: Vec<u8> = {
        use compio_buf::IntoInner;
        w.into_inner().into_inner()
    };
    assert_eq!(sink, b"hello", "flush() returned Ok(()) but the data is still buffered in the inner writer");
}
