//! AsyncBufRead::consume(0) panics while a fill is in flight (the buffer is
//! lent to the inner read). `consume(0)` is always within the contract of
//! AsyncBufRead.
//!
//! Run: cargo test --offline -p compio-io --features compat --test hc12a_consume_pending

use std::task::{Context, Poll, Waker};

use compio_buf::{BufResult, IoBufMut};
use compio_io::{AsyncRead, compat::AsyncReadStream};
use futures_util::AsyncBufRead;

struct NeverReady;
impl AsyncRead for NeverReady {
    async fn read<B: IoBufMut>(&mut self, buf: B) -> BufResult<usize, B> {
        std::future::pending::<()>().await;
        BufResult(Ok(0), buf)
    }
}

#[test]
fn consume_zero_while_fill_is_pending() {
    let stream = AsyncReadStream::new(NeverReady);
    let mut stream = std::pin::pin!(stream);
    let mut cx = Context::from_waker(Waker::noop());
    assert!(matches!(stream.as_mut().poll_fill_buf(&mut cx), Poll::Pending));
    // nothing was handed out, so consuming nothing must be a no-op
    stream.as_mut().consume(0);
}
