//! SyncStream::fill_read_buf lets the read buffer grow beyond
//! `max_buffer_size` (the limit is only checked *before* a read, and the read
//! is given `base_capacity` or more bytes of room regardless of the limit).
//!
//! Run: cargo test --offline -p compio-io --features compat --test hc12a_read_limit

use std::io::BufRead;

use compio_io::{compat::SyncStream, repeat};
use futures_executor::block_on;

#[test]
fn read_buffer_never_exceeds_max_buffer_size() {
    const BASE: usize = 8;
    const MAX: usize = 10;
    // `repeat` fills whatever room it is offered
    let mut s = SyncStream::with_limits(BASE, MAX, repeat(0x55));

    let mut fills = 0;
    loop {
        match block_on(s.fill_read_buf()) {
            Ok(n) => {
                fills += 1;
                let buffered = s.fill_buf().unwrap().len();
                println!("fill #{fills}: read {n}, buffered {buffered} (limit {MAX})");
                assert!(
                    buffered <= MAX,
                    "read buffer holds {buffered} bytes although max_buffer_size is {MAX}"
                );
            }
            Err(e) => {
                // the limit being reported is fine
                println!("fill reported: {e}");
                break;
            }
        }
    }
}

#[test]
fn first_fill_respects_limit_smaller_than_base() {
    // base capacity larger than the limit: the very first fill overshoots
    let mut s = SyncStream::with_limits(64, 16, repeat(0x55));
    block_on(s.fill_read_buf()).unwrap();
    let buffered = s.fill_buf().unwrap().len();
    assert!(buffered <= 16, "read buffer holds {buffered} bytes although max_buffer_size is 16");
}
