//! Passes natively; meant to be run under Miri:
//!
//!   MIRIFLAGS=-Zmiri-tree-borrows cargo +nightly miri test --offline -p compio-io \
//!       --features compat --test hc12a_miri_alias
//!
//! AsyncReadStream/AsyncWriteStream keep a boxed future that owns a
//! lifetime-extended `&'static mut SyncStream*Half` (async_stream.rs,
//! `extend_lifetime_mut`) and at the same time keep using the very same half
//! through `this.inner.get_mut()` on every poll. The second poll re-borrows the
//! half mutably while the suspended future still holds (and later uses) its own
//! `&mut` to it.

use std::{
    future::Future,
    pin::Pin,
    task::{Context, Poll, Waker},
};

use compio_buf::{BufResult, IoBufMut, SetLenExt};
use compio_io::{AsyncRead, compat::AsyncReadStream};
use futures_util::AsyncRead as _;

struct YieldOnce(bool);
impl Future for YieldOnce {
    type Output = ();

    fn poll(mut self: Pin<&mut Self>, _cx: &mut Context<'_>) -> Poll<()> {
        if self.0 {
            Poll::Ready(())
        } else {
            self.0 = true;
            Poll::Pending
        }
    }
}

struct OnePending;
impl AsyncRead for OnePending {
    async fn read<B: IoBufMut>(&mut self, mut buf: B) -> BufResult<usize, B> {
        YieldOnce(false).await;
        buf.as_uninit()[0].write(7);
        unsafe { buf.advance_to(1) };
        BufResult(Ok(1), buf)
    }
}

#[test]
fn poll_read_twice() {
    let stream = AsyncReadStream::with_capacity(4, OnePending);
    let mut stream = std::pin::pin!(stream);
    let mut cx = Context::from_waker(Waker::noop());
    let mut b = [0u8; 4];
    assert!(stream.as_mut().poll_read(&mut cx, &mut b).is_pending());
    match stream.as_mut().poll_read(&mut cx, &mut b) {
        Poll::Ready(Ok(1)) => assert_eq!(b[0], 7),
        other => panic!("{other:?}"),
    }
}
