//! Dropping (cancelling) the future returned by SyncStream::flush_write_buf /
//! fill_read_buf while the inner operation is pending loses the internal
//! buffer for good: the accepted-but-unsent bytes are gone, every later
//! `write` reports WouldBlock forever, and the documented recovery
//! (`flush_write_buf` / `fill_read_buf`) panics.
//!
//! Run: cargo test --offline -p compio-io --features compat --test hc12a_cancel

use std::{
    cell::RefCell,
    future::Future,
    io::{self, Read, Write},
    rc::Rc,
    task::{Context, Poll, Waker},
};

use compio_buf::{BufResult, IoBuf, IoBufExt, IoBufMut};
use compio_io::{AsyncRead, AsyncWrite, compat::SyncStream};
use futures_executor::block_on;

/// Inner stream: the first `write`/`read` call never completes (the peer is
/// slow), later calls complete immediately.
struct Slow {
    stall_next: bool,
    received: Rc<RefCell<Vec<u8>>>,
}

impl AsyncWrite for Slow {
    async fn write<T: IoBuf>(&mut self, buf: T) -> BufResult<usize, T> {
        if std::mem::take(&mut self.stall_next) {
            std::future::pending::<()>().await;
        }
        self.received.borrow_mut().extend_from_slice(buf.as_init());
        BufResult(Ok(buf.buf_len()), buf)
    }

    async fn flush(&mut self) -> io::Result<()> {
        Ok(())
    }

    async fn shutdown(&mut self) -> io::Result<()> {
        Ok(())
    }
}

impl AsyncRead for Slow {
    async fn read<B: IoBufMut>(&mut self, mut buf: B) -> BufResult<usize, B> {
        if std::mem::take(&mut self.stall_next) {
            std::future::pending::<()>().await;
        }
        buf.as_uninit()[0].write(b'x');
        unsafe { compio_buf::SetLenExt::advance_to(&mut buf, 1) };
        BufResult(Ok(1), buf)
    }
}

fn poll_once_then_drop<F: Future>(f: F) {
    let mut f = std::pin::pin!(f);
    let mut cx = Context::from_waker(Waker::noop());
    assert!(matches!(f.as_mut().poll(&mut cx), Poll::Pending));
    // dropped here == cancelled (what `select!`/`timeout` do)
}

#[test]
fn cancelled_flush_keeps_unsent_bytes() {
    let received = Rc::new(RefCell::new(Vec::new()));
    let mut s = SyncStream::new(Slow {
        stall_next: true,
        received: received.clone(),
    });
    assert_eq!(s.write(b"hello").unwrap(), 5);
    poll_once_then_drop(s.flush_write_buf());

    // retry: the unsent bytes must still be delivered
    block_on(s.flush_write_buf()).expect("retry after a cancelled flush");
    assert_eq!(&*received.borrow(), b"hello");
}

#[test]
fn cancelled_fill_keeps_stream_usable() {
    let mut s = SyncStream::new(Slow {
        stall_next: true,
        received: Default::default(),
    });
    poll_once_then_drop(s.fill_read_buf());

    block_on(s.fill_read_buf()).expect("retry after a cancelled fill");
    let mut b = [0u8; 4];
    assert_eq!(s.read(&mut b).unwrap(), 1);
}
