//! Model-based random exploration of the compat adapters (SyncStream and
//! AsyncStream) against a scripted in-memory inner stream.
//!
//! Run: cargo test --offline -p compio-io --features compat --test hc12a_fuzz

use std::{
    cell::RefCell,
    future::Future,
    io::{self, BufRead, Read, Write},
    pin::Pin,
    rc::Rc,
    sync::{
        Arc,
        atomic::{AtomicUsize, Ordering},
    },
    task::{Context, Poll, Wake, Waker},
};

use compio_buf::{BufResult, IoBuf, IoBufMut, SetLenExt};
use compio_io::{
    AsyncRead, AsyncWrite,
    compat::{AsyncReadStream, AsyncWriteStream, SyncStream},
};

// ---------------------------------------------------------------- rng

struct Rng(u64);
impl Rng {
    fn next(&mut self) -> u64 {
        self.0 ^= self.0 << 13;
        self.0 ^= self.0 >> 7;
        self.0 ^= self.0 << 17;
        self.0
    }

    fn below(&mut self, n: usize) -> usize {
        (self.next() % n as u64) as usize
    }

    fn chance(&mut self, pct: usize) -> bool {
        self.below(100) < pct
    }
}

// ---------------------------------------------------------------- inner stream

#[derive(Default)]
struct Shared {
    // read side
    src: Vec<u8>,
    pos: usize,
    eof_delivered: bool,
    max_offer: usize,
    // write side
    received: Vec<u8>,
    flushes: usize,
    // schedule
    rng_seed: u64,
    pend_pct: usize,
    err_pct: usize,
    zero_pct: usize,
    flush_pend: bool,
    // a parked waker when `park` is set (otherwise pending self-wakes)
    park: bool,
    parked: Option<Waker>,
    pending_left: usize,
}

#[derive(Clone)]
struct Inner(Rc<RefCell<Shared>>);

struct YieldOnce(bool, Inner);
impl Future for YieldOnce {
    type Output = ();

    fn poll(mut self: Pin<&mut Self>, cx: &mut Context<'_>) -> Poll<()> {
        if self.0 {
            // when parking, stay pending until the test clears `pending_left`
            let mut s = self.1.0.borrow_mut();
            if s.park && s.pending_left > 0 {
                s.parked = Some(cx.waker().clone());
                return Poll::Pending;
            }
            Poll::Ready(())
        } else {
            self.0 = true;
            let mut s = self.1.0.borrow_mut();
            if s.park {
                s.pending_left = 1;
                s.parked = Some(cx.waker().clone());
            } else {
                cx.waker().wake_by_ref();
            }
            Poll::Pending
        }
    }
}

impl Inner {
    fn rng(&self) -> Rng {
        let mut s = self.0.borrow_mut();
        let mut r = Rng(s.rng_seed | 1);
        r.next();
        s.rng_seed = r.0;
        r
    }
}

impl AsyncRead for Inner {
    async fn read<B: IoBufMut>(&mut self, mut buf: B) -> BufResult<usize, B> {
        let mut rng = self.rng();
        let (pend, err) = {
            let s = self.0.borrow();
            (s.pend_pct, s.err_pct)
        };
        if rng.chance(pend) {
            YieldOnce(false, self.clone()).await;
        }
        if rng.chance(err) {
            return BufResult(Err(io::Error::other("transient read error")), buf);
        }
        let mut s = self.0.borrow_mut();
        let cap = buf.as_uninit().len();
        s.max_offer = s.max_offer.max(cap);
        let remaining = s.src.len() - s.pos;
        if remaining == 0 {
            s.eof_delivered = true;
            return BufResult(Ok(0), buf);
        }
        if cap == 0 {
            return BufResult(Ok(0), buf);
        }
        let n = if rng.chance(50) {
            cap.min(remaining)
        } else {
            (1 + rng.below(cap)).min(remaining)
        };
        let pos = s.pos;
        for (d, b) in buf.as_uninit()[..n].iter_mut().zip(&s.src[pos..pos + n]) {
            d.write(*b);
        }
        unsafe { buf.advance_to(n) };
        s.pos += n;
        BufResult(Ok(n), buf)
    }
}

impl AsyncWrite for Inner {
    async fn write<T: IoBuf>(&mut self, buf: T) -> BufResult<usize, T> {
        let mut rng = self.rng();
        let (pend, err, zero) = {
            let s = self.0.borrow();
            (s.pend_pct, s.err_pct, s.zero_pct)
        };
        if rng.chance(pend) {
            YieldOnce(false, self.clone()).await;
        }
        if rng.chance(err) {
            return BufResult(Err(io::Error::other("transient write error")), buf);
        }
        if rng.chance(zero) {
            return BufResult(Ok(0), buf);
        }
        let data = buf.as_init();
        if data.is_empty() {
            return BufResult(Ok(0), buf);
        }
        let n = if rng.chance(50) {
            data.len()
        } else {
            1 + rng.below(data.len())
        };
        self.0.borrow_mut().received.extend_from_slice(&data[..n]);
        BufResult(Ok(n), buf)
    }

    async fn flush(&mut self) -> io::Result<()> {
        let mut rng = self.rng();
        let (pend, err) = {
            let s = self.0.borrow();
            (if s.flush_pend { s.pend_pct } else { 0 }, s.err_pct)
        };
        if rng.chance(pend) {
            YieldOnce(false, self.clone()).await;
        }
        if rng.chance(err) {
            return Err(io::Error::other("transient flush error"));
        }
        self.0.borrow_mut().flushes += 1;
        Ok(())
    }

    async fn shutdown(&mut self) -> io::Result<()> {
        Ok(())
    }
}

// ---------------------------------------------------------------- executor bits

struct CountWaker(AtomicUsize);
impl Wake for CountWaker {
    fn wake(self: Arc<Self>) {
        self.0.fetch_add(1, Ordering::SeqCst);
    }

    fn wake_by_ref(self: &Arc<Self>) {
        self.0.fetch_add(1, Ordering::SeqCst);
    }
}

fn block_on_counted<F: Future>(f: F) -> F::Output {
    let cw = Arc::new(CountWaker(AtomicUsize::new(0)));
    let waker = Waker::from(cw.clone());
    let mut cx = Context::from_waker(&waker);
    let mut f = std::pin::pin!(f);
    let mut polls = 0;
    loop {
        let before = cw.0.load(Ordering::SeqCst);
        if let Poll::Ready(r) = f.as_mut().poll(&mut cx) {
            return r;
        }
        polls += 1;
        assert!(polls < 100_000, "livelock");
        assert!(
            cw.0.load(Ordering::SeqCst) > before,
            "future returned Pending without a wake-up being arranged"
        );
    }
}

fn is_prefix(a: &[u8], b: &[u8]) -> bool {
    a.len() <= b.len() && &b[..a.len()] == a
}

// ---------------------------------------------------------------- SyncStream

fn sync_round(seed: u64, check_limit: bool) {
    let mut rng = Rng(seed.wrapping_mul(0x9E3779B97F4A7C15) | 1);
    let base = [1usize, 2, 3, 5, 8, 16, 64][rng.below(7)];
    let mut max = [1usize, 2, 4, 7, 8, 13, 32, 100, 1000][rng.below(9)];
    if check_limit && max < base {
        // only sane configurations when checking the limit
        max = base + rng.below(5);
    }
    let src_len = rng.below(300);
    let src: Vec<u8> = (0..src_len).map(|i| (i * 7 + 3) as u8).collect();
    let shared = Rc::new(RefCell::new(Shared {
        src: src.clone(),
        rng_seed: seed ^ 0xabcdef,
        pend_pct: [0, 20, 50][rng.below(3)],
        err_pct: [0, 10, 30][rng.below(3)],
        zero_pct: [0, 0, 5][rng.below(3)],
        ..Default::default()
    }));
    let ctx = format!("seed={seed} base={base} max={max} src_len={src_len}");
    let mut s = SyncStream::with_limits(base, max, Inner(shared.clone()));

    let mut out: Vec<u8> = Vec::new();
    let mut accepted: Vec<u8> = Vec::new();
    let mut next_byte = 0u8;
    let mut saw_eof = false;

    for step in 0..400 {
        match rng.below(8) {
            0 | 1 => {
                let k = rng.below(20);
                let mut buf = vec![0u8; k];
                match Read::read(&mut s, &mut buf) {
                    Ok(n) => {
                        assert!(n <= k);
                        out.extend_from_slice(&buf[..n]);
                        if n == 0 && k > 0 {
                            assert!(
                                shared.borrow().eof_delivered,
                                "{ctx} step={step}: Ok(0) without inner EOF"
                            );
                            saw_eof = true;
                        }
                    }
                    Err(e) => {
                        assert_eq!(e.kind(), io::ErrorKind::WouldBlock, "{ctx}");
                        if rng.chance(80) {
                            let _ = block_on_counted(s.fill_read_buf());
                        }
                    }
                }
            }
            2 => match BufRead::fill_buf(&mut s) {
                Ok(b) => {
                    if check_limit {
                        assert!(b.len() <= max, "{ctx}: read buffer {} > max {max}", b.len());
                    }
                    let j = rng.below(b.len() + 1);
                    out.extend_from_slice(&b[..j]);
                    BufRead::consume(&mut s, j);
                }
                Err(e) => assert_eq!(e.kind(), io::ErrorKind::WouldBlock, "{ctx}"),
            },
            3 => {
                // unsolicited fill (buffer may be non-empty)
                match block_on_counted(s.fill_read_buf()) {
                    Ok(_) => {}
                    Err(_) => {}
                }
            }
            4 | 5 => {
                let k = rng.below(24);
                let data: Vec<u8> = (0..k)
                    .map(|_| {
                        next_byte = next_byte.wrapping_add(1);
                        next_byte
                    })
                    .collect();
                match Write::write(&mut s, &data) {
                    Ok(n) => {
                        assert!(n <= k);
                        assert!(n > 0 || k == 0, "{ctx}: write returned Ok(0)");
                        accepted.extend_from_slice(&data[..n]);
                        // un-accepted bytes must be re-generated in order
                        next_byte = next_byte.wrapping_sub((k - n) as u8);
                    }
                    Err(e) => {
                        assert_eq!(e.kind(), io::ErrorKind::WouldBlock, "{ctx}");
                        next_byte = next_byte.wrapping_sub(k as u8);
                    }
                }
                let pending = accepted.len() - shared.borrow().received.len();
                assert!(pending <= max, "{ctx}: write buffer {pending} > max {max}");
            }
            6 => {
                let r = block_on_counted(s.flush_write_buf());
                let sh = shared.borrow();
                assert!(
                    is_prefix(&sh.received, &accepted),
                    "{ctx} step={step}: inner received bytes are not a prefix of accepted bytes"
                );
                if r.is_ok() {
                    assert_eq!(sh.received, accepted, "{ctx} step={step}: flush Ok but bytes missing");
                    assert!(!s.has_pending_write(), "{ctx}");
                }
            }
            _ => {
                let mut buf = [std::mem::MaybeUninit::<u8>::uninit(); 9];
                let k = rng.below(10);
                match s.read_buf_uninit(&mut buf[..k]) {
                    Ok(n) => {
                        for b in &buf[..n] {
                            out.push(unsafe { b.assume_init() });
                        }
                        if n == 0 && k > 0 {
                            assert!(shared.borrow().eof_delivered, "{ctx}: Ok(0) w/o EOF");
                        }
                    }
                    Err(e) => assert_eq!(e.kind(), io::ErrorKind::WouldBlock, "{ctx}"),
                }
            }
        }
        assert!(is_prefix(&out, &src), "{ctx} step={step}: read side corrupted");
        assert!(
            is_prefix(&shared.borrow().received, &accepted),
            "{ctx} step={step}: write side corrupted"
        );
    }
    // drain read side
    shared.borrow_mut().err_pct = 0;
    let mut guard = 0;
    loop {
        guard += 1;
        assert!(guard < 10_000, "{ctx}: drain livelock");
        let mut buf = [0u8; 7];
        match Read::read(&mut s, &mut buf) {
            Ok(0) => break,
            Ok(n) => out.extend_from_slice(&buf[..n]),
            Err(_) => {
                block_on_counted(s.fill_read_buf()).unwrap_or_else(|e| panic!("{ctx}: {e}"));
            }
        }
    }
    let _ = saw_eof;
    assert_eq!(out, src, "{ctx}: read side lost or duplicated bytes");
    // drain write side
    shared.borrow_mut().zero_pct = 0;
    block_on_counted(s.flush_write_buf()).unwrap();
    assert_eq!(shared.borrow().received, accepted, "{ctx}: write side lost bytes");
}

#[test]
fn sync_stream_model_no_limit_check() {
    for seed in 1..3000 {
        sync_round(seed, false);
    }
}

#[test]
fn sync_stream_model_with_limit_check() {
    for seed in 1..3000 {
        sync_round(seed, true);
    }
}

// ---------------------------------------------------------------- AsyncStream

struct Flag(AtomicUsize);
impl Wake for Flag {
    fn wake(self: Arc<Self>) {
        self.0.fetch_add(1, Ordering::SeqCst);
    }

    fn wake_by_ref(self: &Arc<Self>) {
        self.0.fetch_add(1, Ordering::SeqCst);
    }
}

fn async_read_round(seed: u64) {
    use futures_util::{AsyncBufRead as FBufRead, AsyncRead as FRead};
    let mut rng = Rng(seed.wrapping_mul(0x9E3779B97F4A7C15) | 1);
    let base = [1usize, 2, 3, 5, 8, 16, 64][rng.below(7)];
    let src_len = rng.below(300);
    let src: Vec<u8> = (0..src_len).map(|i| (i * 5 + 1) as u8).collect();
    let shared = Rc::new(RefCell::new(Shared {
        src: src.clone(),
        rng_seed: seed ^ 0x1234567,
        pend_pct: [0, 30, 60][rng.below(3)],
        err_pct: [0, 10, 30][rng.below(3)],
        park: true,
        ..Default::default()
    }));
    let ctx = format!("async-read seed={seed} base={base} src_len={src_len}");
    let stream = AsyncReadStream::with_capacity(base, Inner(shared.clone()));
    let mut stream = std::pin::pin!(stream);

    // three tasks, one per entry point
    let flags: [Arc<Flag>; 3] = std::array::from_fn(|_| Arc::new(Flag(AtomicUsize::new(0))));
    let wakers: [Waker; 3] = std::array::from_fn(|i| Waker::from(flags[i].clone()));
    let mut waiting = [false; 3];
    let mut out = Vec::new();
    let mut eof = false;
    let mut steps = 0;
    while !eof {
        steps += 1;
        assert!(steps < 100_000, "{ctx}: livelock");
        let who = rng.below(3);
        let mut cx = Context::from_waker(&wakers[who]);
        let before: [usize; 3] = std::array::from_fn(|i| flags[i].0.load(Ordering::SeqCst));
        let k = 1 + rng.below(12);
        let res: Poll<io::Result<Vec<u8>>> = match who {
            0 => {
                let mut buf = vec![0u8; k];
                FRead::poll_read(stream.as_mut(), &mut cx, &mut buf).map(|r| {
                    r.map(|n| {
                        buf.truncate(n);
                        buf
                    })
                })
            }
            1 => {
                let mut buf = vec![std::mem::MaybeUninit::<u8>::uninit(); k];
                stream.as_mut().poll_read_uninit(&mut cx, &mut buf).map(|r| {
                    r.map(|n| buf[..n].iter().map(|b| unsafe { b.assume_init() }).collect())
                })
            }
            _ => match FBufRead::poll_fill_buf(stream.as_mut(), &mut cx) {
                Poll::Ready(Ok(b)) => {
                    let j = if b.is_empty() { 0 } else { 1 + rng.below(b.len()) };
                    let v = b[..j].to_vec();
                    FBufRead::consume(stream.as_mut(), j);
                    Poll::Ready(Ok(v))
                }
                Poll::Ready(Err(e)) => Poll::Ready(Err(e)),
                Poll::Pending => Poll::Pending,
            },
        };
        match res {
            Poll::Ready(Ok(v)) => {
                waiting[who] = false;
                if v.is_empty() {
                    assert!(shared.borrow().eof_delivered, "{ctx}: EOF reported w/o inner EOF");
                    eof = true;
                }
                out.extend_from_slice(&v);
            }
            Poll::Ready(Err(_)) => {
                waiting[who] = false;
            }
            Poll::Pending => {
                waiting[who] = true;
                // Pending must mean the inner parked a waker
                assert!(shared.borrow().parked.is_some(), "{ctx}: Pending without parked waker");
                if rng.chance(50) {
                    // fire the inner waker: all waiting tasks must be woken
                    let w = {
                        let mut s = shared.borrow_mut();
                        s.pending_left = 0;
                        s.parked.take().unwrap()
                    };
                    w.wake();
                    for i in 0..3 {
                        if waiting[i] {
                            assert!(
                                flags[i].0.load(Ordering::SeqCst) > before[i],
                                "{ctx}: task {i} is waiting but was not woken"
                            );
                        }
                    }
                }
            }
        }
        assert!(is_prefix(&out, &src), "{ctx}: corrupted");
    }
    assert_eq!(out, src, "{ctx}: lost/dup bytes");
}

#[test]
fn async_read_stream_model() {
    for seed in 1..3000 {
        async_read_round(seed);
    }
}

fn async_write_round(seed: u64, flush_pend: bool) {
    use futures_util::AsyncWrite as FWrite;
    let mut rng = Rng(seed.wrapping_mul(0x9E3779B97F4A7C15) | 1);
    let base = [1usize, 2, 3, 5, 8, 16, 64][rng.below(7)];
    let shared = Rc::new(RefCell::new(Shared {
        rng_seed: seed ^ 0x7654321,
        pend_pct: [0, 30, 60][rng.below(3)],
        err_pct: [0, 10, 30][rng.below(3)],
        zero_pct: [0, 0, 5][rng.below(3)],
        flush_pend,
        park: true,
        ..Default::default()
    }));
    let ctx = format!("async-write seed={seed} base={base}");
    let stream = AsyncWriteStream::with_capacity(base, Inner(shared.clone()));
    let mut stream = std::pin::pin!(stream);
    let flags: [Arc<Flag>; 3] = std::array::from_fn(|_| Arc::new(Flag(AtomicUsize::new(0))));
    let wakers: [Waker; 3] = std::array::from_fn(|i| Waker::from(flags[i].clone()));
    let mut waiting = [false; 3];
    let mut accepted: Vec<u8> = Vec::new();
    let mut next_byte = 0u8;
    for _ in 0..300 {
        let who = if rng.chance(5) { 2 } else { rng.below(2) };
        let mut cx = Context::from_waker(&wakers[who]);
        let before: [usize; 3] = std::array::from_fn(|i| flags[i].0.load(Ordering::SeqCst));
        let res: Poll<io::Result<()>> = match who {
            0 => {
                let k = rng.below(24);
                let data: Vec<u8> = (0..k).map(|i| next_byte.wrapping_add(1 + i as u8)).collect();
                match FWrite::poll_write(stream.as_mut(), &mut cx, &data) {
                    Poll::Ready(Ok(n)) => {
                        assert!(n > 0 || k == 0, "{ctx}: Ok(0)");
                        accepted.extend_from_slice(&data[..n]);
                        next_byte = next_byte.wrapping_add(n as u8);
                        Poll::Ready(Ok(()))
                    }
                    Poll::Ready(Err(e)) => Poll::Ready(Err(e)),
                    Poll::Pending => Poll::Pending,
                }
            }
            1 => {
                let r = FWrite::poll_flush(stream.as_mut(), &mut cx);
                if let Poll::Ready(Ok(())) = r {
                    if !flush_pend {
                        assert_eq!(shared.borrow().received, accepted, "{ctx}: flush Ok, bytes missing");
                    }
                }
                r
            }
            _ => {
                let r = FWrite::poll_close(stream.as_mut(), &mut cx);
                if let Poll::Ready(Ok(())) = r {
                    if !flush_pend {
                        assert_eq!(shared.borrow().received, accepted, "{ctx}: close Ok, bytes missing");
                    }
                }
                r
            }
        };
        match res {
            Poll::Ready(_) => waiting[who] = false,
            Poll::Pending => {
                waiting[who] = true;
                assert!(shared.borrow().parked.is_some(), "{ctx}: Pending without parked waker");
                if rng.chance(50) {
                    let w = {
                        let mut s = shared.borrow_mut();
                        s.pending_left = 0;
                        s.parked.take().unwrap()
                    };
                    w.wake();
                    for i in 0..3 {
                        if waiting[i] {
                            assert!(
                                flags[i].0.load(Ordering::SeqCst) > before[i],
                                "{ctx}: task {i} is waiting but was not woken"
                            );
                        }
                    }
                }
            }
        }
        assert!(is_prefix(&shared.borrow().received, &accepted), "{ctx}: write side corrupted");
    }
    // drain
    {
        let mut s = shared.borrow_mut();
        s.err_pct = 0;
        s.zero_pct = 0;
        s.park = false;
        s.pending_left = 0;
    }
    // a flush future created before the schedule was calmed down may still fail once
    let mut tries = 0;
    while let Err(e) =
        block_on_counted(std::future::poll_fn(|cx| FWrite::poll_flush(stream.as_mut(), cx)))
    {
        tries += 1;
        assert!(tries < 3, "{ctx}: {e}");
    }
    if flush_pend {
        // known defect (stale flush future): flush once more
        block_on_counted(std::future::poll_fn(|cx| FWrite::poll_flush(stream.as_mut(), cx))).unwrap();
    }
    assert_eq!(shared.borrow().received, accepted, "{ctx}: lost bytes");
}

#[test]
fn async_write_stream_model_inner_flush_immediate() {
    for seed in 1..3000 {
        async_write_round(seed, false);
    }
}

#[test]
fn async_write_stream_model_inner_flush_may_pend() {
    for seed in 1..3000 {
        async_write_round(seed, true);
    }
}
