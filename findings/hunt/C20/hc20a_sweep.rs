//! HC20a: broad sweep over the property's quantifier (sizes, chunkings, exit
//! codes, signals, wait/drain orders, both drivers). Used for hunting; the
//! cases that pass are listed in report.md as "examined".

use std::{
    os::unix::process::ExitStatusExt,
    process::Stdio,
    sync::mpsc,
    time::{Duration, Instant},
};

use compio_buf::BufResult;
use compio_driver::{DriverType, ProactorBuilder};
use compio_io::{AsyncRead, AsyncReadExt, AsyncReadManaged, AsyncWrite, AsyncWriteExt};
use compio_process::Command;

fn on_runtime<T: Send + 'static>(
    driver: DriverType,
    secs: u64,
    f: impl FnOnce() -> std::pin::Pin<Box<dyn Future<Output = T>>> + Send + 'static,
) -> T {
    let (tx, rx) = mpsc::channel();
    std::thread::spawn(move || {
        let mut pb = ProactorBuilder::new();
        pb.driver_type(driver);
        let rt = compio_runtime::Runtime::builder()
            .with_proactor(pb)
            .build()
            .unwrap();
        let _ = tx.send(rt.block_on(f()));
    });
    rx.recv_timeout(Duration::from_secs(secs))
        .unwrap_or_else(|_| panic!("TIMEOUT on {driver:?}"))
}

const DRIVERS: [DriverType; 2] = [DriverType::IoUring, DriverType::Poll];

fn sh(script: &str) -> Command {
    let mut c = Command::new("sh");
    c.arg("-c").arg(script);
    c
}

fn pattern(n: usize) -> String {
    // what `yes 0123456 | head -c n` prints
    "0123456\n".repeat(n / 8 + 1)[..n].to_string()
}

#[test]
fn exit_codes_and_signals() {
    for d in DRIVERS {
        on_runtime(d, 60, move || {
            Box::pin(async move {
                for code in [0, 1, 2, 7, 126, 127, 128, 137, 255] {
                    let st = sh(&format!("exit {code}")).spawn().unwrap().wait().await.unwrap();
                    assert_eq!(st.code(), Some(code), "{d:?}");
                }
                for sig in [1, 2, 9, 15] {
                    let st = sh(&format!("kill -{sig} $$; sleep 5"))
                        .spawn()
                        .unwrap()
                        .wait()
                        .await
                        .unwrap();
                    assert_eq!(st.signal(), Some(sig), "{d:?}");
                    assert_eq!(st.code(), None);
                }
                // kill() then wait
                let mut c = Command::new("sleep").arg("30").spawn().unwrap();
                c.kill().unwrap();
                let st = c.wait().await.unwrap();
                assert_eq!(st.signal(), Some(9));
            })
        });
    }
}

#[test]
fn wait_not_before_exit() {
    for d in DRIVERS {
        on_runtime(d, 60, move || {
            Box::pin(async move {
                // the child closes its stdout early and exits later
                let t = Instant::now();
                let out = sh("echo hi; exec 1>&- 2>&-; sleep 1; exit 9")
                    .stdout(Stdio::piped())
                    .unwrap()
                    .stderr(Stdio::piped())
                    .unwrap()
                    .spawn()
                    .unwrap()
                    .wait_with_output()
                    .await
                    .unwrap();
                assert!(t.elapsed() >= Duration::from_millis(950), "{d:?} {:?}", t.elapsed());
                assert_eq!(out.status.code(), Some(9));
                assert_eq!(out.stdout, b"hi\n");

                // many concurrent waits with different delays and codes
                let mut hs = vec![];
                for i in 0..20u32 {
                    let child = sh(&format!("sleep 0.{:02}; exit {}", (i * 7) % 50, i + 1))
                        .spawn()
                        .unwrap();
                    let pid = child.id();
                    hs.push((i, pid, compio_runtime::spawn(child.wait())));
                }
                for (i, pid, h) in hs {
                    let st = h.await.unwrap().unwrap();
                    assert_eq!(st.code(), Some(i as i32 + 1), "{d:?}");
                    // reaped: the pid is gone (or reused, ignore)
                    let _ = pid;
                }
            })
        });
    }
}

#[test]
fn wait_with_output_large_both_streams() {
    for d in DRIVERS {
        for n in [0usize, 1, 4095, 4096, 65535, 65536, 65537, 1 << 20, 3_000_001] {
            on_runtime(d, 60, move || {
                Box::pin(async move {
                    let script = format!(
                        "(yes 0123456 | head -c {n}) & (yes 0123456 | head -c {n} >&2) & wait; exit 3"
                    );
                    let out = sh(&script)
                        .stdout(Stdio::piped())
                        .unwrap()
                        .stderr(Stdio::piped())
                        .unwrap()
                        .spawn()
                        .unwrap()
                        .wait_with_output()
                        .await
                        .unwrap();
                    assert_eq!(out.status.code(), Some(3));
                    assert_eq!(out.stdout.len(), n, "{d:?} stdout len");
                    assert_eq!(out.stderr.len(), n, "{d:?} stderr len");
                    assert!(out.stdout == pattern(n).as_bytes(), "{d:?} stdout content");
                    assert!(out.stderr == pattern(n).as_bytes(), "{d:?} stderr content");
                })
            });
        }
    }
}

#[test]
fn chunked_reads_in_order() {
    for d in DRIVERS {
        for chunk in [1usize, 7, 4096, 65536, 1 << 20] {
            on_runtime(d, 120, move || {
                Box::pin(async move {
                    let n = if chunk == 1 { 20_000 } else { 700_001 };
                    let mut child = sh(&format!("yes 0123456 | head -c {n}; exit 4"))
                        .stdout(Stdio::piped())
                        .unwrap()
                        .spawn()
                        .unwrap();
                    let mut stdout = child.stdout.take().unwrap();
                    // wait is started first, draining happens afterwards
                    let w = compio_runtime::spawn(child.wait());
                    let mut all = vec![];
                    loop {
                        let BufResult(res, buf) = stdout.read(Vec::with_capacity(chunk)).await;
                        let k = res.unwrap();
                        assert_eq!(k, buf.len());
                        if k == 0 {
                            break;
                        }
                        all.extend_from_slice(&buf);
                    }
                    assert!(all == pattern(n).as_bytes(), "{d:?} chunk {chunk}");
                    assert_eq!(w.await.unwrap().unwrap().code(), Some(4));
                })
            });
        }
    }
}

#[test]
fn read_into_nonempty_vec_and_read_exact() {
    for d in DRIVERS {
        on_runtime(d, 60, move || {
            Box::pin(async move {
                let mut child = sh("printf abcdefghij")
                    .stdout(Stdio::piped())
                    .unwrap()
                    .spawn()
                    .unwrap();
                let mut stdout = child.stdout.take().unwrap();
                let mut v = Vec::with_capacity(8);
                v.extend_from_slice(b"XY");
                // AsyncRead::read on Vec appends after the initialised part?
                let BufResult(res, v) = stdout.read(v).await;
                let k = res.unwrap();
                eprintln!("{d:?}: read -> {k}, vec = {:?}", String::from_utf8_lossy(&v));
                let BufResult(res, rest) = stdout.read_to_end(vec![]).await;
                res.unwrap();
                let mut got = v[v.len() - k..].to_vec();
                got.extend_from_slice(&rest);
                assert_eq!(got, b"abcdefghij");
                child.wait().await.unwrap();
            })
        });
    }
}

#[test]
fn managed_reads_in_order() {
    for d in DRIVERS {
        for len in [0usize, 1, 100, 4096, 1 << 20] {
            on_runtime(d, 120, move || {
                Box::pin(async move {
                    let n = if len == 1 { 5_000 } else { 300_001 };
                    let mut child = sh(&format!("yes 0123456 | head -c {n}; exit 4"))
                        .stdout(Stdio::piped())
                        .unwrap()
                        .stderr(Stdio::piped())
                        .unwrap()
                        .spawn()
                        .unwrap();
                    let mut stdout = child.stdout.take().unwrap();
                    let mut all = vec![];
                    loop {
                        match stdout.read_managed(len).await.unwrap() {
                            None => break,
                            Some(b) => {
                                if b.is_empty() {
                                    break;
                                }
                                if len != 0 {
                                    assert!(b.len() <= len, "{d:?} managed len {} > {len}", b.len());
                                }
                                all.extend_from_slice(&b);
                            }
                        }
                    }
                    assert_eq!(all.len(), n, "{d:?} managed len {len}");
                    assert!(all == pattern(n).as_bytes(), "{d:?} managed len {len}");
                    assert_eq!(child.wait().await.unwrap().code(), Some(4));
                })
            });
        }
    }
}

#[test]
fn stdin_large_one_direction() {
    for d in DRIVERS {
        for n in [0usize, 1, 65536, 65537, 1 << 20, 5_000_003] {
            on_runtime(d, 60, move || {
                Box::pin(async move {
                    // the child counts the bytes and reports through its exit code and stdout
                    let mut child = sh("wc -c")
                        .stdin(Stdio::piped())
                        .unwrap()
                        .stdout(Stdio::piped())
                        .unwrap()
                        .spawn()
                        .unwrap();
                    let mut stdin = child.stdin.take().unwrap();
                    let payload = vec![b'x'; n];
                    stdin.write_all(payload).await.0.unwrap();
                    stdin.flush().await.unwrap();
                    drop(stdin);
                    let out = child.wait_with_output().await.unwrap();
                    let s = String::from_utf8(out.stdout).unwrap();
                    assert_eq!(s.trim().parse::<usize>().unwrap(), n, "{d:?}");
                })
            });
        }
    }
}

#[test]
fn write_to_exited_child_reports_error() {
    for d in DRIVERS {
        on_runtime(d, 60, move || {
            Box::pin(async move {
                let mut child = sh("exit 0").stdin(Stdio::piped()).unwrap().spawn().unwrap();
                let mut stdin = child.stdin.take().unwrap();
                let st = child.wait().await.unwrap();
                assert!(st.success());
                let BufResult(res, _) = stdin.write_all(vec![1u8; 200_000]).await;
                assert!(res.is_err(), "{d:?}: write to a dead child succeeded: {res:?}");
            })
        });
    }
}
