//! HC20a demonstration 4: without the (nightly-only) `linux_pidfd` feature every
//! `Child::wait` parks one thread of the driver's blocking pool in `waitpid`
//! for the whole life of the child. When the pool limit is reached the next
//! `wait` does not queue: `Driver::push_blocking` busy-loops
//! (`while let Err(e) = pool.dispatch(..) { yield_now() }`) ON THE RUNTIME
//! THREAD until some other child exits. If those children can only exit once
//! the runtime makes progress (here: they wait for EOF on the stdin handle the
//! runtime holds), the whole runtime is dead-locked at 100 % CPU.
//!
//! `limit_2_three_children` uses `thread_pool_limit(2)`; `default_limit_257`
//! uses the default configuration (limit 256) and 257 children.
//!
//! Run with:
//!   cargo test --offline -p compio-process --features compio-driver/io-uring \
//!       --test hc20a_pool_exhaustion -- --test-threads=1

use std::{process::Stdio, sync::mpsc, time::Duration};

use compio_driver::ProactorBuilder;
use compio_process::Command;

fn kill(pid: u32) {
    let _ = std::process::Command::new("kill")
        .stderr(Stdio::null())
        .arg("-9")
        .arg(pid.to_string())
        .status();
}

fn run(limit: Option<usize>, children: usize) -> Result<usize, String> {
    let (pid_tx, pid_rx) = mpsc::channel();
    let (tx, rx) = mpsc::channel();
    std::thread::spawn(move || {
        let mut pb = ProactorBuilder::new();
        if let Some(limit) = limit {
            pb.thread_pool_limit(limit);
        }
        let rt = compio_runtime::Runtime::builder()
            .with_proactor(pb)
            .build()
            .unwrap();
        let n = rt.block_on(async move {
            let mut stdins = vec![];
            let mut waits = vec![];
            for _ in 0..children {
                let mut child = Command::new("cat")
                    .stdin(Stdio::piped())
                    .unwrap()
                    .stdout(Stdio::null())
                    .unwrap()
                    .spawn()
                    .unwrap();
                pid_tx.send(child.id()).unwrap();
                stdins.push(child.stdin.take().unwrap());
                waits.push(compio_runtime::spawn(child.wait()));
            }
            // Let all the wait tasks start (the main future of `block_on` is
            // re-polled after a bounded number of task ticks, so be generous).
            for _ in 0..5000 {
                yield_now().await;
            }
            // Now let every child see EOF and collect the statuses.
            eprintln!("main task: closing the stdin handles");
            drop(stdins);
            let mut ok = 0;
            for w in waits {
                if w.await.unwrap().unwrap().success() {
                    ok += 1;
                }
            }
            ok
        });
        let _ = tx.send(n);
    });
    match rx.recv_timeout(Duration::from_secs(15)) {
        Ok(v) => Ok(v),
        Err(_) => {
            eprintln!("TIMEOUT reached; the line 'main task: closing the stdin handles' has not been printed above: the runtime thread is spinning in push_blocking");
            while let Ok(pid) = pid_rx.try_recv() {
                kill(pid);
            }
            Err(format!(
                "TIMEOUT: waiting for {children} children with pool limit {limit:?} never finished"
            ))
        }
    }
}

async fn yield_now() {
    let mut yielded = false;
    std::future::poll_fn(|cx| {
        if yielded {
            std::task::Poll::Ready(())
        } else {
            yielded = true;
            cx.waker().wake_by_ref();
            std::task::Poll::Pending
        }
    })
    .await
}

#[test]
fn control_limit_2_two_children() {
    assert_eq!(run(Some(2), 2).unwrap(), 2);
}

#[test]
fn limit_2_three_children() {
    assert_eq!(run(Some(2), 3).unwrap(), 3);
}

#[test]
fn control_default_limit_256() {
    assert_eq!(run(None, 256).unwrap(), 256);
}

#[test]
fn default_limit_257() {
    assert_eq!(run(None, 257).unwrap(), 257);
}
