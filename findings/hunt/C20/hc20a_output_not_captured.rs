//! HC20a demonstration 2: `Command::output()` does not capture anything unless
//! the caller configured pipes himself.
//!
//! The docs say "waiting for it to finish and collecting all of its output"
//! and the crate-level example does `Command::new("sh").args(["-c", "echo
//! hello"]).output().await` followed by `let hello = output.stdout;`.
//! `std::process::Command::output` (and tokio's) default stdout/stderr to
//! pipes; compio calls plain `spawn()`, so the handles are inherited, the
//! child's output goes to the parent's terminal, and `Output` is empty.

use compio_process::Command;

#[test]
fn control_std_output_captures() {
    let out = std::process::Command::new("sh")
        .args(["-c", "echo hello; echo oops >&2"])
        .output()
        .unwrap();
    assert_eq!(out.stdout, b"hello\n");
    assert_eq!(out.stderr, b"oops\n");
}

#[compio_macros::test]
async fn output_captures_stdout_and_stderr() {
    let out = Command::new("sh")
        .args(["-c", "echo hello; echo oops >&2"])
        .output()
        .await
        .unwrap();
    assert!(out.status.success());
    assert_eq!(
        String::from_utf8_lossy(&out.stdout),
        "hello\n",
        "stdout of the child was not collected"
    );
    assert_eq!(
        String::from_utf8_lossy(&out.stderr),
        "oops\n",
        "stderr of the child was not collected"
    );
}
