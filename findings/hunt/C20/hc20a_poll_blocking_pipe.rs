//! HC20a demonstration 3: on the polling driver the child's stdio pipes are
//! left in blocking mode, so `ChildStdin::write` of a buffer larger than the
//! free pipe space blocks the *runtime thread* inside `write(2)` (a blocking
//! pipe write returns only after the whole buffer has been written). With both
//! directions active at once (`cat`: we write stdin and read stdout on the same
//! runtime) nothing drains the child's stdout any more -> deadlock.
//!
//! The io_uring driver passes the same scenario (control).
//!
//! Run with:
//!   cargo test --offline -p compio-process \
//!       --features compio-driver/io-uring,compio-driver/polling \
//!       --test hc20a_poll_blocking_pipe

use std::{process::Stdio, sync::mpsc, time::Duration};

use compio_driver::{DriverType, ProactorBuilder};
use compio_io::{AsyncReadExt, AsyncWriteExt};
use compio_process::Command;

fn kill(pid: u32) {
    let _ = std::process::Command::new("kill")
        .arg("-9")
        .arg(pid.to_string())
        .status();
}

/// Echo `size` bytes through `cat`, writing and reading concurrently.
fn echo_through_cat(driver: DriverType, size: usize) -> Result<Vec<u8>, String> {
    let (pid_tx, pid_rx) = mpsc::channel();
    let (tx, rx) = mpsc::channel();
    std::thread::spawn(move || {
        let mut pb = ProactorBuilder::new();
        pb.driver_type(driver);
        let rt = compio_runtime::Runtime::builder()
            .with_proactor(pb)
            .build()
            .unwrap();
        let out = rt.block_on(async move {
            assert_eq!(
                compio_runtime::Runtime::with_current(|r| r.driver_type()),
                driver
            );
            let mut child = Command::new("cat")
                .stdin(Stdio::piped())
                .unwrap()
                .stdout(Stdio::piped())
                .unwrap()
                .spawn()
                .unwrap();
            pid_tx.send(child.id()).unwrap();
            let mut stdin = child.stdin.take().unwrap();
            let mut stdout = child.stdout.take().unwrap();
            let payload: Vec<u8> = (0..size).map(|i| (i % 251) as u8).collect();
            let writer = compio_runtime::spawn(async move {
                stdin.write_all(payload).await.0.unwrap();
                drop(stdin); // EOF for cat
            });
            let reader = compio_runtime::spawn(async move {
                let BufResult(res, buf) = stdout.read_to_end(vec![]).await;
                res.unwrap();
                buf
            });
            writer.await.unwrap();
            let buf = reader.await.unwrap();
            assert!(child.wait().await.unwrap().success());
            buf
        });
        let _ = tx.send(out);
    });
    match rx.recv_timeout(Duration::from_secs(10)) {
        Ok(v) => Ok(v),
        Err(_) => {
            // Diagnostic: which syscall is every thread of this process in?
            // (x86_64: 1 = write, 232 = epoll_wait, 202 = futex)
            for t in std::fs::read_dir("/proc/self/task").unwrap().flatten() {
                let comm = std::fs::read_to_string(t.path().join("comm")).unwrap_or_default();
                let sc = std::fs::read_to_string(t.path().join("syscall")).unwrap_or_default();
                eprintln!(
                    "thread {:?} in syscall {}",
                    comm.trim(),
                    sc.split(' ').next().unwrap_or("?")
                );
            }
            if let Ok(pid) = pid_rx.try_recv() {
                kill(pid);
            }
            Err(format!(
                "TIMEOUT: echoing {size} bytes through `cat` on {driver:?} never finished"
            ))
        }
    }
}

use compio_buf::BufResult;

fn check(driver: DriverType, size: usize) {
    let out = echo_through_cat(driver, size).unwrap();
    assert_eq!(out.len(), size);
    assert!(out.iter().enumerate().all(|(i, b)| *b == (i % 251) as u8));
}

#[test]
fn control_iouring_small() {
    check(DriverType::IoUring, 1000);
}

#[test]
fn control_iouring_1mib() {
    check(DriverType::IoUring, 1 << 20);
}

#[test]
fn control_poll_small() {
    check(DriverType::Poll, 1000);
}

#[test]
fn poll_1mib_bidirectional() {
    check(DriverType::Poll, 1 << 20);
}
