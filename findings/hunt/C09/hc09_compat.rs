use std::time::{Duration, Instant};

use compio_compat::{RuntimeCompat, TokioAdapter};
use compio_runtime::{
    Runtime,
    time::{sleep, timeout},
};

#[tokio::test]
async fn sleeps_inside_execute() {
    let runtime = RuntimeCompat::<TokioAdapter>::new(Runtime::new().unwrap()).unwrap();
    eprintln!("{:?}", runtime.driver_type());
    runtime
        .execute(async {
            for us in [100u64, 1000, 1500, 10_000, 50_000] {
                let d = Duration::from_micros(us);
                let t0 = Instant::now();
                sleep(d).await;
                let el = t0.elapsed();
                eprintln!("sleep {d:?} took {el:?}");
                assert!(el >= d);
                assert!(el < d + Duration::from_millis(30));
            }
            // spawned task sleeping while main waits on a tokio timer
            let t0 = Instant::now();
            let h = compio_runtime::spawn(async move {
                sleep(Duration::from_millis(20)).await;
                t0.elapsed()
            });
            tokio::time::sleep(Duration::from_millis(200)).await;
            let el = h.await.unwrap();
            eprintln!("spawned sleep 20ms took {el:?}");
            assert!(el < Duration::from_millis(60), "spawned sleep late: {el:?}");
        })
        .await;
    assert_eq!(runtime.current_timeout(), None);
}

#[tokio::test]
async fn concurrent_executes() {
    let runtime = RuntimeCompat::<TokioAdapter>::new(Runtime::new().unwrap()).unwrap();
    let t0 = Instant::now();
    let a = runtime.execute(async {
        sleep(Duration::from_millis(300)).await;
        t0.elapsed()
    });
    let b = runtime.execute(async {
        for _ in 0..10 {
            sleep(Duration::from_millis(10)).await;
        }
        let r = timeout(Duration::from_millis(10), std::future::pending::<()>()).await;
        assert!(r.is_err());
        t0.elapsed()
    });
    let (a, b) = tokio::time::timeout(Duration::from_secs(5), async { tokio::join!(a, b) })
        .await
        .expect("hang");
    eprintln!("a={a:?} b={b:?}");
    assert!(a >= Duration::from_millis(300) && a < Duration::from_millis(360), "{a:?}");
    assert!(b >= Duration::from_millis(110) && b < Duration::from_millis(200), "{b:?}");
}

/// A compio task is spawned with a short timer while `execute` is parked on a
/// long timeout.
#[tokio::test]
async fn timer_created_while_parked() {
    let runtime = RuntimeCompat::<TokioAdapter>::new(Runtime::new().unwrap()).unwrap();
    let t0 = Instant::now();
    let a = runtime.execute(async {
        sleep(Duration::from_millis(500)).await;
    });
    let b = async {
        tokio::time::sleep(Duration::from_millis(50)).await;
        let t1 = Instant::now();
        let h = runtime.enter(|| {
            runtime.spawn(async move {
                sleep(Duration::from_millis(20)).await;
                t1.elapsed()
            })
        });
        let el = runtime.execute(h).await.unwrap();
        eprintln!("late-created 20ms sleep took {el:?}");
        el
    };
    let ((), el) = tokio::join!(a, b);
    let _ = t0;
    assert!(el < Duration::from_millis(80), "{el:?}");
}
