//! A waker that touches the timer API when it is woken / dropped makes the
//! runtime panic with `already borrowed`, because `TimerRuntime::wake`,
//! `update_waker` and `cancel` run foreign waker code (wake / clone / drop)
//! while the `RefCell<TimerRuntime>` is mutably borrowed.

use std::{
    cell::RefCell,
    future::Future,
    pin::Pin,
    sync::Arc,
    task::{Context, Poll, Wake, Waker},
    time::Duration,
};

use compio_runtime::{
    Runtime,
    time::{Sleep, sleep},
};

struct SendCell<T>(RefCell<T>);
// Only ever used on the runtime thread in this test.
unsafe impl<T> Send for SendCell<T> {}
unsafe impl<T> Sync for SendCell<T> {}

/// "first of two timers wins, the loser is disarmed at once" helper: when the
/// short timer fires, its waker drops the long (watchdog) timer right away and
/// forwards the wake-up to the task.
struct DisarmOnWake {
    watchdog: SendCell<Option<Pin<Box<Sleep>>>>,
    parent: Waker,
}

impl Wake for DisarmOnWake {
    fn wake(self: Arc<Self>) {
        // Dropping a `Sleep` calls `TimerRuntime::cancel`.
        self.watchdog.0.borrow_mut().take();
        self.parent.wake_by_ref();
    }
}

#[test]
fn waker_dropping_a_timer_on_wake() {
    let rt = Runtime::new().unwrap();
    rt.block_on(async {
        let mut short = Box::pin(sleep(Duration::from_millis(20)));
        let watchdog = Box::pin(sleep(Duration::from_secs(5)));
        let mut state = Some(watchdog);
        std::future::poll_fn(move |cx| {
            let waker = Waker::from(Arc::new(DisarmOnWake {
                watchdog: SendCell(RefCell::new(state.take())),
                parent: cx.waker().clone(),
            }));
            let mut cx2 = Context::from_waker(&waker);
            match short.as_mut().poll(&mut cx2) {
                Poll::Ready(()) => Poll::Ready(()),
                Poll::Pending => Poll::Pending,
            }
        })
        .await;
    });
}

/// A waker that re-arms a timer when woken (debounce style).
struct RearmOnWake {
    slot: SendCell<Option<Sleep>>,
    parent: Waker,
}

impl Wake for RearmOnWake {
    fn wake(self: Arc<Self>) {
        // Creating a `Sleep` calls `TimerRuntime::insert`.
        *self.slot.0.borrow_mut() = Some(sleep(Duration::from_millis(10)));
        self.parent.wake_by_ref();
    }
}

#[test]
fn waker_creating_a_timer_on_wake() {
    let rt = Runtime::new().unwrap();
    rt.block_on(async {
        let mut short = Box::pin(sleep(Duration::from_millis(20)));
        std::future::poll_fn(move |cx| {
            let waker = Waker::from(Arc::new(RearmOnWake {
                slot: SendCell(RefCell::new(None)),
                parent: cx.waker().clone(),
            }));
            let mut cx2 = Context::from_waker(&waker);
            short.as_mut().poll(&mut cx2)
        })
        .await;
    });
}
