//! A `Sleep`/`Timeout` is registered in the timer wheel of the runtime that
//! was current when it was *created*; only that runtime's `poll_with` ever
//! expires it. Awaited under another runtime of the same thread (nested
//! `block_on`, e.g. a sync wrapper that owns a private `Runtime`), the inner
//! runtime computes `current_timeout() == None`, parks forever in its driver
//! and the sleep never completes.

use std::{
    sync::mpsc,
    time::{Duration, Instant},
};

use compio_runtime::{Runtime, time::sleep};

#[test]
fn sleep_awaited_under_another_runtime() {
    let (tx, rx) = mpsc::channel();
    std::thread::spawn(move || {
        let outer = Runtime::new().unwrap();
        let inner = Runtime::new().unwrap();
        let t0 = Instant::now();
        outer.block_on(async {
            // created while `outer` is current
            let s = sleep(Duration::from_millis(50));
            // awaited while `inner` is current
            inner.block_on(s);
        });
        tx.send(t0.elapsed()).ok();
    });
    let el = rx
        .recv_timeout(Duration::from_secs(3))
        .expect("50ms sleep did not complete within 3s");
    assert!(el >= Duration::from_millis(50));
}
