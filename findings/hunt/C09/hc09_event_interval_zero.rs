//! `RuntimeBuilder::event_interval(0)` is accepted, but `Executor::tick` then
//! runs `iter_hot().take(0)`, i.e. no task at all, while still reporting
//! "there are hot tasks": `block_on` spins forever at 100% CPU on
//! `poll_with(Some(ZERO))` and no spawned task (and so no timer owned by a
//! spawned task) ever makes progress.

use std::{sync::mpsc, time::Duration};

use compio_runtime::{Runtime, time::sleep};

#[test]
fn event_interval_zero() {
    let (tx, rx) = mpsc::channel();
    std::thread::spawn(move || {
        let rt = Runtime::builder().event_interval(0).build().unwrap();
        rt.block_on(async {
            compio_runtime::spawn(async { sleep(Duration::from_millis(10)).await })
                .await
                .unwrap();
        });
        tx.send(()).ok();
    });
    rx.recv_timeout(Duration::from_secs(3))
        .expect("a spawned 10ms sleep did not complete within 3s");
}
