use std::{
    future::Future,
    cell::RefCell,
    rc::Rc,
    time::{Duration, Instant},
};

use compio_driver::{DriverType, ProactorBuilder};
use compio_runtime::{
    Runtime,
    time::{interval_at, sleep, sleep_until, timeout, timeout_at},
};

fn rt() -> Runtime {
    let mut b = Runtime::builder();
    if std::env::var("HC_POLL").is_ok() {
        let mut pb = ProactorBuilder::new();
        pb.driver_type(DriverType::Poll);
        b.with_proactor(pb);
    }
    let rt = b.build().unwrap();
    eprintln!("driver: {:?}", rt.driver_type());
    rt
}

struct Rng(u64);
impl Rng {
    fn next(&mut self) -> u64 {
        self.0 ^= self.0 << 13;
        self.0 ^= self.0 >> 7;
        self.0 ^= self.0 << 17;
        self.0
    }
}

#[test]
fn random_timers() {
    let rt = rt();
    for seed in 1..20u64 {
        let mut rng = Rng(seed.wrapping_mul(0x9E3779B97F4A7C15));
        let results: Rc<RefCell<Vec<(Duration, Duration)>>> = Rc::default();
        let early: Rc<RefCell<Vec<String>>> = Rc::default();
        rt.block_on(async {
            let mut handles = vec![];
            let base = Instant::now();
            for i in 0..200 {
                let us = rng.next() % 30_000;
                let kind = rng.next() % 5;
                let cut = rng.next() % 30_000;
                let results = results.clone();
                let early = early.clone();
                handles.push(compio_runtime::spawn(async move {
                    let d = Duration::from_micros(us);
                    let deadline = base + d;
                    match kind {
                        0 => {
                            sleep_until(deadline).await;
                            let now = Instant::now();
                            if now < deadline {
                                early.borrow_mut().push(format!("task {i} early"));
                            }
                            results.borrow_mut().push((d, now - base));
                        }
                        1 => {
                            // dropped timer: timeout around a sleep
                            let c = Duration::from_micros(cut);
                            let r = timeout_at(base + c, sleep_until(deadline)).await;
                            let now = Instant::now();
                            match r {
                                Ok(()) => {
                                    if now < deadline {
                                        early.borrow_mut().push(format!("task {i} inner early"));
                                    }
                                }
                                Err(_) => {
                                    if now < base + c {
                                        early.borrow_mut().push(format!("task {i} timeout early"));
                                    }
                                    if deadline < base + c
                                        && now.duration_since(base + c) > Duration::from_millis(20)
                                    {
                                        // inner should have won
                                    }
                                }
                            }
                            results.borrow_mut().push((d.min(c), now - base));
                        }
                        2 => {
                            // create and drop immediately
                            let s = sleep_until(deadline);
                            drop(s);
                        }
                        3 => {
                            // poll once then drop
                            let mut s = std::pin::pin!(sleep_until(deadline));
                            let _ = futures_util::poll!(s.as_mut());
                        }
                        _ => {
                            // sequence of short sleeps
                            for _ in 0..3 {
                                let t0 = Instant::now();
                                let dd = Duration::from_micros(us / 3);
                                sleep(dd).await;
                                if t0.elapsed() < dd {
                                    early.borrow_mut().push(format!("task {i} seq early"));
                                }
                            }
                        }
                    }
                }));
            }
            for h in handles {
                h.await.unwrap();
            }
        });
        assert!(early.borrow().is_empty(), "{:?}", early.borrow());
        let worst = results
            .borrow()
            .iter()
            .map(|(d, a)| a.saturating_sub(*d))
            .max()
            .unwrap();
        eprintln!("seed {seed} worst lateness {worst:?}");
        assert!(worst < Duration::from_millis(50), "too late: {worst:?}");
        assert_eq!(rt.current_timeout(), None, "timers left behind");
    }
}

#[test]
fn idle_latency() {
    let rt = rt();
    rt.block_on(async {
        for us in [100u64, 999, 1000, 1001, 1500, 2500, 10_000, 33_333] {
            let d = Duration::from_micros(us);
            let t0 = Instant::now();
            sleep(d).await;
            let el = t0.elapsed();
            eprintln!("sleep {d:?} took {el:?}");
            assert!(el >= d);
            assert!(el < d + Duration::from_millis(20));
        }
    });
}

#[test]
fn interval_alignment() {
    let rt = rt();
    rt.block_on(async {
        let start = Instant::now() + Duration::from_millis(5);
        let period = Duration::from_millis(3);
        let mut it = interval_at(start, period);
        let mut last = None;
        for i in 0..30 {
            let t = it.tick().await;
            let now = Instant::now();
            assert!(now >= t, "tick {i} returned before its instant");
            let off = (t - start).as_nanos();
            assert_eq!(off % period.as_nanos(), 0, "tick {i} misaligned");
            if let Some(l) = last {
                assert!(t > l, "tick {i} not increasing: {t:?} <= {l:?}");
            }
            last = Some(t);
            if i % 7 == 3 {
                std::thread::sleep(Duration::from_millis(7));
            }
        }
    });
}

#[test]
fn timeout_semantics() {
    let rt = rt();
    rt.block_on(async {
        // inner ready immediately, deadline in the past
        let r = timeout_at(Instant::now() - Duration::from_secs(1), async { 1 }).await;
        assert_eq!(r, Ok(1));
        let r = timeout(Duration::ZERO, async { 1 }).await;
        assert_eq!(r, Ok(1));
        let r = timeout(Duration::ZERO, std::future::pending::<()>()).await;
        assert!(r.is_err());
        let t0 = Instant::now();
        let r = timeout(Duration::from_millis(5), sleep(Duration::from_millis(50))).await;
        assert!(r.is_err());
        assert!(t0.elapsed() >= Duration::from_millis(5));
        assert!(t0.elapsed() < Duration::from_millis(40));
        let r = timeout(Duration::from_millis(50), sleep(Duration::from_millis(5))).await;
        assert!(r.is_ok());
    });
    assert_eq!(rt.current_timeout(), None);
}

struct YieldNow(bool);
impl std::future::Future for YieldNow {
    type Output = ();

    fn poll(
        mut self: std::pin::Pin<&mut Self>,
        cx: &mut std::task::Context<'_>,
    ) -> std::task::Poll<()> {
        if self.0 {
            std::task::Poll::Ready(())
        } else {
            self.0 = true;
            cx.waker().wake_by_ref();
            std::task::Poll::Pending
        }
    }
}

/// Timers fire on time while other tasks keep the executor permanently busy.
#[test]
fn busy_runtime() {
    for interval in [1usize, 2, 61, 1000] {
        let mut b = Runtime::builder();
        b.event_interval(interval);
        let rt = b.build().unwrap();
        rt.block_on(async {
            let stop = Rc::new(std::cell::Cell::new(false));
            let mut spinners = vec![];
            for _ in 0..5 {
                let stop = stop.clone();
                spinners.push(compio_runtime::spawn(async move {
                    while !stop.get() {
                        YieldNow(false).await;
                    }
                }));
            }
            let t0 = Instant::now();
            let h = compio_runtime::spawn(async move {
                sleep(Duration::from_millis(30)).await;
                t0.elapsed()
            });
            // main future also sleeps
            sleep(Duration::from_millis(50)).await;
            let main_el = t0.elapsed();
            let el = h.await.unwrap();
            stop.set(true);
            for s in spinners {
                s.await.unwrap();
            }
            eprintln!("interval={interval} spawned 30ms -> {el:?}, main 50ms -> {main_el:?}");
            assert!(el >= Duration::from_millis(30) && el < Duration::from_millis(50));
            assert!(main_el >= Duration::from_millis(50) && main_el < Duration::from_millis(70));
        });
    }
}

/// Main future busy (self-waking), timers only in tasks.
#[test]
fn busy_main_future() {
    let rt = rt();
    rt.block_on(async {
        let t0 = Instant::now();
        let h = compio_runtime::spawn(async move {
            sleep(Duration::from_millis(30)).await;
            t0.elapsed()
        });
        let mut h = std::pin::pin!(h);
        let el = std::future::poll_fn(|cx| {
            cx.waker().wake_by_ref();
            h.as_mut().poll(cx)
        })
        .await
        .unwrap();
        eprintln!("busy main: 30ms -> {el:?}");
        assert!(el < Duration::from_millis(50));
    });
}
