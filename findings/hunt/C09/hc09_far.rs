use std::time::{Duration, Instant};

use compio_driver::{DriverType, ProactorBuilder};
use compio_runtime::{
    Runtime,
    time::{sleep, timeout},
};

fn rt() -> Runtime {
    let mut b = Runtime::builder();
    if std::env::var("HC_POLL").is_ok() {
        let mut pb = ProactorBuilder::new();
        pb.driver_type(DriverType::Poll);
        b.with_proactor(pb);
    }
    let rt = b.build().unwrap();
    eprintln!("driver: {:?}", rt.driver_type());
    rt
}

fn cpu_time() -> Duration {
    let mut ts = libc::timespec {
        tv_sec: 0,
        tv_nsec: 0,
    };
    unsafe { libc::clock_gettime(libc::CLOCK_THREAD_CPUTIME_ID, &mut ts) };
    Duration::new(ts.tv_sec as _, ts.tv_nsec as _)
}

/// A far (but representable) deadline next to a near one.
#[test]
fn far_deadline_does_not_spin() {
    for secs in [
        86400u64 * 365 * 100,
        i32::MAX as u64 + 10,
        u32::MAX as u64 + 10,
        1 << 40,
        1 << 53,
        (1 << 62) - 1,
        i64::MAX as u64 / 2,
    ] {
        let rt = rt();
        let c0 = cpu_time();
        let t0 = Instant::now();
        let polls = rt.block_on(async move {
            let far = compio_runtime::spawn(async move {
                let _ = timeout(Duration::from_secs(secs), std::future::pending::<()>()).await;
            });
            let mut polls = 0u64;
            let mut s = std::pin::pin!(sleep(Duration::from_millis(300)));
            std::future::poll_fn(|cx| {
                polls += 1;
                s.as_mut().poll(cx)
            })
            .await;
            drop(far);
            polls
        });
        let wall = t0.elapsed();
        let cpu = cpu_time() - c0;
        eprintln!("secs={secs} wall={wall:?} cpu={cpu:?} main polls={polls}");
        assert!(wall >= Duration::from_millis(300));
        assert!(wall < Duration::from_millis(600), "slept too long: {wall:?}");
        assert!(
            cpu < Duration::from_millis(100) && polls < 100,
            "busy loop: cpu={cpu:?} polls={polls}"
        );
    }
}

/// The far deadline is the nearest one: the driver gets the huge timeout.
#[test]
fn far_deadline_only() {
    for secs in [
        86400u64 * 365 * 100,
        i32::MAX as u64 + 10,
        u32::MAX as u64 + 10,
        1 << 40,
        9223372036, // ~ i64::MAX ns
        9223372037,
        1 << 53,
        (1 << 62) - 1,
        i64::MAX as u64 / 2,
        i64::MAX as u64 - (1 << 40),
    ] {
        let rt = rt();
        let c0 = cpu_time();
        let t0 = Instant::now();
        let polls = rt.block_on(async move {
            let mut polls = 0u64;
            let h = compio_runtime::spawn_blocking(|| std::thread::sleep(Duration::from_millis(200)));
            let mut s = std::pin::pin!(timeout(Duration::from_secs(secs), h));
            let r = std::future::poll_fn(|cx| {
                polls += 1;
                s.as_mut().poll(cx)
            })
            .await;
            assert!(r.is_ok());
            polls
        });
        let wall = t0.elapsed();
        let cpu = cpu_time() - c0;
        eprintln!("secs={secs} wall={wall:?} cpu={cpu:?} main polls={polls}");
        assert!(wall >= Duration::from_millis(200));
        assert!(wall < Duration::from_millis(500), "slept too long: {wall:?}");
        assert!(
            cpu < Duration::from_millis(100) && polls < 100,
            "busy loop: cpu={cpu:?} polls={polls}"
        );
    }
}
