//! `sleep`, `timeout` and `Interval::tick` compute `Instant::now() + duration`
//! with the panicking `+` operator, so a "practically infinite" duration
//! (`Duration::MAX`, or anything above ~i64::MAX seconds) panics with
//! "overflow when adding duration to instant" instead of yielding a timer
//! that (practically) never fires.

use std::time::Duration;

use compio_runtime::{
    Runtime,
    time::{interval, sleep, timeout},
};

/// A sleep whose deadline is unreachable must simply stay pending.
#[test]
fn sleep_duration_max() {
    Runtime::new().unwrap().block_on(async {
        let r = timeout(Duration::from_millis(20), sleep(Duration::MAX)).await;
        assert!(r.is_err(), "the 20ms timeout must win");
    });
}

/// `timeout(Duration::MAX, fut)` is the usual way of saying "no timeout":
/// it must yield the inner result.
#[test]
fn timeout_duration_max() {
    Runtime::new().unwrap().block_on(async {
        let r = timeout(Duration::MAX, async { 7 }).await;
        assert_eq!(r, Ok(7));
    });
}

/// Not only `Duration::MAX`: any duration that does not fit the platform
/// `Instant`.
#[test]
fn timeout_u64_max_seconds() {
    Runtime::new().unwrap().block_on(async {
        let r = timeout(Duration::from_secs(u64::MAX / 2 + 1), async { 7 }).await;
        assert_eq!(r, Ok(7));
    });
}

/// The first tick is immediate, the second one is `Duration::MAX` away and
/// must stay pending (it panics in `now + self.period` instead).
#[test]
fn interval_duration_max() {
    Runtime::new().unwrap().block_on(async {
        let mut it = interval(Duration::MAX);
        it.tick().await;
        let r = timeout(Duration::from_millis(20), it.tick()).await;
        assert!(r.is_err());
    });
}
