//! DEFECT D07: zero-length pipe I/O hangs on the polling driver.
//! read(fd, buf, 0) on an empty pipe and write(fd, buf, 0) on a full pipe
//! return 0 immediately (OS, io_uring driver). The polling `Read`/`Write`
//! opcodes always wait for readiness first, so the future never completes
//! (until unrelated data arrives / is drained).
#![cfg(target_os = "linux")]
#![allow(unused_imports, dead_code)]
use std::{future::Future, io::Write, time::Duration};

use compio_buf::BufResult;
use compio_driver::{DriverType, ProactorBuilder};
use compio_fs::File;
use compio_runtime::{Runtime, RuntimeBuilder};

fn rt(ty: DriverType) -> Runtime {
    let mut pb = ProactorBuilder::new();
    pb.driver_type(ty);
    let rt = RuntimeBuilder::new().with_proactor(pb).build().unwrap();
    assert_eq!(rt.driver_type(), ty, "build with --features compio-driver/polling,compio-driver/io-uring");
    rt
}

fn run<F: Future<Output = String>>(ty: DriverType, f: impl FnOnce() -> F) -> String {
    let s = rt(ty).block_on(f());
    eprintln!("{ty:?}: {s}");
    s
}

fn vec_with(init: &[u8], cap: usize) -> Vec<u8> {
    let mut v = Vec::with_capacity(cap);
    v.extend_from_slice(init);
    v
}

fn k<T>(r: std::io::Result<T>) -> Result<T, std::io::ErrorKind> {
    r.map_err(|e| e.kind())
}

use compio_io::{AsyncRead, AsyncWrite};

async fn read_case() -> String {
    let (mut rx, _tx) = compio_fs::pipe::anonymous().await.unwrap();
    match compio_runtime::time::timeout(Duration::from_millis(500), rx.read(Vec::new())).await {
        Err(_) => "HANG (500ms timeout)".to_string(),
        Ok(BufResult(r, _)) => format!("{:?}", k(r)),
    }
}

async fn write_case() -> String {
    let (_rx, mut tx) = compio_fs::pipe::anonymous().await.unwrap();
    let BufResult(r, _) = tx.write(vec![7u8; 200_000]).await; // fills the pipe (64 KiB)
    r.unwrap();
    match compio_runtime::time::timeout(Duration::from_millis(500), tx.write(Vec::new())).await {
        Err(_) => "HANG (500ms timeout)".to_string(),
        Ok(BufResult(r, _)) => format!("{:?}", k(r)),
    }
}

#[test]
fn os_reference() {
    let (rfd, wfd) = nix::unistd::pipe().unwrap();
    let mut b = [0u8; 0];
    assert_eq!(nix::unistd::read(&rfd, &mut b), Ok(0));
    nix::fcntl::fcntl(&wfd, nix::fcntl::FcntlArg::F_SETFL(nix::fcntl::OFlag::O_NONBLOCK)).unwrap();
    while nix::unistd::write(&wfd, &[0u8; 4096]).is_ok() {}
    assert_eq!(nix::unistd::write(&wfd, &[]), Ok(0));
}

#[test]
fn zero_len_read_empty_pipe_iour() {
    assert_eq!(run(DriverType::IoUring, read_case), "Ok(0)");
}

#[test]
fn zero_len_read_empty_pipe_poll() {
    assert_eq!(run(DriverType::Poll, read_case), "Ok(0)");
}

#[test]
fn zero_len_write_full_pipe_iour() {
    assert_eq!(run(DriverType::IoUring, write_case), "Ok(0)");
}

#[test]
fn zero_len_write_full_pipe_poll() {
    assert_eq!(run(DriverType::Poll, write_case), "Ok(0)");
}
