//! Differential fuzzer: compio-fs File on io_uring / polling vs std::fs (pread/pwrite).
#![cfg(target_os = "linux")]
use std::os::unix::fs::FileExt;

use compio_buf::{BufResult, IoBufExt};
use compio_driver::{DriverType, ProactorBuilder};
use compio_fs::File;
use compio_io::{AsyncReadAt, AsyncReadAtExt, AsyncWriteAt, AsyncWriteAtExt};
use compio_runtime::{Runtime, RuntimeBuilder};

fn rt(ty: DriverType, cap: u32) -> Runtime {
    let mut pb = ProactorBuilder::new();
    pb.driver_type(ty).capacity(cap);
    let rt = RuntimeBuilder::new().with_proactor(pb).build().unwrap();
    assert_eq!(rt.driver_type(), ty);
    rt
}

struct Rng(u64);
impl Rng {
    fn next(&mut self) -> u64 {
        self.0 ^= self.0 << 13;
        self.0 ^= self.0 >> 7;
        self.0 ^= self.0 << 17;
        self.0
    }
    fn below(&mut self, n: u64) -> u64 {
        self.next() % n
    }
    fn bytes(&mut self, n: usize) -> Vec<u8> {
        (0..n).map(|_| (self.next() % 251) as u8 + 1).collect()
    }
}

#[derive(Debug, Clone)]
enum Op {
    WriteAt { pos: u64, data: Vec<u8>, by_ref: bool },
    WriteSlice { pos: u64, data: Vec<u8>, a: usize, b: usize },
    WriteVec { pos: u64, bufs: Vec<Vec<u8>> },
    ReadAt { pos: u64, init: Vec<u8>, cap: usize },
    ReadSlice { pos: u64, init: Vec<u8>, cap: usize, a: usize, b: Option<usize> },
    ReadArr { pos: u64 },
    ReadVec { pos: u64, caps: Vec<usize>, full: bool },
    ReadExact { pos: u64, cap: usize },
    ReadVecExact { pos: u64, caps: Vec<usize> },
    WriteAll { pos: u64, data: Vec<u8> },
    WriteVecAll { pos: u64, bufs: Vec<Vec<u8>> },
    ReadToEnd { pos: u64 },
    SetLen(u64),
    Len,
    Sync(bool),
    Burst { poss: Vec<u64>, cap: usize },
}

fn gen_pos(r: &mut Rng) -> u64 {
    match r.below(10) {
        0 => 0,
        1 => 1000 + r.below(5000),
        _ => r.below(300),
    }
}

fn gen_op(r: &mut Rng) -> Op {
    match r.below(17) {
        0 | 1 => {
            let n = r.below(80) as usize;
            Op::WriteAt { pos: gen_pos(r), data: r.bytes(n), by_ref: r.below(2) == 0 }
        }
        2 => {
            let n = r.below(80) as usize;
            let a = r.below(n as u64 + 1) as usize;
            let b = a + r.below((n - a) as u64 + 20) as usize;
            Op::WriteSlice { pos: gen_pos(r), data: r.bytes(n), a, b }
        }
        3 => {
            let k = r.below(6) as usize;
            let bufs = (0..k).map(|_| { let n = r.below(24) as usize; r.bytes(n) }).collect();
            Op::WriteVec { pos: gen_pos(r), bufs }
        }
        4 | 5 => {
            let cap = r.below(100) as usize;
            let il = r.below(cap as u64 + 1) as usize;
            Op::ReadAt { pos: gen_pos(r), init: r.bytes(il), cap }
        }
        6 => {
            let cap = r.below(100) as usize;
            let il = r.below(cap as u64 + 1) as usize;
            let a = r.below(il as u64 + 1) as usize;
            let b = if r.below(2) == 0 { None } else { Some(a + r.below(120) as usize) };
            Op::ReadSlice { pos: gen_pos(r), init: r.bytes(il), cap, a, b }
        }
        7 => Op::ReadArr { pos: gen_pos(r) },
        8 => {
            let k = r.below(6) as usize;
            Op::ReadVec {
                pos: gen_pos(r),
                caps: (0..k).map(|_| r.below(40) as usize).collect(),
                full: r.below(2) == 0,
            }
        }
        9 => Op::ReadExact { pos: gen_pos(r), cap: r.below(100) as usize },
        10 => {
            let k = r.below(5) as usize;
            Op::ReadVecExact { pos: gen_pos(r), caps: (0..k).map(|_| r.below(40) as usize).collect() }
        }
        11 => { let n = r.below(200) as usize; Op::WriteAll { pos: gen_pos(r), data: r.bytes(n) } }
        12 => {
            let k = r.below(6) as usize;
            let bufs = (0..k).map(|_| { let n = r.below(24) as usize; r.bytes(n) }).collect();
            Op::WriteVecAll { pos: gen_pos(r), bufs }
        }
        13 => Op::ReadToEnd { pos: gen_pos(r) },
        14 => Op::SetLen(gen_pos(r)),
        15 => if r.below(2) == 0 { Op::Len } else { Op::Sync(r.below(2) == 0) },
        _ => {
            let k = 1 + r.below(40) as usize;
            Op::Burst { poss: (0..k).map(|_| gen_pos(r)).collect(), cap: 1 + r.below(30) as usize }
        }
    }
}

fn vec_with(init: &[u8], cap: usize) -> Vec<u8> {
    let mut v = Vec::with_capacity(cap);
    v.extend_from_slice(init);
    assert_eq!(v.capacity(), cap.max(v.capacity()));
    v
}

fn e<T>(r: std::io::Result<T>) -> Result<T, std::io::ErrorKind> {
    r.map_err(|e| e.kind())
}

fn pread_full(f: &std::fs::File, buf: &mut [u8], pos: u64) -> std::io::Result<usize> {
    // a single pread on a regular file returns everything available
    f.read_at(buf, pos)
}

/// The model: what the OS does, mapped to the documented buffer semantics
/// (reads fill the buffer from index 0, len becomes max(len, n)).
fn model(f: &std::fs::File, op: &Op) -> String {
    match op {
        Op::WriteAt { pos, data, .. } => format!("{:?}", e(if data.is_empty() { Ok(0) } else { f.write_at(data, *pos) })),
        Op::WriteSlice { pos, data, a, b } => {
            let b = (*b).min(data.len());
            let s = &data[*a..b.max(*a)];
            format!("{:?}", e(if s.is_empty() { Ok(0) } else { f.write_at(s, *pos) }))
        }
        Op::WriteVec { pos, bufs } | Op::WriteVecAll { pos, bufs } => {
            let all: Vec<u8> = bufs.concat();
            let r = if all.is_empty() { Ok(0) } else { f.write_at(&all, *pos) };
            if matches!(op, Op::WriteVecAll { .. }) {
                format!("{:?}", e(r.map(|_| ())))
            } else {
                format!("{:?}", e(r))
            }
        }
        Op::WriteAll { pos, data } => format!("{:?}", e(f.write_all_at(data, *pos))),
        Op::ReadAt { pos, init, cap } => {
            let mut raw = vec![0u8; *cap];
            raw[..init.len()].copy_from_slice(init);
            let r = pread_full(f, &mut raw, *pos);
            let n = *r.as_ref().unwrap_or(&0);
            raw.truncate(init.len().max(n));
            format!("{:?} {:?}", e(r), raw)
        }
        Op::ReadSlice { pos, init, cap, a, b } => {
            let mut raw = vec![0u8; *cap];
            raw[..init.len()].copy_from_slice(init);
            let end = b.unwrap_or(*cap).min(*cap).max(*a);
            let r = pread_full(f, &mut raw[*a..end], *pos);
            let n = *r.as_ref().unwrap_or(&0);
            raw.truncate(init.len().max(if n > 0 { a + n } else { 0 }));
            format!("{:?} {:?}", e(r), raw)
        }
        Op::ReadArr { pos } => {
            let mut raw = [0u8; 16];
            let r = pread_full(f, &mut raw, *pos);
            format!("{:?} {:?}", e(r), raw)
        }
        Op::ReadVec { pos, caps, full } => {
            let total: usize = caps.iter().sum();
            let mut raw = vec![0xEEu8; total];
            let r = pread_full(f, &mut raw, *pos);
            let n = *r.as_ref().unwrap_or(&0);
            let mut out = Vec::new();
            let mut off = 0;
            for c in caps {
                let got = n.saturating_sub(off).min(*c);
                let mut v = raw[off..off + c].to_vec();
                if !*full {
                    v.truncate(got);
                }
                out.push(v);
                off += c;
            }
            format!("{:?} {:?}", e(r), out)
        }
        Op::ReadExact { pos, cap } => {
            let mut raw = vec![0u8; *cap];
            let r = f.read_exact_at(&mut raw, *pos);
            if r.is_ok() {
                format!("Ok(()) {:?}", raw)
            } else {
                format!("{:?}", e(r))
            }
        }
        Op::ReadVecExact { pos, caps } => {
            let total: usize = caps.iter().sum();
            let mut raw = vec![0u8; total];
            let r = f.read_exact_at(&mut raw, *pos);
            if r.is_ok() {
                let mut out = Vec::new();
                let mut off = 0;
                for c in caps {
                    out.push(raw[off..off + c].to_vec());
                    off += c;
                }
                format!("Ok(()) {:?}", out)
            } else {
                format!("{:?}", e(r))
            }
        }
        Op::ReadToEnd { pos } => {
            let len = f.metadata().unwrap().len();
            let mut raw = vec![0u8; len.saturating_sub(*pos) as usize];
            f.read_exact_at(&mut raw, *pos).unwrap();
            format!("Ok({}) {:?}", raw.len(), raw)
        }
        Op::SetLen(n) => format!("{:?}", e(f.set_len(*n))),
        Op::Len => format!("{:?}", e(f.metadata().map(|m| m.len()))),
        Op::Sync(d) => format!("{:?}", e(if *d { f.sync_data() } else { f.sync_all() })),
        Op::Burst { poss, cap } => {
            let mut out = Vec::new();
            for p in poss {
                let mut raw = vec![0u8; *cap];
                let r = pread_full(f, &mut raw, *p);
                let n = *r.as_ref().unwrap_or(&0);
                raw.truncate(n);
                out.push(format!("{:?} {:?}", e(r), raw));
            }
            out.join(";")
        }
    }
}

async fn apply(f: &mut File, op: &Op) -> String {
    match op.clone() {
        Op::WriteAt { pos, data, by_ref } => {
            let BufResult(r, _) = if by_ref { (&*f).write_at(data, pos).await } else { f.write_at(data, pos).await };
            format!("{:?}", e(r))
        }
        Op::WriteSlice { pos, data, a, b } => {
            let BufResult(r, _) = f.write_at(data.slice(a..b), pos).await;
            format!("{:?}", e(r))
        }
        Op::WriteVec { pos, bufs } => {
            let BufResult(r, _) = f.write_vectored_at(bufs, pos).await;
            format!("{:?}", e(r))
        }
        Op::WriteVecAll { pos, bufs } => {
            let BufResult(r, _) = f.write_vectored_all_at(bufs, pos).await;
            format!("{:?}", e(r))
        }
        Op::WriteAll { pos, data } => {
            let BufResult(r, _) = f.write_all_at(data, pos).await;
            format!("{:?}", e(r))
        }
        Op::ReadAt { pos, init, cap } => {
            let BufResult(r, b) = f.read_at(vec_with(&init, cap), pos).await;
            format!("{:?} {:?}", e(r), b)
        }
        Op::ReadSlice { pos, init, cap, a, b } => {
            let v = vec_with(&init, cap);
            let BufResult(r, s) = match b {
                None => f.read_at(v.slice(a..), pos).await,
                Some(b) => f.read_at(v.slice(a..b), pos).await,
            };
            use compio_buf::IntoInner;
            format!("{:?} {:?}", e(r), s.into_inner())
        }
        Op::ReadArr { pos } => {
            let BufResult(r, b) = f.read_at([0u8; 16], pos).await;
            format!("{:?} {:?}", e(r), b)
        }
        Op::ReadVec { pos, caps, full } => {
            let bufs: Vec<Vec<u8>> = caps
                .iter()
                .map(|c| if full { vec![0xEE; *c] } else { Vec::with_capacity(*c) })
                .collect();
            let BufResult(r, b) = f.read_vectored_at(bufs, pos).await;
            format!("{:?} {:?}", e(r), b)
        }
        Op::ReadExact { pos, cap } => {
            let BufResult(r, b) = f.read_exact_at(Vec::with_capacity(cap), pos).await;
            if r.is_ok() { format!("Ok(()) {:?}", b) } else { format!("{:?}", e(r)) }
        }
        Op::ReadVecExact { pos, caps } => {
            let bufs: Vec<Vec<u8>> = caps.iter().map(|c| Vec::with_capacity(*c)).collect();
            let BufResult(r, b) = f.read_vectored_exact_at(bufs, pos).await;
            if r.is_ok() { format!("Ok(()) {:?}", b) } else { format!("{:?}", e(r)) }
        }
        Op::ReadToEnd { pos } => {
            let BufResult(r, b) = f.read_to_end_at(Vec::new(), pos).await;
            format!("{:?} {:?}", e(r), b)
        }
        Op::SetLen(n) => format!("{:?}", e(f.set_len(n).await)),
        Op::Len => format!("{:?}", e(f.metadata().await.map(|m| m.len()))),
        Op::Sync(d) => format!("{:?}", e(if d { f.sync_data().await } else { f.sync_all().await })),
        Op::Burst { poss, cap } => {
            let futs = poss.iter().map(|p| {
                let f = f.clone();
                let p = *p;
                async move {
                    let BufResult(r, b) = f.read_at(Vec::with_capacity(cap), p).await;
                    format!("{:?} {:?}", e(r), b)
                }
            });
            futures_util::future::join_all(futs).await.join(";")
        }
    }
}

fn run_seed(seed: u64, ty: DriverType, cap: u32) -> Result<(), String> {
    let mut r = Rng(seed.wrapping_mul(0x9E3779B97F4A7C15) | 1);
    let ops: Vec<Op> = (0..40).map(|_| gen_op(&mut r)).collect();
    let d = tempfile::tempdir().unwrap();
    let (pa, pb) = (d.path().join("a"), d.path().join("b"));
    let sf = std::fs::OpenOptions::new().read(true).write(true).create(true).truncate(true).open(&pb).unwrap();
    rt(ty, cap).block_on(async {
        let mut cf = compio_fs::OpenOptions::new().read(true).write(true).create(true).truncate(true).open(&pa).await.unwrap();
        for (i, op) in ops.iter().enumerate() {
            let want = model(&sf, op);
            let got = apply(&mut cf, op).await;
            if want != got {
                return Err(format!("seed {seed} {ty:?} cap {cap} step {i}: {op:?}\n  want {want}\n  got  {got}"));
            }
            let (ca, cb) = (std::fs::read(&pa).unwrap(), std::fs::read(&pb).unwrap());
            if ca != cb {
                return Err(format!("seed {seed} {ty:?} step {i}: {op:?}: content differs\n  std    {cb:?}\n  compio {ca:?}"));
            }
        }
        Ok(())
    })
}

#[test]
fn fuzz() {
    let n: u64 = std::env::var("FUZZ_N").ok().and_then(|s| s.parse().ok()).unwrap_or(300);
    let mut fails = 0;
    for seed in 1..=n {
        for (ty, cap) in [(DriverType::IoUring, 1024), (DriverType::IoUring, 2), (DriverType::Poll, 2)] {
            if let Err(m) = run_seed(seed, ty, cap) {
                eprintln!("{m}");
                fails += 1;
                if fails > 15 {
                    panic!("too many failures");
                }
            }
        }
    }
    assert_eq!(fails, 0);
}
