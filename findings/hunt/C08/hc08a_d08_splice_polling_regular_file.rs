//! DEFECT D08: `compio_fs::pipe::splice` between a regular file and a pipe
//! fails with EPERM on the polling driver. The polling `Splice` opcode
//! registers *both* fds with epoll before trying the syscall; epoll_ctl(ADD)
//! on a regular file returns EPERM. splice(2) and the io_uring driver work.
#![cfg(target_os = "linux")]
#![allow(unused_imports, dead_code)]
use std::{future::Future, io::Write, time::Duration};

use compio_buf::BufResult;
use compio_driver::{DriverType, ProactorBuilder};
use compio_fs::File;
use compio_runtime::{Runtime, RuntimeBuilder};

fn rt(ty: DriverType) -> Runtime {
    let mut pb = ProactorBuilder::new();
    pb.driver_type(ty);
    let rt = RuntimeBuilder::new().with_proactor(pb).build().unwrap();
    assert_eq!(rt.driver_type(), ty, "build with --features compio-driver/polling,compio-driver/io-uring");
    rt
}

fn run<F: Future<Output = String>>(ty: DriverType, f: impl FnOnce() -> F) -> String {
    let s = rt(ty).block_on(f());
    eprintln!("{ty:?}: {s}");
    s
}

fn vec_with(init: &[u8], cap: usize) -> Vec<u8> {
    let mut v = Vec::with_capacity(cap);
    v.extend_from_slice(init);
    v
}

fn k<T>(r: std::io::Result<T>) -> Result<T, std::io::ErrorKind> {
    r.map_err(|e| e.kind())
}

use std::future::IntoFuture;

use compio_io::{AsyncRead, AsyncWriteExt};

async fn file_to_pipe() -> String {
    let mut tmp = tempfile::NamedTempFile::new().unwrap();
    tmp.write_all(b"hello world").unwrap();
    let f = File::open(tmp.path()).await.unwrap();
    let (mut rx, tx) = compio_fs::pipe::anonymous().await.unwrap();
    let r = compio_fs::pipe::splice(&f, &tx, 11).offset_in(0).into_future().await;
    drop(tx);
    let BufResult(r2, buf) = rx.read(Vec::with_capacity(32)).await;
    format!("{:?} {:?} {:?}", k(r), k(r2), String::from_utf8_lossy(&buf))
}

async fn pipe_to_file() -> String {
    let tmp = tempfile::NamedTempFile::new().unwrap();
    let f = compio_fs::OpenOptions::new().write(true).open(tmp.path()).await.unwrap();
    let (rx, mut tx) = compio_fs::pipe::anonymous().await.unwrap();
    tx.write_all("hello world").await.unwrap();
    let r = compio_fs::pipe::splice(&rx, &f, 11).offset_out(3).into_future().await;
    format!("{:?} {:?}", k(r), String::from_utf8_lossy(&std::fs::read(tmp.path()).unwrap()))
}

const WANT1: &str = "Ok(11) Ok(11) \"hello world\"";
const WANT2: &str = "Ok(11) \"\\0\\0\\0hello world\"";

#[test]
fn splice_file_to_pipe_iour() {
    assert_eq!(run(DriverType::IoUring, file_to_pipe), WANT1);
}

#[test]
fn splice_file_to_pipe_poll() {
    assert_eq!(run(DriverType::Poll, file_to_pipe), WANT1);
}

#[test]
fn splice_pipe_to_file_iour() {
    assert_eq!(run(DriverType::IoUring, pipe_to_file), WANT2);
}

#[test]
fn splice_pipe_to_file_poll() {
    assert_eq!(run(DriverType::Poll, pipe_to_file), WANT2);
}
