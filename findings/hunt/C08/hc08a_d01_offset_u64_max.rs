//! DEFECT D01: positional ops with `pos == u64::MAX` on the io_uring driver.
//!
//! The SQE offset `-1` means "use and advance the file position" for
//! IORING_OP_READ/WRITE/READV/WRITEV, so `read_at(buf, u64::MAX)` reads from the
//! file cursor and `write_at(buf, u64::MAX)` *writes data at the cursor and
//! moves it*, while pread(2)/pwrite(2) (std, and the polling driver) fail with
//! EINVAL and leave the file untouched.
#![cfg(target_os = "linux")]
#![allow(unused_imports, dead_code)]
use std::{future::Future, io::Write, time::Duration};

use compio_buf::BufResult;
use compio_driver::{DriverType, ProactorBuilder};
use compio_fs::File;
use compio_runtime::{Runtime, RuntimeBuilder};

fn rt(ty: DriverType) -> Runtime {
    let mut pb = ProactorBuilder::new();
    pb.driver_type(ty);
    let rt = RuntimeBuilder::new().with_proactor(pb).build().unwrap();
    assert_eq!(rt.driver_type(), ty, "build with --features compio-driver/polling,compio-driver/io-uring");
    rt
}

fn run<F: Future<Output = String>>(ty: DriverType, f: impl FnOnce() -> F) -> String {
    let s = rt(ty).block_on(f());
    eprintln!("{ty:?}: {s}");
    s
}

fn vec_with(init: &[u8], cap: usize) -> Vec<u8> {
    let mut v = Vec::with_capacity(cap);
    v.extend_from_slice(init);
    v
}

fn k<T>(r: std::io::Result<T>) -> Result<T, std::io::ErrorKind> {
    r.map_err(|e| e.kind())
}

use std::os::unix::fs::FileExt;

use compio_io::{AsyncReadAt, AsyncWriteAt};

async fn read_case() -> String {
    let mut tmp = tempfile::NamedTempFile::new().unwrap();
    tmp.write_all(b"0123456789").unwrap();
    let f = File::open(tmp.path()).await.unwrap();
    let BufResult(r, buf) = f.read_at(Vec::with_capacity(4), u64::MAX).await;
    format!("{:?} {:?}", k(r), buf)
}

async fn write_case() -> String {
    let tmp = tempfile::NamedTempFile::new().unwrap();
    std::fs::write(tmp.path(), b"0123456789").unwrap();
    let mut f = compio_fs::OpenOptions::new().write(true).open(tmp.path()).await.unwrap();
    let BufResult(r1, _) = f.write_at(b"AB", u64::MAX).await;
    let BufResult(r2, _) = f.write_at(b"CD", u64::MAX).await;
    format!("{:?} {:?} file={:?}", k(r1), k(r2), String::from_utf8_lossy(&std::fs::read(tmp.path()).unwrap()))
}

fn os_read() -> String {
    let mut tmp = tempfile::NamedTempFile::new().unwrap();
    tmp.write_all(b"0123456789").unwrap();
    let mut b = [0u8; 4];
    let r = tmp.as_file().read_at(&mut b, u64::MAX);
    format!("{:?} {:?}", k(r), Vec::<u8>::new())
}

fn os_write() -> String {
    let tmp = tempfile::NamedTempFile::new().unwrap();
    std::fs::write(tmp.path(), b"0123456789").unwrap();
    let f = std::fs::OpenOptions::new().write(true).open(tmp.path()).unwrap();
    let r1 = f.write_at(b"AB", u64::MAX);
    let r2 = f.write_at(b"CD", u64::MAX);
    format!("{:?} {:?} file={:?}", k(r1), k(r2), String::from_utf8_lossy(&std::fs::read(tmp.path()).unwrap()))
}

#[test]
fn read_at_u64_max_iour() {
    eprintln!("OS: {}", os_read());
    assert_eq!(run(DriverType::IoUring, read_case), os_read());
}

#[test]
fn read_at_u64_max_poll() {
    assert_eq!(run(DriverType::Poll, read_case), os_read());
}

#[test]
fn write_at_u64_max_iour() {
    eprintln!("OS: {}", os_write());
    assert_eq!(run(DriverType::IoUring, write_case), os_write());
}

#[test]
fn write_at_u64_max_poll() {
    assert_eq!(run(DriverType::Poll, write_case), os_write());
}
