//! DEFECT D11: `File::read_to_end_at(buf, pos)` (compio-io `loop_read_to_end!`)
//! overwrites a non-empty `buf` from index 0 instead of appending, contrary to
//! its documentation ("All bytes read from this source will be appended to the
//! specified buffer") and to std's `read_to_end`. The cursor into the buffer
//! starts at 0 (`buffer.slice(total..)`) instead of at `buffer.len()`.
#![cfg(target_os = "linux")]
#![allow(unused_imports, dead_code)]
use std::{future::Future, io::Write, time::Duration};

use compio_buf::BufResult;
use compio_driver::{DriverType, ProactorBuilder};
use compio_fs::File;
use compio_runtime::{Runtime, RuntimeBuilder};

fn rt(ty: DriverType) -> Runtime {
    let mut pb = ProactorBuilder::new();
    pb.driver_type(ty);
    let rt = RuntimeBuilder::new().with_proactor(pb).build().unwrap();
    assert_eq!(rt.driver_type(), ty, "build with --features compio-driver/polling,compio-driver/io-uring");
    rt
}

fn run<F: Future<Output = String>>(ty: DriverType, f: impl FnOnce() -> F) -> String {
    let s = rt(ty).block_on(f());
    eprintln!("{ty:?}: {s}");
    s
}

fn vec_with(init: &[u8], cap: usize) -> Vec<u8> {
    let mut v = Vec::with_capacity(cap);
    v.extend_from_slice(init);
    v
}

fn k<T>(r: std::io::Result<T>) -> Result<T, std::io::ErrorKind> {
    r.map_err(|e| e.kind())
}

use compio_io::AsyncReadAtExt;

async fn case() -> String {
    let mut tmp = tempfile::NamedTempFile::new().unwrap();
    tmp.write_all(b"ABCDE").unwrap();
    let f = File::open(tmp.path()).await.unwrap();
    let BufResult(r, buf) = f.read_to_end_at(b"hello ".to_vec(), 0).await;
    format!("{:?} {:?}", k(r), String::from_utf8_lossy(&buf))
}

#[test]
fn read_to_end_at_appends() {
    use std::io::Read;
    let mut tmp = tempfile::NamedTempFile::new().unwrap();
    tmp.write_all(b"ABCDE").unwrap();
    let mut v = b"hello ".to_vec();
    let n = std::fs::File::open(tmp.path()).unwrap().read_to_end(&mut v).unwrap();
    let want = format!("Ok({n}) {:?}", String::from_utf8_lossy(&v));
    for ty in [DriverType::IoUring, DriverType::Poll] {
        assert_eq!(run(ty, case), want);
    }
}
