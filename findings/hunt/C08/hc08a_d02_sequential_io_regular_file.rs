//! DEFECT: sequential (cursor based) `Read` / `Write` / `ReadVectored` /
//! `WriteVectored` ops on the io_uring driver are submitted with SQE offset 0
//! instead of -1 ("use and advance the file position"), and on the polling
//! driver they unconditionally register the fd with epoll, which fails with
//! EPERM for regular files.
//!
//! Visible through `compio_fs::stdin()` / `stdout()` when the process' stdio is
//! redirected from / to a regular file (`prog < in.txt > out.txt`), and through
//! `compio_runtime::fd::AsyncFd<std::fs::File>`.
//!
//! Expected (what read(2)/write(2) do): two 4 byte reads of "0123456789" give
//! "0123" then "4567"; two writes "hello " and "world" give "hello world".
#![cfg(target_os = "linux")]

use std::{
    io::Write,
    os::fd::{AsRawFd, FromRawFd, OwnedFd},
};

use compio_buf::BufResult;
use compio_driver::{DriverType, ProactorBuilder};
use compio_io::{AsyncRead, AsyncWrite};
use compio_runtime::{Runtime, RuntimeBuilder};

fn rt(ty: DriverType) -> Runtime {
    let mut pb = ProactorBuilder::new();
    pb.driver_type(ty);
    let rt = RuntimeBuilder::new().with_proactor(pb).build().unwrap();
    assert_eq!(rt.driver_type(), ty);
    rt
}

/// Redirect `target_fd` to `file` for the duration of `f`.
fn with_redirect<R>(target_fd: i32, file: &std::fs::File, f: impl FnOnce() -> R) -> R {
    unsafe {
        let saved = libc::dup(target_fd);
        assert!(saved >= 0);
        let saved = OwnedFd::from_raw_fd(saved);
        assert!(libc::dup2(file.as_raw_fd(), target_fd) >= 0);
        let r = f();
        assert!(libc::dup2(saved.as_raw_fd(), target_fd) >= 0);
        r
    }
}

fn stdin_case(ty: DriverType) -> String {
    let mut tmp = tempfile::NamedTempFile::new().unwrap();
    tmp.write_all(b"0123456789").unwrap();
    let input = std::fs::File::open(tmp.path()).unwrap();
    with_redirect(0, &input, || {
        rt(ty).block_on(async {
            let mut stdin = compio_fs::stdin();
            let BufResult(r1, b1) = stdin.read(Vec::with_capacity(4)).await;
            let BufResult(r2, b2) = stdin.read(Vec::with_capacity(4)).await;
            format!(
                "{:?} {:?} {:?} {:?}",
                r1.map_err(|e| e.kind()),
                String::from_utf8_lossy(&b1),
                r2.map_err(|e| e.kind()),
                String::from_utf8_lossy(&b2)
            )
        })
    })
}

fn stdout_case(ty: DriverType) -> String {
    let tmp = tempfile::NamedTempFile::new().unwrap();
    let output = std::fs::OpenOptions::new()
        .write(true)
        .open(tmp.path())
        .unwrap();
    let res = with_redirect(2, &output, || {
        rt(ty).block_on(async {
            let mut stderr = compio_fs::stderr();
            let BufResult(r1, _) = stderr.write("hello ").await;
            let BufResult(r2, _) = stderr.write("world").await;
            format!("{:?} {:?}", r1.map_err(|e| e.kind()), r2.map_err(|e| e.kind()))
        })
    });
    format!(
        "{res} file={:?}",
        String::from_utf8_lossy(&std::fs::read(tmp.path()).unwrap())
    )
}

fn os_stdin() -> String {
    use std::io::Read;
    let mut tmp = tempfile::NamedTempFile::new().unwrap();
    tmp.write_all(b"0123456789").unwrap();
    let mut input = std::fs::File::open(tmp.path()).unwrap();
    let (mut b1, mut b2) = ([0u8; 4], [0u8; 4]);
    let r1 = input.read(&mut b1).map_err(|e| e.kind());
    let r2 = input.read(&mut b2).map_err(|e| e.kind());
    format!(
        "{:?} {:?} {:?} {:?}",
        r1,
        String::from_utf8_lossy(&b1),
        r2,
        String::from_utf8_lossy(&b2)
    )
}

#[test]
fn stdin_redirected_from_regular_file_iour() {
    let got = stdin_case(DriverType::IoUring);
    eprintln!("io_uring: {got}\nOS      : {}", os_stdin());
    assert_eq!(got, os_stdin());
}

#[test]
fn stdin_redirected_from_regular_file_poll() {
    let got = stdin_case(DriverType::Poll);
    eprintln!("polling : {got}\nOS      : {}", os_stdin());
    assert_eq!(got, os_stdin());
}

#[test]
fn stderr_redirected_to_regular_file_iour() {
    let got = stdout_case(DriverType::IoUring);
    eprintln!("io_uring: {got}");
    assert_eq!(got, "Ok(6) Ok(5) file=\"hello world\"");
}

#[test]
fn stderr_redirected_to_regular_file_poll() {
    let got = stdout_case(DriverType::Poll);
    eprintln!("polling : {got}");
    assert_eq!(got, "Ok(6) Ok(5) file=\"hello world\"");
}

fn asyncfd_case(ty: DriverType) -> String {
    let mut tmp = tempfile::NamedTempFile::new().unwrap();
    tmp.write_all(b"0123456789").unwrap();
    let f = std::fs::File::open(tmp.path()).unwrap();
    rt(ty).block_on(async {
        let mut fd = compio_runtime::fd::AsyncFd::new(f).unwrap();
        let BufResult(r1, b1) = fd.read(Vec::with_capacity(4)).await;
        let BufResult(r2, b2) = fd.read_vectored([Vec::with_capacity(2), Vec::with_capacity(2)]).await;
        format!(
            "{:?} {:?} {:?} {:?}",
            r1.map_err(|e| e.kind()),
            String::from_utf8_lossy(&b1),
            r2.map_err(|e| e.kind()),
            String::from_utf8_lossy(&b2.concat())
        )
    })
}

#[test]
fn asyncfd_regular_file_iour() {
    let got = asyncfd_case(DriverType::IoUring);
    eprintln!("io_uring: {got}");
    assert_eq!(got, os_stdin());
}

#[test]
fn asyncfd_regular_file_poll() {
    let got = asyncfd_case(DriverType::Poll);
    eprintln!("polling : {got}");
    assert_eq!(got, os_stdin());
}
