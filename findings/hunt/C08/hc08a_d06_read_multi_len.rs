//! DEFECT D06: `pipe::Receiver::read_multi(len)` with `len > 0` fails with
//! EINVAL on the io_uring driver: `ReadMulti::create_entry` passes `len` to
//! IORING_OP_READ_MULTISHOT, which the kernel only accepts with len == 0.
//! The polling driver (and `read_multi(0)` on io_uring) deliver the data.
#![cfg(target_os = "linux")]
#![allow(unused_imports, dead_code)]
use std::{future::Future, io::Write, time::Duration};

use compio_buf::BufResult;
use compio_driver::{DriverType, ProactorBuilder};
use compio_fs::File;
use compio_runtime::{Runtime, RuntimeBuilder};

fn rt(ty: DriverType) -> Runtime {
    let mut pb = ProactorBuilder::new();
    pb.driver_type(ty);
    let rt = RuntimeBuilder::new().with_proactor(pb).build().unwrap();
    assert_eq!(rt.driver_type(), ty, "build with --features compio-driver/polling,compio-driver/io-uring");
    rt
}

fn run<F: Future<Output = String>>(ty: DriverType, f: impl FnOnce() -> F) -> String {
    let s = rt(ty).block_on(f());
    eprintln!("{ty:?}: {s}");
    s
}

fn vec_with(init: &[u8], cap: usize) -> Vec<u8> {
    let mut v = Vec::with_capacity(cap);
    v.extend_from_slice(init);
    v
}

fn k<T>(r: std::io::Result<T>) -> Result<T, std::io::ErrorKind> {
    r.map_err(|e| e.kind())
}

use compio_io::{AsyncReadMulti, AsyncWriteExt};
use futures_util::StreamExt;

async fn case(len: usize) -> String {
    let (mut rx, mut tx) = compio_fs::pipe::anonymous().await.unwrap();
    let w = compio_runtime::spawn(async move {
        for i in 0..5u8 {
            tx.write_all(vec![b'a' + i; 10]).await.unwrap();
            compio_runtime::time::sleep(Duration::from_millis(5)).await;
        }
        drop(tx);
    });
    let mut all = vec![];
    let mut errs = vec![];
    {
        let mut s = std::pin::pin!(rx.read_multi(len));
        while let Some(item) = s.next().await {
            match item {
                Ok(b) => all.extend_from_slice(&b),
                Err(e) => {
                    errs.push(format!("{e}"));
                    break;
                }
            }
        }
    }
    let _ = w.await;
    format!("{:?} errs={:?}", String::from_utf8_lossy(&all), errs)
}

const WANT: &str = "\"aaaaaaaaaabbbbbbbbbbccccccccccddddddddddeeeeeeeeee\" errs=[]";

#[test]
fn read_multi_len4_iour() {
    assert_eq!(run(DriverType::IoUring, || case(4)), WANT);
}

#[test]
fn read_multi_len4_poll() {
    assert_eq!(run(DriverType::Poll, || case(4)), WANT);
}

#[test]
fn read_multi_len0_iour_control() {
    assert_eq!(run(DriverType::IoUring, || case(0)), WANT);
}
