//! DEFECT D03: `compio_fs::metadata("")` / `symlink_metadata("")` succeed and
//! return the metadata of the current directory, on both drivers.
//! `PathStat` always passes AT_EMPTY_PATH to statx (io_uring SQE and
//! `pal::statx`). stat(2)/std::fs::metadata("") fail with ENOENT.
#![cfg(target_os = "linux")]
#![allow(unused_imports, dead_code)]
use std::{future::Future, io::Write, time::Duration};

use compio_buf::BufResult;
use compio_driver::{DriverType, ProactorBuilder};
use compio_fs::File;
use compio_runtime::{Runtime, RuntimeBuilder};

fn rt(ty: DriverType) -> Runtime {
    let mut pb = ProactorBuilder::new();
    pb.driver_type(ty);
    let rt = RuntimeBuilder::new().with_proactor(pb).build().unwrap();
    assert_eq!(rt.driver_type(), ty, "build with --features compio-driver/polling,compio-driver/io-uring");
    rt
}

fn run<F: Future<Output = String>>(ty: DriverType, f: impl FnOnce() -> F) -> String {
    let s = rt(ty).block_on(f());
    eprintln!("{ty:?}: {s}");
    s
}

fn vec_with(init: &[u8], cap: usize) -> Vec<u8> {
    let mut v = Vec::with_capacity(cap);
    v.extend_from_slice(init);
    v
}

fn k<T>(r: std::io::Result<T>) -> Result<T, std::io::ErrorKind> {
    r.map_err(|e| e.kind())
}

async fn case() -> String {
    let a = compio_fs::metadata("").await.map(|m| m.is_dir());
    let b = compio_fs::symlink_metadata("").await.map(|m| m.is_dir());
    format!("{:?} {:?}", k(a), k(b))
}

fn os() -> String {
    format!(
        "{:?} {:?}",
        k(std::fs::metadata("").map(|m| m.is_dir())),
        k(std::fs::symlink_metadata("").map(|m| m.is_dir()))
    )
}

#[test]
fn metadata_empty_path_iour() {
    eprintln!("OS: {}", os());
    assert_eq!(run(DriverType::IoUring, case), os());
}

#[test]
fn metadata_empty_path_poll() {
    assert_eq!(run(DriverType::Poll, case), os());
}
