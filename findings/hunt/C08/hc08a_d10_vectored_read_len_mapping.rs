//! DEFECT D10: `File::read_vectored_at` maps the byte count back to the
//! buffers wrongly when the buffers are partly initialised
//! (`SetLenExt::advance_vec_to` + `default_set_len` in compio-buf, used by
//! `VecBufResultExt::map_vec_advanced`).
//!
//! Single-buffer contract (`read_at`): data is written from index 0 and the
//! length becomes `max(old_len, n)`. The vectored sibling instead compares `n`
//! with the *sum* of the old lengths:
//!  (a) n <= sum(old lens): nothing is updated, although buffer 0 received more
//!      bytes than its old length -> the bytes the call reported are invisible.
//!  (b) n  > sum(old lens): every buffer is `set_len` to its share, which
//!      *shrinks* a later buffer that held more initialised bytes than it
//!      received.
#![cfg(target_os = "linux")]
#![allow(unused_imports, dead_code)]
use std::{future::Future, io::Write, time::Duration};

use compio_buf::BufResult;
use compio_driver::{DriverType, ProactorBuilder};
use compio_fs::File;
use compio_runtime::{Runtime, RuntimeBuilder};

fn rt(ty: DriverType) -> Runtime {
    let mut pb = ProactorBuilder::new();
    pb.driver_type(ty);
    let rt = RuntimeBuilder::new().with_proactor(pb).build().unwrap();
    assert_eq!(rt.driver_type(), ty, "build with --features compio-driver/polling,compio-driver/io-uring");
    rt
}

fn run<F: Future<Output = String>>(ty: DriverType, f: impl FnOnce() -> F) -> String {
    let s = rt(ty).block_on(f());
    eprintln!("{ty:?}: {s}");
    s
}

fn vec_with(init: &[u8], cap: usize) -> Vec<u8> {
    let mut v = Vec::with_capacity(cap);
    v.extend_from_slice(init);
    v
}

fn k<T>(r: std::io::Result<T>) -> Result<T, std::io::ErrorKind> {
    r.map_err(|e| e.kind())
}

use compio_io::AsyncReadAt;

async fn case_a() -> String {
    let mut tmp = tempfile::NamedTempFile::new().unwrap();
    tmp.write_all(b"ABCDE").unwrap();
    let f = File::open(tmp.path()).await.unwrap();
    // single buffer reference behaviour
    let BufResult(r0, b0) = f.read_at(vec_with(b"xyz", 8), 0).await;
    assert_eq!((r0.unwrap(), b0.as_slice()), (5, &b"ABCDE"[..]));
    let bufs = vec![vec_with(b"xyz", 8), vec_with(b"xyz", 8)];
    let BufResult(r, bufs) = f.read_vectored_at(bufs, 0).await;
    format!("{:?} {:?}", k(r), bufs.iter().map(|b| String::from_utf8_lossy(b).into_owned()).collect::<Vec<_>>())
}

async fn case_b() -> String {
    let mut tmp = tempfile::NamedTempFile::new().unwrap();
    tmp.write_all(b"ABCDE").unwrap();
    let f = File::open(tmp.path()).await.unwrap();
    let BufResult(r0, b0) = f.read_at(vec_with(b"wxyz", 4), 4).await;
    assert_eq!((r0.unwrap(), b0.as_slice()), (1, &b"Exyz"[..]));
    let bufs = vec![vec_with(b"", 4), vec_with(b"wxyz", 4)];
    let BufResult(r, bufs) = f.read_vectored_at(bufs, 0).await;
    format!("{:?} {:?}", k(r), bufs.iter().map(|b| String::from_utf8_lossy(b).into_owned()).collect::<Vec<_>>())
}

#[test]
fn vectored_read_into_partly_initialised_buffers() {
    for ty in [DriverType::IoUring, DriverType::Poll] {
        // 5 bytes went into buffer 0 (capacity 8): it must expose all of them.
        assert_eq!(run(ty, case_a), r#"Ok(5) ["ABCDE", "xyz"]"#);
    }
}

#[test]
fn vectored_read_must_not_shrink_a_buffer() {
    for ty in [DriverType::IoUring, DriverType::Poll] {
        assert_eq!(run(ty, case_b), r#"Ok(5) ["ABCD", "Exyz"]"#);
    }
}
