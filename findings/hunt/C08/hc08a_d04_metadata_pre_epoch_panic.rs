//! DEFECT D04: `Metadata::modified()` / `accessed()` panic ("overflow when
//! adding duration to instant") for a timestamp before 1970: the signed
//! `st_mtime` is cast to u64 (`Duration::from_secs(st_mtime as _)`).
//! std::fs returns `UNIX_EPOCH - 10s`.
#![cfg(target_os = "linux")]
#![allow(unused_imports, dead_code)]
use std::{future::Future, io::Write, time::Duration};

use compio_buf::BufResult;
use compio_driver::{DriverType, ProactorBuilder};
use compio_fs::File;
use compio_runtime::{Runtime, RuntimeBuilder};

fn rt(ty: DriverType) -> Runtime {
    let mut pb = ProactorBuilder::new();
    pb.driver_type(ty);
    let rt = RuntimeBuilder::new().with_proactor(pb).build().unwrap();
    assert_eq!(rt.driver_type(), ty, "build with --features compio-driver/polling,compio-driver/io-uring");
    rt
}

fn run<F: Future<Output = String>>(ty: DriverType, f: impl FnOnce() -> F) -> String {
    let s = rt(ty).block_on(f());
    eprintln!("{ty:?}: {s}");
    s
}

fn vec_with(init: &[u8], cap: usize) -> Vec<u8> {
    let mut v = Vec::with_capacity(cap);
    v.extend_from_slice(init);
    v
}

fn k<T>(r: std::io::Result<T>) -> Result<T, std::io::ErrorKind> {
    r.map_err(|e| e.kind())
}

use std::time::SystemTime;

#[test]
fn modified_before_epoch() {
    let tmp = tempfile::NamedTempFile::new().unwrap();
    let t = SystemTime::UNIX_EPOCH - Duration::from_secs(10);
    tmp.as_file()
        .set_times(std::fs::FileTimes::new().set_modified(t).set_accessed(t))
        .unwrap();
    let std_m = std::fs::metadata(tmp.path()).unwrap();
    assert_eq!(std_m.modified().unwrap(), t);
    for ty in [DriverType::IoUring, DriverType::Poll] {
        let path = tmp.path().to_path_buf();
        let m = rt(ty).block_on(async move { compio_fs::metadata(path).await.unwrap() });
        use std::os::unix::fs::MetadataExt;
        assert_eq!(m.mtime(), -10);
        // panics here on the unchanged code
        assert_eq!(m.modified().unwrap(), t);
        assert_eq!(m.accessed().unwrap(), t);
    }
}
