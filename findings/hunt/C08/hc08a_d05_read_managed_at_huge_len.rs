//! DEFECT D05: `File::read_managed_at(len, pos)` with `len >= 2^32`.
//! Contract (compio-io): "if len > 0, min(len, buffer_size) will be the max
//! number of bytes to be read".
//! * polling: `BufferRef::set_capacity` does `cap as u32` -> capacity 0 -> a
//!   0-byte pread -> `Ok(None)`, i.e. a bogus EOF on a non-empty file.
//! * io_uring: `len.try_into::<u32>()` fails -> Err(InvalidInput).
#![cfg(target_os = "linux")]
#![allow(unused_imports, dead_code)]
use std::{future::Future, io::Write, time::Duration};

use compio_buf::BufResult;
use compio_driver::{DriverType, ProactorBuilder};
use compio_fs::File;
use compio_runtime::{Runtime, RuntimeBuilder};

fn rt(ty: DriverType) -> Runtime {
    let mut pb = ProactorBuilder::new();
    pb.driver_type(ty);
    let rt = RuntimeBuilder::new().with_proactor(pb).build().unwrap();
    assert_eq!(rt.driver_type(), ty, "build with --features compio-driver/polling,compio-driver/io-uring");
    rt
}

fn run<F: Future<Output = String>>(ty: DriverType, f: impl FnOnce() -> F) -> String {
    let s = rt(ty).block_on(f());
    eprintln!("{ty:?}: {s}");
    s
}

fn vec_with(init: &[u8], cap: usize) -> Vec<u8> {
    let mut v = Vec::with_capacity(cap);
    v.extend_from_slice(init);
    v
}

fn k<T>(r: std::io::Result<T>) -> Result<T, std::io::ErrorKind> {
    r.map_err(|e| e.kind())
}

use compio_io::AsyncReadManagedAt;

async fn case() -> String {
    let mut tmp = tempfile::NamedTempFile::new().unwrap();
    tmp.write_all(b"0123456789").unwrap();
    let f = File::open(tmp.path()).await.unwrap();
    let r = f.read_managed_at(1usize << 32, 0).await;
    format!("{:?}", k(r.map(|b| b.map(|b| b.to_vec()))))
}

const WANT: &str = "Ok(Some([48, 49, 50, 51, 52, 53, 54, 55, 56, 57]))";

#[test]
fn read_managed_at_huge_len_iour() {
    assert_eq!(run(DriverType::IoUring, case), WANT);
}

#[test]
fn read_managed_at_huge_len_poll() {
    assert_eq!(run(DriverType::Poll, case), WANT);
}
