//! DEFECT D09: `pipe::OpenOptions::open_sender` / `open_receiver` never pass
//! O_NONBLOCK to open(2).
//! * Documented contract: "If the file is not opened in read-write access mode
//!   and the file is not currently open for reading, this function will fail
//!   with ENXIO."
//! * polling driver: the blocking open(O_WRONLY) runs on the thread pool and
//!   blocks until a reader shows up -> the future hangs, never ENXIO.
//! * io_uring driver: returns ENXIO (only because the kernel's first
//!   non-blocking attempt of IORING_OP_OPENAT adds O_NONBLOCK itself).
//! * open_receiver: io_uring returns at once, polling blocks until a writer
//!   opens the FIFO.
//! So the two drivers disagree, and one of them violates the documented result.
#![cfg(target_os = "linux")]
#![allow(unused_imports, dead_code)]
use std::{future::Future, io::Write, time::Duration};

use compio_buf::BufResult;
use compio_driver::{DriverType, ProactorBuilder};
use compio_fs::File;
use compio_runtime::{Runtime, RuntimeBuilder};

fn rt(ty: DriverType) -> Runtime {
    let mut pb = ProactorBuilder::new();
    pb.driver_type(ty);
    let rt = RuntimeBuilder::new().with_proactor(pb).build().unwrap();
    assert_eq!(rt.driver_type(), ty, "build with --features compio-driver/polling,compio-driver/io-uring");
    rt
}

fn run<F: Future<Output = String>>(ty: DriverType, f: impl FnOnce() -> F) -> String {
    let s = rt(ty).block_on(f());
    eprintln!("{ty:?}: {s}");
    s
}

fn vec_with(init: &[u8], cap: usize) -> Vec<u8> {
    let mut v = Vec::with_capacity(cap);
    v.extend_from_slice(init);
    v
}

fn k<T>(r: std::io::Result<T>) -> Result<T, std::io::ErrorKind> {
    r.map_err(|e| e.kind())
}

use std::os::unix::fs::OpenOptionsExt;

async fn sender_case() -> String {
    let dir = tempfile::tempdir().unwrap();
    let p = dir.path().join("fifo");
    nix::unistd::mkfifo(&p, nix::sys::stat::Mode::S_IRWXU).unwrap();
    let oo = compio_fs::pipe::OpenOptions::new();
    let r = compio_runtime::time::timeout(Duration::from_millis(500), oo.open_sender(&p)).await;
    let s = match r {
        Err(_) => "HANG (500ms timeout)".to_string(),
        Ok(r) => format!("{:?}", r.map(|_| ()).map_err(|e| e.raw_os_error())),
    };
    // unblock the worker stuck in open(2) so that the test can finish
    let _rd = std::fs::OpenOptions::new().read(true).custom_flags(libc::O_NONBLOCK).open(&p);
    compio_runtime::time::sleep(Duration::from_millis(50)).await;
    s
}

async fn receiver_case() -> String {
    let dir = tempfile::tempdir().unwrap();
    let p = dir.path().join("fifo");
    nix::unistd::mkfifo(&p, nix::sys::stat::Mode::S_IRWXU).unwrap();
    let oo = compio_fs::pipe::OpenOptions::new();
    let r = compio_runtime::time::timeout(Duration::from_millis(500), oo.open_receiver(&p)).await;
    let s = match r {
        Err(_) => "HANG (500ms timeout)".to_string(),
        Ok(r) => format!("{:?}", r.map(|_| ()).map_err(|e| e.raw_os_error())),
    };
    let _rw = std::fs::OpenOptions::new().read(true).write(true).open(&p);
    compio_runtime::time::sleep(Duration::from_millis(50)).await;
    s
}

#[test]
fn open_sender_without_reader_iour() {
    assert_eq!(run(DriverType::IoUring, sender_case), format!("Err(Some({}))", libc::ENXIO));
}

#[test]
fn open_sender_without_reader_poll() {
    assert_eq!(run(DriverType::Poll, sender_case), format!("Err(Some({}))", libc::ENXIO));
}

#[test]
fn open_receiver_without_writer_same_on_both_drivers() {
    let a = run(DriverType::IoUring, receiver_case);
    let b = run(DriverType::Poll, receiver_case);
    assert_eq!(a, b);
}
