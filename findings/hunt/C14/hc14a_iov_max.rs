//! Both drivers: vectored socket ops hand every segment to the kernel, so a
//! vectored buffer with more than IOV_MAX (1024) segments fails with EMSGSIZE
//! instead of transferring (a prefix of) the data.
//!
//! Run:
//!   cargo test --offline -p compio --features polling,net,time,macros,io-ancillary \
//!       --test hc14a_iov_max -- --nocapture --test-threads 1

use std::time::Duration;

use compio::{
    driver::DriverType,
    io::{AsyncRead, AsyncWrite},
    net::{TcpListener, TcpStream},
    runtime::time::timeout,
};

const T: Duration = Duration::from_millis(1000);

async fn scenario() {
    let l = TcpListener::bind("127.0.0.1:0").await.unwrap();
    let addr = l.local_addr().unwrap();
    let (mut c, (mut s, _)) =
        futures_util::try_join!(TcpStream::connect(addr), l.accept()).unwrap();

    let mut results = vec![];
    for n in [1024usize, 1025, 3000] {
        let bufs: Vec<Vec<u8>> = (0..n).map(|i| vec![i as u8]).collect();
        let r = c.write_vectored(bufs).await.0;
        println!("write_vectored with {n} one-byte segments -> {r:?}");
        results.push(r);
    }
    c.write(vec![1u8; 4000]).await.0.unwrap();
    compio::runtime::time::sleep(Duration::from_millis(50)).await;
    for n in [1024usize, 1025] {
        let bufs: Vec<Vec<u8>> = (0..n).map(|_| Vec::with_capacity(1)).collect();
        let r = timeout(T, s.read_vectored(bufs)).await.unwrap().0;
        println!("read_vectored  with {n} one-byte segments -> {r:?}");
        results.push(r);
    }
    for r in results {
        assert!(r.is_ok(), "vectored op failed: {r:?}");
    }
}

#[compio_macros::test(with_proactor(driver_type = DriverType::IoUring))]
async fn iov_max_uring() {
    scenario().await
}

#[compio_macros::test(with_proactor(driver_type = DriverType::Poll))]
async fn iov_max_poll() {
    scenario().await
}
