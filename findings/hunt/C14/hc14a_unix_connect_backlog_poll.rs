//! Polling driver: `UnixStream::connect` reports success for a socket that
//! was never connected when the listener backlog is full.
//!
//! Run:
//!   cargo test --offline -p compio --features polling,net,time,macros,io-ancillary \
//!       --test hc14a_unix_connect_backlog_poll -- --nocapture --test-threads 1
//!
//! `connect(2)` on a non-blocking AF_UNIX stream socket whose listener has a
//! full accept queue returns EAGAIN (not EINPROGRESS): no connection attempt
//! is left in progress, the caller must call connect() again. The polling
//! `Connect` op treats EAGAIN like EINPROGRESS: it waits for writability
//! (an unconnected unix socket is always writable) and then only reads
//! SO_ERROR (0), so it reports Ok(()) for an unconnected socket.

use std::time::Duration;

use compio::{
    driver::DriverType,
    io::{AsyncRead, AsyncWrite},
    net::{UnixSocket, UnixStream},
};
use futures_util::FutureExt;

async fn scenario() {
    let dir = tempfile::tempdir().unwrap();
    let path = dir.path().join("hc14a.sock");

    // backlog 0 => the kernel queues exactly one not-yet-accepted connection.
    let sock = UnixSocket::new_stream().await.unwrap();
    sock.bind(&path).await.unwrap();
    let listener = sock.listen(0).await.unwrap();

    // first connection fills the accept queue
    let mut c1 = UnixStream::connect(&path).await.unwrap();
    // second connect: kernel answers EAGAIN. A correct implementation keeps
    // waiting/retrying (like the io_uring driver and blocking connect do) or
    // returns an error; it must not claim success.
    let c2 = compio::runtime::time::timeout(Duration::from_millis(300), UnixStream::connect(&path))
        .await;

    let mut c2 = match c2 {
        Err(_) => {
            println!("second connect is still pending while backlog is full: OK");
            return;
        }
        Ok(Err(e)) => {
            println!("second connect failed with {e:?}: acceptable");
            return;
        }
        Ok(Ok(c2)) => c2,
    };
    println!("second connect returned Ok while the accept queue is full");
    println!("c2.peer_addr() = {:?}", c2.peer_addr());

    // The sender believes it has a connection. Send on both.
    let r1 = c1.write(b"one").await.0;
    let r2 = c2.write(b"two").await.0;
    println!("c1.write = {r1:?}, c2.write = {r2:?}");

    // Accept everything that the listener ever yields.
    let mut accepted = 0;
    loop {
        let acc = compio::runtime::time::timeout(Duration::from_millis(300), listener.accept())
            .await;
        match acc {
            Ok(Ok((mut s, _))) => {
                accepted += 1;
                let (n, buf) = s.read(Vec::with_capacity(16)).now_or_never().map_or(
                    (0, vec![]),
                    |r| {
                        let (n, b) = r.unwrap();
                        (n, b)
                    },
                );
                println!("accepted #{accepted}: read {n} bytes {:?}", &buf[..n]);
            }
            _ => break,
        }
    }
    assert_eq!(
        accepted, 2,
        "two connects reported success, but the listener yielded {accepted} connection(s)"
    );
    assert!(r2.is_ok(), "write on a 'connected' stream failed: {r2:?}");
}

#[compio_macros::test(with_proactor(driver_type = DriverType::Poll))]
async fn unix_connect_full_backlog_poll() {
    scenario().await
}

// Control: the same scenario on the default (io_uring) driver.
#[compio_macros::test]
async fn unix_connect_full_backlog_default_driver() {
    scenario().await
}
