//! io_uring driver: `UnixStream::write_zerocopy{,_vectored}` never sends
//! anything, it always fails with EOPNOTSUPP, while the polling driver (and
//! kernels without SEND_ZC, through `create_entry_fallback`) send the data
//! with a plain send.
//!
//! Run:
//!   cargo test --offline -p compio --features polling,net,time,macros,io-ancillary \
//!       --test hc14a_unix_zerocopy_uring -- --nocapture --test-threads 1

use std::time::Duration;

use compio::{
    buf::BufResult,
    driver::DriverType,
    io::{AsyncRead, AsyncWriteZerocopy},
    net::{UnixListener, UnixStream},
    runtime::time::timeout,
};

async fn unix_zc() {
    let dir = tempfile::tempdir().unwrap();
    let p = dir.path().join("s.sock");
    let l = UnixListener::bind(&p).await.unwrap();
    let (mut c, (mut s, _)) =
        futures_util::try_join!(UnixStream::connect(&p), l.accept()).unwrap();

    let BufResult(r1, fut) = c.write_zerocopy(b"hello".to_vec()).await;
    println!("UnixStream::write_zerocopy          -> {r1:?}");
    let _ = fut.await;
    let BufResult(r2, fut) = c
        .write_zerocopy_vectored([b"wor".to_vec(), b"ld".to_vec()])
        .await;
    println!("UnixStream::write_zerocopy_vectored -> {r2:?}");
    let _ = fut.await;

    let r = timeout(Duration::from_millis(300), s.read(Vec::with_capacity(16))).await;
    match &r {
        Ok(BufResult(Ok(n), b)) => println!("peer read {n} bytes: {:?}", String::from_utf8_lossy(b)),
        Ok(BufResult(Err(e), _)) => println!("peer read failed: {e:?}"),
        Err(_) => println!("peer read: nothing arrived"),
    }
    assert_eq!(r1.unwrap(), 5);
    assert_eq!(r2.unwrap(), 5);
}

#[compio_macros::test(with_proactor(driver_type = DriverType::IoUring))]
async fn unix_zerocopy_uring() {
    unix_zc().await
}

// control
#[compio_macros::test(with_proactor(driver_type = DriverType::Poll))]
async fn unix_zerocopy_poll() {
    unix_zc().await
}
