//! io_uring driver: dropping a multishot stream (`read_multi`, `incoming`)
//! silently discards data / connections that the kernel already handed to the
//! multishot operation.
//!
//! Run:
//!   cargo test --offline -p compio --features polling,net,time,macros,io-ancillary \
//!       --test hc14a_multishot_drop_loses_data -- --nocapture --test-threads 1
//!
//! `*_poll` variants are controls (single-shot fallback): they pass.

use std::{io::Write, time::Duration};

use compio::{
    driver::DriverType,
    io::{AsyncRead, AsyncReadMulti},
    net::TcpListener,
    runtime::time::timeout,
};
use futures_util::StreamExt;

const T: Duration = Duration::from_millis(1000);

/// Receiver takes ONE item from `read_multi`, drops the stream and goes on
/// with plain `read`. The peer sent "AAAA", "BBBB", "CCCC".
async fn read_multi_then_read() {
    let l = TcpListener::bind("127.0.0.1:0").await.unwrap();
    let addr = l.local_addr().unwrap();
    let th = std::thread::spawn(move || {
        let mut c = std::net::TcpStream::connect(addr).unwrap();
        c.set_nodelay(true).unwrap();
        std::thread::sleep(Duration::from_millis(100));
        c.write_all(b"AAAA").unwrap();
        std::thread::sleep(Duration::from_millis(50));
        c.write_all(b"BBBB").unwrap();
        std::thread::sleep(Duration::from_millis(400));
        c.write_all(b"CCCC").unwrap();
        std::thread::sleep(Duration::from_millis(200));
        // drop => FIN
    });
    let (mut s, _) = l.accept().await.unwrap();
    let mut got = Vec::new();
    {
        let mut st = std::pin::pin!(s.read_multi(0));
        // arm the multishot receive
        assert!(timeout(Duration::from_millis(10), st.next()).await.is_err());
        // The runtime thread is busy while "AAAA" and "BBBB" arrive: two CQEs
        // are waiting when the stream is polled the next time.
        std::thread::sleep(Duration::from_millis(300));
        let b = timeout(T, st.next()).await.unwrap().unwrap().unwrap();
        got.extend_from_slice(&b);
        // stream dropped here
    }
    loop {
        let (n, b) = timeout(T, s.read(Vec::with_capacity(64))).await.unwrap().unwrap();
        if n == 0 {
            break;
        }
        got.extend_from_slice(&b);
    }
    th.join().unwrap();
    let got = String::from_utf8_lossy(&got).to_string();
    println!("receiver observed {got:?}");
    assert_eq!(got, "AAAABBBBCCCC", "bytes were lost between read_multi and read");
}

/// Listener takes ONE connection from `incoming()`, drops the stream and goes
/// on with `accept()`. Two clients connected.
async fn incoming_then_accept() {
    let l = TcpListener::bind("127.0.0.1:0").await.unwrap();
    let addr = l.local_addr().unwrap();
    let th = std::thread::spawn(move || {
        std::thread::sleep(Duration::from_millis(100));
        let mut c1 = std::net::TcpStream::connect(addr).unwrap();
        let mut c2 = std::net::TcpStream::connect(addr).unwrap();
        c1.write_all(b"1").unwrap();
        c2.write_all(b"2").unwrap();
        std::thread::sleep(Duration::from_millis(1500));
        (c1, c2)
    });
    let mut seen = vec![];
    {
        let mut inc = std::pin::pin!(l.incoming());
        assert!(timeout(Duration::from_millis(10), inc.next()).await.is_err());
        std::thread::sleep(Duration::from_millis(300));
        let mut s = timeout(T, inc.next()).await.unwrap().unwrap().unwrap();
        let (_, b) = s.read(Vec::with_capacity(1)).await.unwrap();
        seen.push(b[0] as char);
    }
    match timeout(T, l.accept()).await {
        Ok(Ok((mut s, _))) => {
            let (_, b) = s.read(Vec::with_capacity(1)).await.unwrap();
            seen.push(b[0] as char);
        }
        Ok(Err(e)) => println!("second accept failed: {e:?}"),
        Err(_) => println!("second accept: timed out, no connection pending"),
    }
    println!("connections yielded: {seen:?}");
    let _ = th.join().unwrap();
    assert_eq!(seen.len(), 2, "a connection that was established was never yielded");
}

#[compio_macros::test(with_proactor(driver_type = DriverType::IoUring))]
async fn read_multi_then_read_uring() {
    read_multi_then_read().await
}

#[compio_macros::test(with_proactor(driver_type = DriverType::Poll))]
async fn read_multi_then_read_poll() {
    read_multi_then_read().await
}

#[compio_macros::test(with_proactor(driver_type = DriverType::IoUring))]
async fn incoming_then_accept_uring() {
    incoming_then_accept().await
}

#[compio_macros::test(with_proactor(driver_type = DriverType::Poll))]
async fn incoming_then_accept_poll() {
    incoming_then_accept().await
}
