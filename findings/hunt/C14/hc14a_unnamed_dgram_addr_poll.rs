//! Polling driver: `RecvFrom` / `RecvFromVectored` report a bogus source
//! address (128 bytes, family AF_UNSPEC) for a datagram that has no source
//! address; the io_uring driver reports `None`.
//!
//! `copy_addr_from` (compio-driver/src/sys/pal/unix/socket.rs) returns early
//! for `None` and leaves `addr_len` at its initial value
//! `size_of::<sockaddr_storage>()`, so `RecvFromHeader::into_addr` yields
//! `Some(..)`.
//!
//! Run:
//!   cargo test --offline -p compio --features polling,net,time,macros,io-ancillary \
//!       --test hc14a_unnamed_dgram_addr_poll -- --nocapture --test-threads 1

use std::{os::fd::OwnedFd, time::Duration};

use compio::{
    buf::{BufResult, IntoInner},
    driver::{
        DriverType, SharedFd,
        op::{RecvFlags, RecvFrom, RecvFromVectored},
    },
    runtime::time::timeout,
};

const T: Duration = Duration::from_millis(1000);

async fn scenario() {
    let (a, b) = std::os::unix::net::UnixDatagram::pair().unwrap();
    a.set_nonblocking(true).unwrap();
    b.set_nonblocking(true).unwrap();
    let bfd: OwnedFd = b.into();
    let bfd = SharedFd::new(bfd);

    a.send(b"x1").unwrap();
    let op = RecvFrom::new(bfd.clone(), Vec::with_capacity(8), RecvFlags::empty());
    let BufResult(r, op) = timeout(T, compio::runtime::submit(op)).await.unwrap();
    let (_, addr1) = op.into_inner();
    println!(
        "RecvFrom:         r={r:?} addr={:?}",
        addr1.as_ref().map(|a| format!("len={} family={}", a.len(), a.family()))
    );

    a.send(b"x2").unwrap();
    let op = RecvFromVectored::new(bfd.clone(), [Vec::with_capacity(8)], RecvFlags::empty());
    let BufResult(r, op) = timeout(T, compio::runtime::submit(op)).await.unwrap();
    let (_, addr2) = op.into_inner();
    println!(
        "RecvFromVectored: r={r:?} addr={:?}",
        addr2.as_ref().map(|a| format!("len={} family={}", a.len(), a.family()))
    );
    assert!(addr1.is_none(), "datagram without source address got {addr1:?}");
    assert!(addr2.is_none(), "datagram without source address got {addr2:?}");
}

#[compio_macros::test(with_proactor(driver_type = DriverType::Poll))]
async fn unnamed_dgram_addr_poll() {
    scenario().await
}

// control
#[compio_macros::test(with_proactor(driver_type = DriverType::IoUring))]
async fn unnamed_dgram_addr_uring() {
    scenario().await
}
