//! Polling driver (fallback buffer pool): `BufferRef::set_capacity` truncates
//! the requested length with `cap as u32`. A length that is a multiple of
//! 2^32 becomes capacity 0: the receive is issued with an empty buffer, so
//!   * on TCP `read_managed` returns `Ok(None)` (end of stream) although
//!     data is pending and the peer did not shut down;
//!   * on UDP the datagram is dequeued into the empty buffer and lost, and
//!     `recv_from_managed` returns `Ok(None)`.
//! The documentation says "if len > 0, min(len, inner buffer size) will be the
//! read max len".
//!
//! Run:
//!   cargo test --offline -p compio --features polling,net,time,macros,io-ancillary \
//!       --test hc14a_managed_len_wrap_poll -- --nocapture --test-threads 1

use std::time::Duration;

use compio::{
    driver::DriverType,
    io::{AsyncReadManaged, AsyncWrite},
    net::{TcpListener, TcpStream, UdpSocket},
    runtime::time::timeout,
};

const T: Duration = Duration::from_millis(1000);
const LEN: usize = 1usize << 32;

async fn scenario() {
    let l = TcpListener::bind("127.0.0.1:0").await.unwrap();
    let addr = l.local_addr().unwrap();
    let (mut c, (mut s, _)) =
        futures_util::try_join!(TcpStream::connect(addr), l.accept()).unwrap();
    c.write(b"hello".to_vec()).await.0.unwrap();
    compio::runtime::time::sleep(Duration::from_millis(50)).await;
    let tcp = timeout(T, s.read_managed(LEN)).await.unwrap();
    println!(
        "tcp read_managed(1<<32)      -> {:?}",
        tcp.as_ref().map(|b| b.as_ref().map(|b| String::from_utf8_lossy(b).to_string()))
    );

    let a = UdpSocket::bind("127.0.0.1:0").await.unwrap();
    let b = UdpSocket::bind("127.0.0.1:0").await.unwrap();
    let ba = b.local_addr().unwrap();
    a.send_to(b"dgram-1", ba).await.0.unwrap();
    a.send_to(b"dgram-2", ba).await.0.unwrap();
    compio::runtime::time::sleep(Duration::from_millis(50)).await;
    let u1 = timeout(T, b.recv_from_managed(LEN)).await.unwrap();
    let u1 = u1.map(|b| b.map(|(b, _)| String::from_utf8_lossy(&b).to_string()));
    println!("udp recv_from_managed(1<<32) -> {u1:?}");
    let u2 = timeout(T, b.recv_from_managed(0)).await.unwrap();
    let u2 = u2.map(|b| b.map(|(b, _)| String::from_utf8_lossy(&b).to_string()));
    println!("udp recv_from_managed(0)     -> {u2:?}");

    // An error (like the io_uring driver's InvalidInput for TCP) would be
    // acceptable; a silent end-of-stream / a silently dropped datagram is not.
    if let Ok(r) = &tcp {
        assert!(r.is_some(), "false end-of-stream: 5 bytes are pending, peer did not shut down");
    }
    if let Ok(r) = &u1 {
        assert_eq!(r.as_deref(), Some("dgram-1"), "first datagram was consumed and dropped");
    }
}

#[compio_macros::test(with_proactor(driver_type = DriverType::Poll))]
async fn managed_len_wrap_poll() {
    scenario().await
}

// control
#[compio_macros::test(with_proactor(driver_type = DriverType::IoUring))]
async fn managed_len_wrap_uring() {
    scenario().await
}
