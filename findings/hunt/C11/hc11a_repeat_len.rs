//! `Repeat::read` fills the whole capacity from index 0 and then calls
//! `advance(len)` (relative) instead of `advance_to(len)` (absolute): for a
//! buffer that already holds initialised bytes the resulting length exceeds
//! the capacity (undefined behaviour for `Vec::set_len`).
use compio_buf::BufResult;
use compio_io::{AsyncRead, AsyncReadExt, repeat};
use futures_executor::block_on;

#[test]
fn repeat_read_into_initialised_vec() {
    block_on(async {
        // reference: the same with an in-memory slice reader
        let (n, buf) = (&[42u8; 16][..]).read(vec![0u8; 3]).await.unwrap();
        assert_eq!((n, buf.len()), (3, 3));

        let buf = vec![0u8; 3];
        let cap = buf.capacity();
        let BufResult(res, buf) = repeat(42).read(buf).await;
        assert_eq!(res.unwrap(), cap);
        // only look at len / capacity: the content beyond capacity is not ours
        assert!(
            buf.len() <= buf.capacity(),
            "len {} > capacity {}",
            buf.len(),
            buf.capacity()
        );
        std::mem::forget(buf);
    })
}

#[test]
fn repeat_read_exact_into_initialised_vec() {
    block_on(async {
        let buf = vec![0u8; 3];
        let BufResult(res, buf) = repeat(42).read_exact(buf).await;
        res.unwrap();
        assert!(
            buf.len() <= buf.capacity(),
            "len {} > capacity {}",
            buf.len(),
            buf.capacity()
        );
        std::mem::forget(buf);
    })
}

#[test]
fn repeat_read_partially_initialised_vec() {
    block_on(async {
        let mut buf = Vec::with_capacity(8);
        buf.extend_from_slice(b"abc");
        let cap = buf.capacity();
        let BufResult(res, buf) = repeat(42).read(buf).await;
        assert_eq!(res.unwrap(), cap);
        assert!(
            buf.len() <= buf.capacity(),
            "len {} > capacity {}",
            buf.len(),
            buf.capacity()
        );
        std::mem::forget(buf);
    })
}
