//! Vectored reads from in-memory readers (`&[u8]`, `Cursor`, `[u8]::read_vectored_at`,
//! `BufReader::read_vectored`, `Repeat`) publish the new lengths with
//! `SetLenExt::advance_vec_to`, which compares the number of bytes read with the
//! *sum* of the initialised lengths of all buffers. If a later buffer already
//! holds initialised bytes, the bytes written to an earlier buffer are never
//! made visible (lost), or an already initialised buffer is truncated.
use std::io::Cursor;

use compio_buf::{BufResult, IoBufMut, IoVectoredBufMut};
use compio_io::{AsyncRead, AsyncReadAt, AsyncReadExt, BufReader};
use futures_executor::block_on;

#[test]
fn slice_read_vectored_loses_first_buffer() {
    block_on(async {
        let mut src = &b"ab"[..];
        // reference: the same read into a single buffer
        let (n, one) = (&b"ab"[..]).read(Vec::with_capacity(4)).await.unwrap();
        assert_eq!((n, &one[..]), (2, &b"ab"[..]));

        let bufs = [Vec::with_capacity(4), vec![b'x'; 3]];
        let (n, bufs) = src.read_vectored(bufs).await.unwrap();
        assert_eq!(n, 2);
        assert!(src.is_empty());
        // 2 bytes were reported as read: they must be visible somewhere
        assert_eq!(bufs[0], b"ab", "the bytes read were lost");
        assert_eq!(bufs[1], b"xxx");
    })
}

#[test]
fn cursor_read_vectored_loses_first_buffer() {
    block_on(async {
        let mut src = Cursor::new(b"abc".to_vec());
        let bufs = [Vec::with_capacity(2), vec![b'x'; 3]];
        let (n, bufs) = src.read_vectored(bufs).await.unwrap();
        assert_eq!(n, 3);
        assert_eq!(src.position(), 3);
        assert_eq!(bufs[0], b"ab", "the bytes read were lost");
        assert_eq!(bufs[1], b"cxx");
    })
}

#[test]
fn read_vectored_at_loses_first_buffer() {
    block_on(async {
        let src = *b"abc";
        let bufs = [Vec::with_capacity(2), vec![b'x'; 3]];
        let (n, bufs) = src.read_vectored_at(bufs, 0).await.unwrap();
        assert_eq!(n, 3);
        assert_eq!(bufs[0], b"ab", "the bytes read were lost");
        assert_eq!(bufs[1], b"cxx");
    })
}

#[test]
fn read_vectored_truncates_initialised_buffer() {
    block_on(async {
        // single buffer reference: a short read keeps the length of an
        // initialised buffer
        let (n, one) = (&b"abcd"[..]).read(vec![b'x'; 6]).await.unwrap();
        assert_eq!((n, &one[..]), (4, &b"abcdxx"[..]));

        let mut src = &b"abcd"[..];
        let bufs = [Vec::with_capacity(2), vec![b'x'; 3]];
        let (n, bufs) = src.read_vectored(bufs).await.unwrap();
        assert_eq!(n, 4);
        assert_eq!(bufs[0], b"ab");
        assert_eq!(bufs[1], b"cdx", "initialised tail was cut off");
    })
}

/// A reader that hands out its data in chunks, delegating to compio's own
/// `&[u8]` implementation.
struct Chunked<'a> {
    data: &'a [u8],
    chunk: usize,
}

impl AsyncRead for Chunked<'_> {
    async fn read<B: IoBufMut>(&mut self, buf: B) -> BufResult<usize, B> {
        let n = self.chunk.min(self.data.len());
        let mut head = &self.data[..n];
        let BufResult(res, buf) = head.read(buf).await;
        let read = res.unwrap();
        self.data = &self.data[read..];
        BufResult(Ok(read), buf)
    }

    async fn read_vectored<V: IoVectoredBufMut>(&mut self, buf: V) -> BufResult<usize, V> {
        let n = self.chunk.min(self.data.len());
        let mut head = &self.data[..n];
        let BufResult(res, buf) = head.read_vectored(buf).await;
        let read = res.unwrap();
        self.data = &self.data[read..];
        BufResult(Ok(read), buf)
    }
}

#[test]
fn read_vectored_exact_chunked_into_mixed_buffers() {
    block_on(async {
        let data = b"0123456";
        for chunk in 1..=7 {
            let mut r = Chunked { data, chunk };
            let bufs = [Vec::with_capacity(4), vec![b'x'; 3]];
            let ((), bufs) = r.read_vectored_exact(bufs).await.unwrap();
            assert_eq!(bufs[0], b"0123", "chunk {chunk}");
            assert_eq!(bufs[1], b"456", "chunk {chunk}");
        }
    })
}

#[test]
fn bufreader_read_vectored_consumes_but_loses_bytes() {
    block_on(async {
        let mut r = BufReader::with_capacity(2, &b"abcdef"[..]);
        let bufs = [Vec::with_capacity(4), vec![b'x'; 3]];
        // the internal buffer holds "ab": 2 bytes are consumed from it
        let (n, bufs) = r.read_vectored(bufs).await.unwrap();
        assert_eq!(n, 2);
        let (_, rest) = r.read_to_end(vec![]).await.unwrap();
        assert_eq!(rest, b"cdef");
        assert_eq!(bufs[0], b"ab", "2 bytes consumed from the stream are nowhere");
    })
}

#[test]
fn tuple_buffers_are_truncated() {
    block_on(async {
        let mut src = &b"abcd"[..];
        // 4 bytes fill the first buffer exactly; the second one is not touched
        let bufs = (Vec::with_capacity(4), (vec![b'x'; 3],));
        let (n, (a, (b,))) = src.read_vectored(bufs).await.unwrap();
        assert_eq!(n, 4);
        assert_eq!(a, b"abcd");
        assert_eq!(b, b"xxx", "untouched initialised buffer was truncated");
    })
}
