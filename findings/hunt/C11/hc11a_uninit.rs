//! `Uninit` (returned by `IoBufMutExt::uninit`, documented as "always points to
//! the uninitialized area even after reading in some bytes ... useful for
//! writing data into buffer without overwriting any existing bytes") moves its
//! `as_uninit()` window forward after every `set_len`, but `set_len`, `as_init`
//! and `slice(n..)` keep counting from the original start. Every helper that
//! touches the buffer more than once (read_exact with short reads,
//! `extend_from_slice` / `Writer`) therefore puts the second chunk at the wrong
//! place and publishes bytes that were never written.
use std::io::Write;

use compio_buf::{BufResult, IntoInner, IoBufMut, IoBufMutExt};
use compio_io::{AsyncRead, AsyncReadExt};
use futures_executor::block_on;

/// `cap` bytes of physically initialised (0xEE) memory, logical length `pre`
fn prefilled(pre: &[u8], cap: usize) -> Vec<u8> {
    let mut v = vec![0xEEu8; cap];
    v.truncate(0);
    v.extend_from_slice(pre);
    assert_eq!(v.capacity(), cap);
    v
}

struct Chunked<'a>(&'a [u8], usize);

impl AsyncRead for Chunked<'_> {
    async fn read<B: IoBufMut>(&mut self, buf: B) -> BufResult<usize, B> {
        let n = self.1.min(self.0.len());
        let mut head = &self.0[..n];
        let BufResult(res, buf) = head.read(buf).await;
        let read = res.unwrap();
        self.0 = &self.0[read..];
        BufResult(Ok(read), buf)
    }
}

#[test]
fn read_exact_into_uninit_part_one_chunk() {
    block_on(async {
        let buf = prefilled(b"keep", 10);
        let mut r = Chunked(b"012345", 6);
        let ((), buf) = r.read_exact(buf.uninit()).await.unwrap();
        assert_eq!(buf.into_inner(), b"keep012345");
    })
}

#[test]
fn read_exact_into_uninit_part_short_reads() {
    block_on(async {
        let buf = prefilled(b"keep", 10);
        let mut r = Chunked(b"012345", 2);
        let BufResult(res, buf) = r.read_exact(buf.uninit()).await;
        let buf = buf.into_inner();
        assert!(res.is_ok(), "{res:?}, buffer {buf:x?}");
        assert_eq!(buf, b"keep012345", "{buf:x?}");
    })
}

#[test]
fn writer_on_uninit_part() {
    let buf = prefilled(b"keep", 16);
    let mut w = buf.uninit().into_writer();
    w.write_all(b"ab").unwrap();
    w.write_all(b"cd").unwrap();
    let buf = w.into_inner().into_inner();
    assert_eq!(buf, b"keepabcd", "{buf:x?}");
}
