//! read_to_string / read_to_string_at append to the String, but on invalid
//! UTF-8 (or on an I/O error after invalid UTF-8 was read) the pre-existing
//! content of the String is thrown away.
use compio_io::{AsyncReadAtExt, AsyncReadExt};
use futures_executor::block_on;

#[test]
fn read_to_string_invalid_utf8_keeps_existing_content() {
    block_on(async {
        let mut src = &[b'a', 0xff, b'b'][..];
        let compio_buf::BufResult(res, s) = src.read_to_string(String::from("keep")).await;
        assert_eq!(res.unwrap_err().kind(), std::io::ErrorKind::InvalidData);
        assert_eq!(s, "keep", "pre-existing content of the buffer is lost");
    })
}

#[test]
fn read_to_string_at_invalid_utf8_keeps_existing_content() {
    block_on(async {
        let src = [b'a', 0xff, b'b'];
        let compio_buf::BufResult(res, s) = src.read_to_string_at(String::from("keep"), 0).await;
        assert_eq!(res.unwrap_err().kind(), std::io::ErrorKind::InvalidData);
        assert_eq!(s, "keep", "pre-existing content of the buffer is lost");
    })
}

#[test]
fn std_reference() {
    let mut s = String::from("keep");
    let mut src = &[b'a', 0xff, b'b'][..];
    assert!(std::io::Read::read_to_string(&mut src, &mut s).is_err());
    assert_eq!(s, "keep");
}
