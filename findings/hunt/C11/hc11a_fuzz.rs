use std::collections::VecDeque;

use compio_buf::{BufResult, IntoInner, IoBuf, IoBufMut, IoBufMutExt, SetLenExt};
use compio_io::{
    AsyncBufRead, AsyncRead, AsyncReadExt, AsyncWrite, AsyncWriteExt, BufReader, BufWriter,
};
use futures_executor::block_on;

#[derive(Clone, Copy, Debug)]
enum Step {
    Data(usize),
    Intr,
    Fail,
}

struct Rng(u64);
impl Rng {
    fn next(&mut self) -> u64 {
        self.0 ^= self.0 << 13;
        self.0 ^= self.0 >> 7;
        self.0 ^= self.0 << 17;
        self.0
    }
    fn below(&mut self, n: usize) -> usize {
        (self.next() % n as u64) as usize
    }
}

struct R {
    data: Vec<u8>,
    pos: usize,
    script: VecDeque<Step>,
}

impl AsyncRead for R {
    async fn read<B: IoBufMut>(&mut self, mut buf: B) -> BufResult<usize, B> {
        match self.script.pop_front().unwrap_or(Step::Data(usize::MAX)) {
            Step::Intr => BufResult(Err(std::io::ErrorKind::Interrupted.into()), buf),
            Step::Fail => BufResult(Err(std::io::ErrorKind::Other.into()), buf),
            Step::Data(n) => {
                let n = n.max(1).min(self.data.len() - self.pos).min(buf.buf_capacity());
                let dst = buf.as_uninit();
                for i in 0..n {
                    dst[i].write(self.data[self.pos + i]);
                }
                self.pos += n;
                unsafe { buf.advance_to(n) };
                BufResult(Ok(n), buf)
            }
        }
    }
}

struct W {
    out: Vec<u8>,
    script: VecDeque<Step>,
}

impl AsyncWrite for W {
    async fn write<T: IoBuf>(&mut self, buf: T) -> BufResult<usize, T> {
        match self.script.pop_front().unwrap_or(Step::Data(usize::MAX)) {
            Step::Intr => BufResult(Err(std::io::ErrorKind::Interrupted.into()), buf),
            Step::Fail => BufResult(Err(std::io::ErrorKind::Other.into()), buf),
            Step::Data(n) => {
                let n = n.max(1).min(buf.as_init().len());
                self.out.extend_from_slice(&buf.as_init()[..n]);
                BufResult(Ok(n), buf)
            }
        }
    }
    async fn flush(&mut self) -> std::io::Result<()> {
        Ok(())
    }
    async fn shutdown(&mut self) -> std::io::Result<()> {
        Ok(())
    }
}

fn script(rng: &mut Rng, intr: bool) -> VecDeque<Step> {
    (0..rng.below(40))
        .map(|_| {
            if intr && rng.below(4) == 0 {
                Step::Intr
            } else {
                Step::Data(1 + rng.below(5))
            }
        })
        .collect()
}

fn payload(rng: &mut Rng) -> Vec<u8> {
    (0..rng.below(60)).map(|_| rng.next() as u8).collect()
}

#[test]
fn fuzz_read_side() {
    block_on(async {
        let mut rng = Rng(0x1234_5678_9abc_def1);
        for iter in 0..20000 {
            let data = payload(&mut rng);
            let sc = script(&mut rng, true);
            let mk = |sc: &VecDeque<Step>| R { data: data.clone(), pos: 0, script: sc.clone() };
            // read_to_end with prefix
            let pre = rng.below(4);
            let cap = pre + rng.below(8);
            let mut v = Vec::with_capacity(cap);
            v.extend(std::iter::repeat(0xAA).take(pre));
            let (n, v) = mk(&sc).read_to_end(v).await.unwrap();
            assert_eq!(n, data.len(), "iter {iter}");
            assert_eq!(&v[..pre], &vec![0xAA; pre][..]);
            assert_eq!(&v[pre..], &data[..], "iter {iter}");

            // read_exact
            let want = rng.below(data.len() + 3);
            let BufResult(res, v) = mk(&sc).read_exact(Vec::with_capacity(want)).await;
            if want <= data.len() {
                res.unwrap();
                assert_eq!(&v[..], &data[..want], "iter {iter}");
            } else {
                assert_eq!(res.unwrap_err().kind(), std::io::ErrorKind::UnexpectedEof);
            }

            // read_exact into initialised buffer
            let BufResult(res, v) = mk(&sc).read_exact(vec![7u8; want]).await;
            if want <= data.len() {
                res.unwrap();
                assert_eq!(&v[..], &data[..want], "iter {iter}");
            }

            // vectored exact
            let a = rng.below(5);
            let b = rng.below(5);
            let c = rng.below(5);
            let bufs = [Vec::with_capacity(a), Vec::with_capacity(b), Vec::with_capacity(c)];
            let BufResult(res, bufs) = mk(&sc).read_vectored_exact(bufs).await;
            if a + b + c <= data.len() {
                res.unwrap();
                let cat: Vec<u8> = bufs.iter().flatten().copied().collect();
                assert_eq!(&cat[..], &data[..a + b + c], "iter {iter} {a} {b} {c}");
                assert_eq!((bufs[0].len(), bufs[1].len(), bufs[2].len()), (a, b, c));
            } else {
                assert_eq!(res.unwrap_err().kind(), std::io::ErrorKind::UnexpectedEof);
            }

            // vectored exact, fully initialised buffers
            let bufs = [vec![1u8; a], vec![2u8; b], vec![3u8; c]];
            let BufResult(res, bufs) = mk(&sc).read_vectored_exact(bufs).await;
            if a + b + c <= data.len() {
                res.unwrap();
                let cat: Vec<u8> = bufs.iter().flatten().copied().collect();
                assert_eq!(&cat[..], &data[..a + b + c], "iter {iter} {a} {b} {c}");
            }

            // take + read_to_end
            let limit = rng.below(data.len() + 3);
            let mut t = mk(&sc).take(limit as u64);
            let (n, v) = t.read_to_end(vec![]).await.unwrap();
            let exp = limit.min(data.len());
            assert_eq!((n, &v[..]), (exp, &data[..exp]), "iter {iter}");
            assert_eq!(t.limit(), (limit - exp) as u64);
            assert_eq!(t.into_inner().pos, exp);

            // bufreader + read_to_end
            let cap = 1 + rng.below(9);
            let mut br = BufReader::with_capacity(cap, mk(&sc));
            let (n, v) = br.read_to_end(vec![]).await.unwrap();
            assert_eq!((n, &v[..]), (data.len(), &data[..]), "iter {iter}");

            // bufreader + take + read_exact + rest
            let mut br = BufReader::with_capacity(cap, mk(&sc));
            let BufResult(res, v) = br.by_ref().take(limit as u64).read_exact(Vec::with_capacity(exp)).await;
            res.unwrap();
            assert_eq!(&v[..], &data[..exp]);
            let (_, v) = br.read_to_end(vec![]).await.unwrap();
            assert_eq!(&v[..], &data[exp..], "iter {iter}");

            // bufreader fill_buf/consume through take
            let mut t = BufReader::with_capacity(cap, mk(&sc)).take(limit as u64);
            let mut got = vec![];
            loop {
                match t.fill_buf().await {
                    Ok(s) if s.is_empty() => break,
                    Ok(s) => {
                        let k = 1 + rng.below(s.len());
                        got.extend_from_slice(&s[..k]);
                        t.consume(k);
                    }
                    Err(e) if e.kind() == std::io::ErrorKind::Interrupted => {}
                    Err(e) => panic!("{e}"),
                }
            }
            assert_eq!(&got[..], &data[..exp], "iter {iter}");

            // copy
            let mut r = mk(&sc);
            let mut w = W { out: vec![], script: script(&mut rng, true) };
            let n = compio_io::util::copy_with_size(&mut r, &mut w, 1 + rng.below(9)).await.unwrap();
            assert_eq!((n as usize, &w.out[..]), (data.len(), &data[..]), "iter {iter}");

            // append
            let mut v = Vec::with_capacity(pre + 5);
            v.extend(std::iter::repeat(0xAA).take(pre));
            let mut r = mk(&VecDeque::new());
            let (n, v) = r.append(v).await.unwrap();
            assert_eq!(n, data.len().min(v.capacity() - pre));
            assert_eq!(&v[pre..], &data[..n]);
        }
    })
}

#[test]
fn fuzz_write_side() {
    block_on(async {
        let mut rng = Rng(0xdead_beef_1234_5678);
        for iter in 0..20000 {
            let data = payload(&mut rng);
            let sc = script(&mut rng, true);
            let mut w = W { out: vec![], script: sc.clone() };
            w.write_all(data.clone()).await.unwrap();
            assert_eq!(w.out, data);

            let cut1 = rng.below(data.len() + 1);
            let cut2 = cut1 + rng.below(data.len() - cut1 + 1);
            let bufs = [data[..cut1].to_vec(), vec![], data[cut1..cut2].to_vec(), data[cut2..].to_vec()];
            let mut w = W { out: vec![], script: sc.clone() };
            w.write_vectored_all(bufs).await.unwrap();
            assert_eq!(w.out, data, "iter {iter}");

            // BufWriter without interruptions
            let sc2 = script(&mut rng, false);
            let cap = 1 + rng.below(9);
            let mut bw = BufWriter::with_capacity(cap, W { out: vec![], script: sc2.clone() });
            bw.write_all(data.clone()).await.unwrap();
            bw.flush().await.unwrap();
            assert_eq!(bw.into_inner().out, data, "iter {iter}");

            let bufs = [data[..cut1].to_vec(), vec![], data[cut1..cut2].to_vec(), data[cut2..].to_vec()];
            let mut bw = BufWriter::with_capacity(cap, W { out: vec![], script: sc2.clone() });
            bw.write_vectored_all(bufs).await.unwrap();
            bw.flush().await.unwrap();
            assert_eq!(bw.into_inner().out, data, "iter {iter}");
        }
    })
}
