use std::io::Cursor;

use compio_buf::BufResult;
use compio_io::{
    AsyncRead, AsyncReadAt, AsyncReadAtExt, AsyncReadExt, AsyncWrite, AsyncWriteAt, AsyncWriteAtExt, AsyncWriteExt,
};
use futures_executor::block_on;

struct Rng(u64);
impl Rng {
    fn next(&mut self) -> u64 {
        self.0 ^= self.0 << 13;
        self.0 ^= self.0 >> 7;
        self.0 ^= self.0 << 17;
        self.0
    }
    fn below(&mut self, n: usize) -> usize {
        (self.next() % n as u64) as usize
    }
}
fn payload(rng: &mut Rng, max: usize) -> Vec<u8> {
    (0..rng.below(max)).map(|_| rng.next() as u8).collect()
}

fn model_vec_write(v: &mut Vec<u8>, pos: usize, data: &[u8]) {
    if v.len() < pos + data.len() {
        if !data.is_empty() || pos > v.len() {
            v.resize((pos + data.len()).max(v.len()), 0);
        }
    }
    v[pos..pos + data.len()].copy_from_slice(data);
}

#[test]
fn fuzz_at() {
    block_on(async {
        let mut rng = Rng(0x9e37_79b9_7f4a_7c15);
        for iter in 0..20000 {
            let base = payload(&mut rng, 12);
            let data = payload(&mut rng, 12);
            let pos = rng.below(16);
            let cut = rng.below(data.len() + 1);
            let parts = [data[..cut].to_vec(), vec![], data[cut..].to_vec()];

            // Vec write_at
            let mut m = base.clone();
            model_vec_write(&mut m, pos, &data);
            let mut v = base.clone();
            let (n, _) = v.write_at(data.clone(), pos as u64).await.unwrap();
            assert_eq!(n, data.len());
            // zero-length write beyond end: files do not extend; model extends only when pos>len... accept both
            if !(data.is_empty() && pos > base.len()) {
                assert_eq!(v, m, "write_at iter {iter} base {base:?} data {data:?} pos {pos}");
            }
            let mut v2 = base.clone();
            let (n, _) = v2.write_vectored_at(parts.clone(), pos as u64).await.unwrap();
            assert_eq!(n, data.len());
            assert_eq!(v2, v, "write_vectored_at iter {iter} base {base:?} data {data:?} pos {pos} cut {cut}");
            let mut v3 = base.clone();
            v3.write_vectored_all_at(parts.clone(), pos as u64).await.unwrap();
            if !data.is_empty() { assert_eq!(v3, v); }

            // Cursor<Vec>
            let mut c = Cursor::new(base.clone());
            c.set_position(pos as u64);
            c.write_all(data.clone()).await.unwrap();
            assert_eq!(c.position(), (pos + data.len()) as u64);
            if !data.is_empty() {
                assert_eq!(c.get_ref(), &m);
            }
            let mut c = Cursor::new(base.clone());
            c.set_position(pos as u64);
            c.write_vectored_all(parts.clone()).await.unwrap();
            assert_eq!(c.position(), (pos + data.len()) as u64);
            if !data.is_empty() {
                assert_eq!(c.get_ref(), &m, "cursor vectored iter {iter}");
            }

            // [u8] write_at
            let mut s = base.clone();
            let p = pos.min(base.len());
            let k = data.len().min(base.len() - p);
            let mut ms = base.clone();
            ms[p..p + k].copy_from_slice(&data[..k]);
            let (n, _) = s.as_mut_slice().write_at(data.clone(), pos as u64).await.unwrap();
            assert_eq!((n, &s), (k, &ms));
            let mut s = base.clone();
            let (n, _) = s.as_mut_slice().write_vectored_at(parts.clone(), pos as u64).await.unwrap();
            assert_eq!((n, &s), (k, &ms), "slice write_vectored_at iter {iter} base {base:?} parts {parts:?} pos {pos}");
            // &mut [u8] sequential
            let mut s = base.clone();
            {
                let mut w = &mut s[p..];
                let (n, _) = w.write_vectored(parts.clone()).await.unwrap();
                assert_eq!(n, k);
                assert_eq!(w.len(), base.len() - p - k);
            }
            assert_eq!(s, ms);
            // Cursor<&mut [u8]>? only arrays/Vec/[u8]
            let mut arr = [0u8; 8];
            let mut c = Cursor::new(&mut arr[..]);
            c.set_position(pos as u64);
            let BufResult(res, _) = c.write_vectored_all(parts.clone()).await;
            if pos.min(8) + data.len() <= 8 {
                res.unwrap();
                if !data.is_empty() {
                    assert_eq!(&arr[pos..pos + data.len()], &data[..]);
                }
            } else {
                assert_eq!(res.unwrap_err().kind(), std::io::ErrorKind::WriteZero);
            }

            // reads
            let bigpos = [pos as u64, u64::MAX, u64::MAX - 1, base.len() as u64][rng.below(4)];
            let start = (bigpos.min(base.len() as u64)) as usize;
            let (n, b) = base.read_at(Vec::with_capacity(5), bigpos).await.unwrap();
            let exp = &base[start..(start + 5).min(base.len())];
            assert_eq!((n, &b[..]), (exp.len(), exp));
            let (n, b) = base.read_vectored_at([Vec::with_capacity(2), Vec::with_capacity(0), Vec::with_capacity(3)], bigpos).await.unwrap();
            let cat: Vec<u8> = b.iter().flatten().copied().collect();
            assert_eq!((n, &cat[..]), (exp.len(), exp));
            let (n, b) = base.read_to_end_at(vec![9, 9], bigpos).await.unwrap();
            assert_eq!((n, &b[2..]), (base.len() - start, &base[start..]));
            let BufResult(res, b) = base.read_exact_at(Vec::with_capacity(3), bigpos).await;
            if base.len() - start >= 3 {
                res.unwrap();
                assert_eq!(&b[..], &base[start..start + 3]);
            } else {
                assert_eq!(res.unwrap_err().kind(), std::io::ErrorKind::UnexpectedEof);
            }
            let BufResult(res, b) = base.read_vectored_exact_at([Vec::with_capacity(1), Vec::with_capacity(2)], bigpos).await;
            if base.len() - start >= 3 {
                res.unwrap();
                let cat: Vec<u8> = b.iter().flatten().copied().collect();
                assert_eq!(&cat[..], &base[start..start + 3]);
            } else {
                assert_eq!(res.unwrap_err().kind(), std::io::ErrorKind::UnexpectedEof);
            }
            let mut c = Cursor::new(base.clone());
            c.set_position(bigpos);
            let (n, b) = c.read_to_end(vec![]).await.unwrap();
            assert_eq!((n, &b[..]), (base.len() - start, &base[start..]));
            let mut c = Cursor::new(base.clone());
            c.set_position(bigpos);
            let (n, _) = c.read_vectored([Vec::with_capacity(2), Vec::with_capacity(3)]).await.unwrap();
            assert_eq!(n, exp.len());
        }
    })
}
