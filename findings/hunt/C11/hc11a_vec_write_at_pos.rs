//! `Vec<u8>::write_at` / `write_vectored_at` (and `Cursor<Vec<u8>>`) with a
//! position far beyond the end: arithmetic overflow / capacity overflow panic
//! instead of an error.
//! (std's `Cursor<Vec<u8>>` also panics with `capacity overflow` on 64-bit targets for such
//! positions and only reports `InvalidInput` when the position does not fit `usize`.)
use std::io::Cursor;

use compio_io::{AsyncWrite, AsyncWriteAt, AsyncWriteAtExt};
use futures_executor::block_on;

#[test]
fn vec_write_at_u64_max() {
    block_on(async {
        let mut v = Vec::<u8>::new();
        let res = v.write_at(b"x", u64::MAX).await;
        assert!(res.0.is_err());
    })
}

#[test]
fn vec_write_vectored_at_u64_max() {
    block_on(async {
        let mut v = Vec::<u8>::new();
        let res = v.write_vectored_at([b"x".to_vec()], u64::MAX).await;
        assert!(res.0.is_err());
    })
}

#[test]
fn vec_write_all_at_isize_max() {
    block_on(async {
        let mut v = Vec::<u8>::new();
        let res = v.write_all_at(b"x", isize::MAX as u64).await;
        assert!(res.0.is_err());
    })
}

#[test]
fn cursor_vec_write_at_u64_max() {
    block_on(async {
        let mut c = Cursor::new(Vec::<u8>::new());
        c.set_position(u64::MAX);
        let res = c.write(b"x").await;
        assert!(res.0.is_err());
    })
}
