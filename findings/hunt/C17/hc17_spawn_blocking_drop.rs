//! HC17 demonstration 2: a `spawn_blocking` job is lost when its handle is dropped early.

use std::{
    future::Future,
    pin::Pin,
    sync::{
        Arc,
        atomic::{AtomicBool, AtomicUsize, Ordering},
    },
    task::{Context, Poll},
    time::Duration,
};

use compio_runtime::Runtime;

struct YieldNow(bool);

impl Future for YieldNow {
    type Output = ();

    fn poll(mut self: Pin<&mut Self>, cx: &mut Context<'_>) -> Poll<()> {
        if self.0 {
            Poll::Ready(())
        } else {
            self.0 = true;
            cx.waker().wake_by_ref();
            Poll::Pending
        }
    }
}

fn yield_now() -> YieldNow {
    YieldNow(false)
}

/// `spawn_blocking` documents "The task will not be cancelled even if the
/// future is dropped", but the job is only handed to the pool when the helper
/// task is first polled; dropping the handle before that cancels the helper
/// task and the job is silently lost.
#[test]
fn dropped_handle_loses_job() {
    let ran = Arc::new(AtomicBool::new(false));
    let ran2 = ran.clone();
    Runtime::new().unwrap().block_on(async move {
        drop(compio_runtime::spawn_blocking(move || {
            ran2.store(true, Ordering::SeqCst);
        }));
        for _ in 0..50 {
            yield_now().await;
            Runtime::with_current(|rt| rt.poll_with(Some(Duration::from_millis(2))));
        }
    });
    assert!(
        ran.load(Ordering::SeqCst),
        "the blocking job was dropped without ever running"
    );
}

/// Same for a burst: N jobs submitted, handles dropped at once.
#[test]
fn dropped_handles_burst() {
    let ran = Arc::new(AtomicUsize::new(0));
    let ran2 = ran.clone();
    Runtime::new().unwrap().block_on(async move {
        let handles: Vec<_> = (0..16)
            .map(|_| {
                let ran = ran2.clone();
                compio_runtime::spawn_blocking(move || {
                    ran.fetch_add(1, Ordering::SeqCst);
                })
            })
            .collect();
        drop(handles);
        for _ in 0..50 {
            yield_now().await;
            Runtime::with_current(|rt| rt.poll_with(Some(Duration::from_millis(2))));
        }
    });
    assert_eq!(ran.load(Ordering::SeqCst), 16);
}

