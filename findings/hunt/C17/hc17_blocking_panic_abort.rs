//! HC17 demonstration 3: the panic of a blocking job is re-thrown from `Submit::drop` and aborts the process.

use std::{
    future::Future,
    pin::Pin,
    task::{Context, Poll},
    time::Duration,
};

use compio_runtime::Runtime;

struct YieldNow(bool);

impl Future for YieldNow {
    type Output = ();

    fn poll(mut self: Pin<&mut Self>, cx: &mut Context<'_>) -> Poll<()> {
        if self.0 {
            Poll::Ready(())
        } else {
            self.0 = true;
            cx.waker().wake_by_ref();
            Poll::Pending
        }
    }
}

fn yield_now() -> YieldNow {
    YieldNow(false)
}

/// A blocking job that panicked, whose handle is dropped after the completion
/// was delivered to the driver but before the helper task was polled again:
/// the panic payload is re-thrown from `Submit::drop` (via
/// `Proactor::cancel` -> `resume_unwind_io`).
#[test]
fn panic_rethrown_from_drop() {
    let rt = Runtime::new().unwrap();
    let res = std::panic::catch_unwind(std::panic::AssertUnwindSafe(|| {
        rt.block_on(async {
            let handle = compio_runtime::spawn_blocking(|| -> () { panic!("job panic") });
            // let the helper task run once: the job is pushed to the pool
            yield_now().await;
            // the job panics on the pool thread and its completion is queued
            std::thread::sleep(Duration::from_millis(200));
            // deliver the completion to the key (the helper task is only woken)
            for _ in 0..5 {
                Runtime::with_current(|rt| rt.poll_with(Some(Duration::from_millis(20))));
            }
            // the submitter loses interest
            drop(handle);
            for _ in 0..5 {
                yield_now().await;
            }
            42
        })
    }));
    match res {
        Ok(v) => assert_eq!(v, 42),
        Err(e) => panic!(
            "the runtime thread panicked although nobody awaited the job: {:?}",
            e.downcast_ref::<&str>()
        ),
    }
}
