//! D6: sibling `SetLen` implementations disagree.
//!
//! * `Vec<u8>` / `BytesMut` / `BufferRef`: `set_len(n)` sets the length to n
//!   (it can shrink), so `SetLenExt::clear()` empties the buffer.
//! * `ArrayVec<u8, N>` / `SmallVec<[u8; N]>`: `set_len(n)` is ignored when n is
//!   smaller than the current length, so `SetLenExt::clear()` ("Clear the
//!   buffer, setting its length to 0") does nothing, and neither does the
//!   `unsafe { buffer.set_len(0) }` that compio-io's `AncillaryBuilder::new`
//!   uses to reset a caller supplied buffer.
//! * `[T; N]` / `Vec<T>` / `[T]` (default_set_len) leave the members behind
//!   the cut untouched, `(T, Rest)` sets them to 0.

use compio_buf::*;

fn generic_clear<B: IoBufMut>(b: &mut B) {
    b.clear();
}

fn vec_with(content: &[u8], cap: usize) -> Vec<u8> {
    let mut v = Vec::with_capacity(cap);
    v.extend_from_slice(content);
    v
}

#[test]
fn clear_vec() {
    let mut b = vec_with(b"hello", 10);
    generic_clear(&mut b);
    assert_eq!(b.buf_len(), 0);
}

#[test]
fn clear_bytes_mut() {
    let mut b = bytes::BytesMut::with_capacity(10);
    b.extend_from_slice(b"hello");
    generic_clear(&mut b);
    assert_eq!(b.buf_len(), 0);
}

/// fails: left: 5, right: 0
#[test]
fn clear_arrayvec() {
    let mut b = arrayvec::ArrayVec::<u8, 10>::new();
    b.try_extend_from_slice(b"hello").unwrap();
    generic_clear(&mut b);
    assert_eq!(b.buf_len(), 0);
}

/// fails: left: 5, right: 0
#[test]
fn clear_smallvec() {
    let mut b = smallvec::SmallVec::<[u8; 10]>::new();
    b.extend_from_slice(b"hello");
    generic_clear(&mut b);
    assert_eq!(b.buf_len(), 0);
}

/// Reusing a buffer for a second, shorter message: clear, write, record.
/// Vec gives "abc"; ArrayVec gives "abclo".
#[test]
fn reuse_after_clear_arrayvec() {
    fn reuse<B: IoBufMut>(b: &mut B) {
        b.clear();
        for (d, s) in b.as_uninit().iter_mut().zip(b"abc") {
            d.write(*s);
        }
        unsafe { b.advance_to(3) };
    }
    let mut v = vec_with(b"hello", 10);
    reuse(&mut v);
    assert_eq!(v.as_init(), b"abc");

    let mut a = arrayvec::ArrayVec::<u8, 10>::new();
    a.try_extend_from_slice(b"hello").unwrap();
    reuse(&mut a);
    assert_eq!(a.as_init(), b"abc");
}

/// Vectored: the same `set_len(7)` on the same two members gives different
/// lengths depending on whether they sit in an array or in a tuple.
/// members: ["a" cap 10, "world" cap 10]; 7 bytes were written to the first.
#[test]
fn vectored_set_len_array_vs_tuple() {
    let mut arr = [vec_with(b"a", 10), vec_with(b"world", 10)];
    let mut tup = (vec_with(b"a", 10), (vec_with(b"world", 10),));
    for d in &mut arr[0].spare_capacity_mut()[..6] {
        d.write(b'x');
    }
    for d in &mut tup.0.spare_capacity_mut()[..6] {
        d.write(b'x');
    }
    // total_len() is 6 for both, so advance_vec_to(7) calls set_len(7)
    unsafe { arr.advance_vec_to(7) };
    unsafe { tup.advance_vec_to(7) };
    let arr_lens = (arr[0].len(), arr[1].len());
    let tup_lens = (tup.0.len(), tup.1.0.len());
    // array: (7, 5)  -- total_len() == 12 although 7 was recorded
    // tuple: (7, 0)  -- "world" is dropped although it was not in the written range
    assert_eq!(arr_lens, tup_lens);
}

/// The content behind the written range must stay: tuple flavour drops it.
#[test]
fn tuple_set_len_keeps_untouched_member() {
    let mut tup = (vec_with(b"a", 10), (vec_with(b"world", 10),));
    for d in &mut tup.0.spare_capacity_mut()[..6] {
        d.write(b'x');
    }
    unsafe { tup.advance_vec_to(7) };
    assert_eq!(tup.0.as_slice(), b"axxxxxx");
    assert_eq!(tup.1.0.as_slice(), b"world");
}
