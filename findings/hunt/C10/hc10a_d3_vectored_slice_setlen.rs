//! D3: `VectoredSlice::set_len` adds `begin` to the length and hands the sum
//! to the vectored buffer's `set_len`, which distributes it over the member
//! *capacities*. For a slice made by `IoVectoredBuf::slice(begin)`, `begin`
//! counts *initialized* bytes only (uninitialized gaps are skipped), so the sum
//! is in the wrong coordinate system whenever a skipped buffer has spare
//! capacity.
//!
//! The documentation of `VectoredSlice` explicitly allows this composition:
//! "This will only affect how the slice is being constructed. The resulting
//! slice will always expose all of the remaining bytes, no matter initialized
//! or not (in particular, `IoVectoredBufMut::iter_uninit_slice`)."

use compio_buf::*;

fn vec_with(content: &[u8], cap: usize) -> Vec<u8> {
    let mut v = Vec::with_capacity(cap);
    v.extend_from_slice(content);
    assert_eq!(v.capacity(), cap);
    // deterministic content of the spare capacity when not run under Miri
    if !cfg!(miri) {
        v.spare_capacity_mut().fill(std::mem::MaybeUninit::new(b'.'));
    }
    v
}

/// bufs = ["hello" cap 10, "world" cap 10]; `slice(6)` skips "hello" and "w".
/// The writable region starts at byte 1 of the second buffer. Write 6 bytes
/// there ("ORLD!!") and record them.
/// Expected: ["hello", "wORLD!!"].
/// Actual: `set_len(6 + 6 = 12)` => first.set_len(10), second.set_len(2):
/// the first Vec exposes 5 bytes that were never written and the second one is
/// truncated to "wO".
#[test]
fn slice_then_fill_second_buffer() {
    let bufs = [vec_with(b"hello", 10), vec_with(b"world", 10)];
    let mut s = bufs.slice(6);
    {
        let mut it = s.iter_uninit_slice();
        let dst = it.next().unwrap();
        assert_eq!(dst.len(), 9); // second buffer, bytes 1..10
        for (d, b) in dst.iter_mut().zip(b"ORLD!!") {
            d.write(*b);
        }
        assert!(it.next().is_none());
    }
    // SetLen contract: len <= total capacity of the view (9), bytes initialized.
    unsafe { s.set_len(6) };
    let bufs = s.into_inner();
    assert_eq!(
        (bufs[0].as_slice(), bufs[1].as_slice()),
        (&b"hello"[..], &b"wORLD!!"[..])
    );
}

/// Smaller variant that only grows (what `advance_vec_to` does after a
/// vectored read): slice(5) starts exactly at the second buffer; write 7
/// bytes. total_len() of the view is 5, so advance_vec_to(7) calls set_len(7).
/// Expected: ["hello", "WORLD!!"]; actual: first.set_len(10), second.set_len(2).
#[test]
fn slice_at_boundary_then_advance_vec_to() {
    let bufs = [vec_with(b"hello", 10), vec_with(b"world", 10)];
    let mut s = bufs.slice(5);
    assert_eq!(s.total_len(), 5);
    {
        let mut it = s.iter_uninit_slice();
        let dst = it.next().unwrap();
        assert_eq!(dst.len(), 10);
        for (d, b) in dst.iter_mut().zip(b"WORLD!!") {
            d.write(*b);
        }
    }
    unsafe { s.advance_vec_to(7) };
    let bufs = s.into_inner();
    assert_eq!(
        (bufs[0].as_slice(), bufs[1].as_slice()),
        (&b"hello"[..], &b"WORLD!!"[..])
    );
}
