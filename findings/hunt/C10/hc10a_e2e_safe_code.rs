//! End-to-end demonstrations of the compio-buf view defects D1, D3, D4, D5
//! that use only safe code and compio-io's own in-memory reader (`&[u8]`).

use compio_buf::{IntoInner, IoBufMutExt, IoVectoredBuf, IoVectoredBufMut};
use compio_io::{AsyncRead, AsyncReadExt};
use futures_executor::block_on;

fn vec_with(content: &[u8], cap: usize) -> Vec<u8> {
    let mut v = Vec::with_capacity(cap);
    v.extend_from_slice(content);
    assert_eq!(v.capacity(), cap);
    v
}

/// D4: a vectored read of 3 bytes into [empty cap 10, "world"] reports Ok(3)
/// but the 3 bytes are not visible in the first buffer.
#[test]
fn d4_read_vectored_loses_bytes() {
    block_on(async {
        let mut src: &[u8] = b"abc";
        let bufs = [vec_with(b"", 10), vec_with(b"world", 10)];
        let (n, bufs) = src.read_vectored(bufs).await.unwrap();
        assert_eq!(n, 3);
        assert_eq!(bufs[0].as_slice(), b"abc");
    })
}

/// D4 + D5: read_vectored_exact into [empty cap 4, "zzz" cap 4] from two
/// chunks. First round (3 bytes) is not recorded, second round panics inside
/// `VectoredSlice::iter_slice`.
#[test]
fn d5_read_vectored_exact_panics() {
    struct Chunks(Vec<&'static [u8]>);
    impl AsyncRead for Chunks {
        async fn read<B: compio_buf::IoBufMut>(
            &mut self,
            buf: B,
        ) -> compio_buf::BufResult<usize, B> {
            let mut c = self.0.remove(0);
            c.read(buf).await
        }

        async fn read_vectored<V: IoVectoredBufMut>(
            &mut self,
            buf: V,
        ) -> compio_buf::BufResult<usize, V> {
            let mut c = self.0.remove(0);
            c.read_vectored(buf).await
        }
    }
    block_on(async {
        let mut src = Chunks(vec![b"abc", b"def", b"gh"]);
        let bufs = [vec_with(b"", 4), vec_with(b"zzz", 4)];
        let ((), bufs) = src.read_vectored_exact(bufs).await.unwrap();
        assert_eq!(
            (bufs[0].as_slice(), bufs[1].as_slice()),
            (&b"abcd"[..], &b"efgh"[..])
        );
    })
}

/// D3: vectored read into `bufs.slice(5)` (skip the 5 initialized bytes of the
/// first buffer). 7 bytes are stored into the second buffer, but the lengths
/// become first = 10 (5 bytes that were never written), second = 2.
/// Under Miri the comparison reads uninitialized memory.
#[test]
fn d3_read_vectored_into_slice_exposes_uninit() {
    block_on(async {
        let mut src: &[u8] = b"WORLD!!";
        let bufs = [vec_with(b"hello", 10), vec_with(b"world", 10)];
        let (n, view) = src.read_vectored(bufs.slice(5)).await.unwrap();
        assert_eq!(n, 7);
        let bufs = view.into_inner();
        assert_eq!((bufs[0].len(), bufs[1].len()), (5, 7));
        assert_eq!(bufs[0].as_slice(), b"hello");
        assert_eq!(bufs[1].as_slice(), b"WORLD!!");
    })
}

/// D1: two reads into the same `Uninit` view ("It will always point to the
/// uninitialized area of a IoBufMut even after reading in some bytes").
/// Expected "abcdef"; actual: second read reports Ok(2) but stores the bytes
/// at 8..10 and records nothing.
#[test]
fn d1_two_reads_into_uninit() {
    block_on(async {
        let mut a: &[u8] = b"abcd";
        let mut b: &[u8] = b"ef";
        let u = vec_with(b"", 10).uninit();
        let (n, u) = a.read(u).await.unwrap();
        assert_eq!(n, 4);
        let (n, u) = b.read(u).await.unwrap();
        assert_eq!(n, 2);
        assert_eq!(u.into_inner().as_slice(), b"abcdef");
    })
}

/// D1: `read_exact(buf.uninit())` with a reader that delivers 4 bytes per
/// call: bytes 4..6 of the Vec are never written but become initialized, then
/// the third round panics on an inverted range.
#[test]
fn d1_read_exact_into_uninit() {
    struct Chunks(Vec<&'static [u8]>);
    impl AsyncRead for Chunks {
        async fn read<B: compio_buf::IoBufMut>(
            &mut self,
            buf: B,
        ) -> compio_buf::BufResult<usize, B> {
            let mut c = self.0.remove(0);
            c.read(buf).await
        }
    }
    block_on(async {
        let mut src = Chunks(vec![b"0123", b"4567", b"89"]);
        let ((), u) = src.read_exact(vec_with(b"", 10).uninit()).await.unwrap();
        assert_eq!(u.into_inner().as_slice(), b"0123456789");
    })
}
