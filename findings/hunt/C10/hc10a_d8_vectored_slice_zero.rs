//! D8: `IoVectoredBuf::slice(begin)` skips every member whose initialized
//! length is `<= offset`, including when the remaining offset is already 0.
//! So `slice(0)` is not the identity: leading members without initialized
//! bytes (the normal state of a receive buffer) are dropped from the view
//! together with their whole capacity, and a fill through the view is recorded
//! in the wrong member.

use compio_buf::*;

fn vec_with(content: &[u8], cap: usize) -> Vec<u8> {
    let mut v = Vec::with_capacity(cap);
    v.extend_from_slice(content);
    assert_eq!(v.capacity(), cap);
    if !cfg!(miri) {
        v.spare_capacity_mut().fill(std::mem::MaybeUninit::new(b'.'));
    }
    v
}

/// Two empty 10-byte buffers: 20 writable bytes. `slice(0)` reports 0.
#[test]
fn slice_zero_keeps_capacity() {
    let mut bufs = [vec_with(b"", 10), vec_with(b"", 10)];
    assert_eq!(bufs.total_capacity(), 20);
    let mut s = bufs.slice(0);
    assert_eq!(s.total_capacity(), 20);
}

/// [empty cap 10, "world" cap 10].slice(0): the view starts at the second
/// member (capacity 10 instead of 20). Writing 3 bytes through the view puts
/// them over "wor", and recording them (`set_len(0 + 3)`) marks 3 bytes of the
/// *first* member as initialized, which were never written.
#[test]
fn slice_zero_fill_goes_to_the_right_member() {
    let bufs = [vec_with(b"", 10), vec_with(b"world", 10)];
    let mut s = bufs.slice(0);
    {
        let mut it = s.iter_uninit_slice();
        let dst = it.next().unwrap();
        for (d, b) in dst.iter_mut().zip(b"abc") {
            d.write(*b);
        }
    }
    unsafe { s.set_len(3) };
    let bufs = s.into_inner();
    // a view that starts at 0 must behave like the buffer itself
    assert_eq!(bufs[0].as_slice(), b"abc");
    assert_eq!(bufs[1].as_slice(), b"world");
}
