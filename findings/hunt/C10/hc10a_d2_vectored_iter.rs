//! D2: `VectoredBufIter` (from `owned_iter`) records fills at the wrong place
//! once it has moved past a buffer that was not filled up to its capacity.
//!
//! `VectoredBufIter::next` accumulates the number of *filled bytes* of the
//! buffers it leaves behind (`total_filled += filled`), and
//! `VectoredBufIter::set_len` then calls `buf.set_len(total_filled + filled)`
//! on the vectored buffer. But `set_len` of every vectored buffer
//! (`default_set_len`, `(T, Rest)::set_len`) distributes its argument over the
//! *capacities* of the members. The two only agree when every earlier buffer
//! was filled completely.

use compio_buf::*;

fn vec_with(content: &[u8], cap: usize) -> Vec<u8> {
    let mut v = Vec::with_capacity(cap);
    v.extend_from_slice(content);
    assert_eq!(v.capacity(), cap);
    v
}

fn fill(dst: &mut [std::mem::MaybeUninit<u8>], bytes: &[u8]) {
    for (d, s) in dst.iter_mut().zip(bytes) {
        d.write(*s);
    }
}

/// Fill 1 byte of buffer 0 (cap 4), go to buffer 1, fill 2 bytes there.
/// Expected: buffer 0 == [a], buffer 1 == [x, y].
/// Actual: buffer 0 gets length 3 (2 never written bytes become
/// "initialized"), buffer 1 stays empty, and `as_init()` of the iterator then
/// panics.
#[test]
fn owned_iter_partial_fill_then_next() {
    let bufs = [vec_with(b"", 4), vec_with(b"", 4)];
    // deterministic content of the spare capacity when not run under Miri
    let mut bufs = bufs;
    for b in &mut bufs {
        if !cfg!(miri) {
            b.spare_capacity_mut().fill(std::mem::MaybeUninit::new(b'.'));
        }
    }

    let mut it = bufs.owned_iter().ok().unwrap();
    assert_eq!(it.buf_capacity(), 4);
    fill(it.as_uninit(), b"a");
    unsafe { it.set_len(1) };

    let mut it = it.next().ok().unwrap();
    assert_eq!(it.buf_capacity(), 4);
    fill(it.as_uninit(), b"xy");
    // contract of SetLen::set_len: len <= as_uninit().len(), bytes initialized
    unsafe { it.set_len(2) };

    let bufs = it.into_inner();
    assert_eq!(
        (bufs[0].as_slice(), bufs[1].as_slice()),
        (&b"a"[..], &b"xy"[..])
    );
}

/// Same schedule, but only look at the iterator itself: after recording 2
/// bytes the view must still be usable.
#[test]
fn owned_iter_view_usable_after_second_fill() {
    let bufs = [vec_with(b"", 4), vec_with(b"", 4)];
    let mut it = bufs.owned_iter().ok().unwrap();
    fill(it.as_uninit(), b"a");
    unsafe { it.set_len(1) };
    let mut it = it.next().ok().unwrap();
    fill(it.as_uninit(), b"xy");
    unsafe { it.set_len(2) };
    // panics: range start index 2 out of range for slice of length 0
    let _ = it.as_init();
}

/// Skipping an untouched buffer: nothing written to buffer 0, 3 bytes written
/// to buffer 1.
#[test]
fn owned_iter_skip_untouched_buffer() {
    let mut bufs = [vec_with(b"", 4), vec_with(b"", 4)];
    for b in &mut bufs {
        if !cfg!(miri) {
            b.spare_capacity_mut().fill(std::mem::MaybeUninit::new(b'.'));
        }
    }
    let it = bufs.owned_iter().ok().unwrap();
    let mut it = it.next().ok().unwrap();
    fill(it.as_uninit(), b"xyz");
    unsafe { it.set_len(3) };
    let bufs = it.into_inner();
    assert_eq!(
        (bufs[0].as_slice(), bufs[1].as_slice()),
        (&b""[..], &b"xyz"[..])
    );
}
