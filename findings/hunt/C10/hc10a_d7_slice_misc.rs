//! D7: smaller `Slice` defects.
//!
//! a. `Slice::set_len(n)` forwards `begin + n` to the underlying buffer
//!    unconditionally. For a bounded view over a `Vec` that holds data behind
//!    the view, recording a fill (or `clear()`) of the view truncates the Vec:
//!    content outside the view is dropped.
//! b. `Slice::reserve` returns `NotSupported` for every bounded slice, also
//!    when the requested bytes fit into the view. `extend_from_slice` and
//!    `Writer` therefore cannot write a single byte into
//!    `Vec::with_capacity(16).slice(..8)` although the view reports 8 writable
//!    bytes. (The trait's default `reserve` answers Ok when the spare capacity
//!    is enough.)
//! c. `Slice<Slice<T>>::flatten` adds offsets with unchecked `+`: a nested
//!    view with an open-ended "large" end (`..usize::MAX`) works, its flattened
//!    form panics with overflow (debug) or yields an inverted range (release).
//! d. `Slice::set_end` is safe and unchecked (`slice()` asserts begin <= end):
//!    an end in front of begin makes `as_init()` / `as_uninit()` panic.

use std::io::Write;

use compio_buf::*;

fn vec_with(content: &[u8], cap: usize) -> Vec<u8> {
    let mut v = Vec::with_capacity(cap);
    v.extend_from_slice(content);
    v
}

/// a. Vec "0123456789", view 2..5 ("234"). Overwrite the 3 bytes of the view
/// and record them with set_len(3) (within the SetLen contract).
/// Expected: "01abc56789". Actual: "01abc".
#[test]
fn bounded_slice_set_len_keeps_tail() {
    let v = vec_with(b"0123456789", 16);
    let mut s = v.slice(2..5);
    assert_eq!(s.buf_capacity(), 3);
    for (d, b) in s.as_uninit().iter_mut().zip(b"abc") {
        d.write(*b);
    }
    unsafe { s.set_len(3) };
    assert_eq!(s.into_inner().as_slice(), b"01abc56789");
}

/// a. clear() of a bounded view drops the bytes behind the view as well.
/// Expected (one of): "0156789" is impossible without moving bytes, so the
/// only contract-preserving results are "no change" or a panic; the bytes
/// 5..10 which the view never covered must certainly not disappear.
#[test]
fn bounded_slice_clear_keeps_tail() {
    let v = vec_with(b"0123456789", 16);
    let mut s = v.slice(2..5);
    s.clear();
    let v = s.into_inner();
    assert!(
        v.ends_with(b"56789"),
        "bytes outside the view were dropped: {:?}",
        std::str::from_utf8(&v)
    );
}

/// b. 8 writable bytes reported, but not one byte can be appended.
#[test]
fn bounded_slice_extend_within_view() {
    let v = vec_with(b"", 16);
    let mut s = v.slice(..8);
    assert_eq!(s.buf_capacity(), 8);
    assert_eq!(s.buf_len(), 0);
    s.extend_from_slice(b"abc").expect("3 bytes fit into 8");
    assert_eq!(s.as_init(), b"abc");
}

/// b. via Writer
#[test]
fn bounded_slice_writer() {
    let v = vec_with(b"", 16);
    let mut w = v.slice(..8).into_writer();
    w.write_all(b"abc").expect("3 bytes fit into 8");
}

/// c. nested works, flattened panics / is wrong
#[test]
fn flatten_with_huge_end() {
    let v = vec_with(b"0123456789", 16);
    let nested = v.slice(2..).slice(1..usize::MAX);
    assert_eq!(nested.as_init(), b"3456789");
    let flat = nested.flatten();
    assert_eq!(flat.as_init(), b"3456789");
}

/// d. set_end in front of begin
#[test]
fn set_end_before_begin() {
    let v = vec_with(b"0123456789", 16);
    let mut s = v.slice(4..);
    s.set_end(2);
    assert_eq!(s.as_init(), b"");
}
