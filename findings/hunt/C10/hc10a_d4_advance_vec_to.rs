//! D4: `SetLenExt::advance_vec_to(len)` compares `len` (a position in the
//! concatenated *capacities*, which is where a vectored read writes) with
//! `total_len()` (the sum of the *initialized* lengths of all members). If a
//! later member already holds data, a fill of an earlier member is silently
//! not recorded.
//!
//! D5: `VectoredSlice::iter_slice` applies the in-buffer offset computed by
//! `slice_mut` (capacity coordinates) to the *initialized* slice of that
//! buffer: any `slice_mut(begin)` that lands in the uninitialized tail of a
//! member makes `iter_slice()` / `total_len()` / `advance_vec_to()` panic.
//!
//! Together they break `AsyncReadExt::read_vectored_exact` for such buffers
//! (it does `buf.slice_mut(read)` and the reader does `advance_vec_to(n)`).

use compio_buf::*;

fn vec_with(content: &[u8], cap: usize) -> Vec<u8> {
    let mut v = Vec::with_capacity(cap);
    v.extend_from_slice(content);
    assert_eq!(v.capacity(), cap);
    v
}

fn fill<'a>(dst: impl Iterator<Item = &'a mut [std::mem::MaybeUninit<u8>]>, bytes: &[u8]) -> usize {
    let mut bytes = bytes.iter();
    let mut n = 0;
    for d in dst.flat_map(|s| s.iter_mut()) {
        let Some(b) = bytes.next() else { break };
        d.write(*b);
        n += 1;
    }
    n
}

/// D4. bufs = [empty cap 10, "world" cap 10]. A vectored read delivers 3 bytes:
/// they go to bytes 0..3 of the first member. `advance_vec_to(3)`.
/// Expected: first member == "abc". Actual: total_len() is 5 >= 3, nothing is
/// recorded, the first member stays empty.
#[test]
fn advance_vec_to_records_fill_of_first_member() {
    let mut bufs = [vec_with(b"", 10), vec_with(b"world", 10)];
    let n = fill(bufs.iter_uninit_slice(), b"abc");
    assert_eq!(n, 3);
    unsafe { bufs.advance_vec_to(n) };
    assert_eq!(bufs[0].as_slice(), b"abc");
    assert_eq!(bufs[1].as_slice(), b"world");
}

/// D4, tuple flavour.
#[test]
fn advance_vec_to_records_fill_of_first_member_tuple() {
    let mut bufs = (vec_with(b"", 10), (vec_with(b"world", 10),));
    let n = fill(bufs.iter_uninit_slice(), b"abc");
    unsafe { bufs.advance_vec_to(n) };
    assert_eq!(bufs.0.as_slice(), b"abc");
    assert_eq!(bufs.1.0.as_slice(), b"world");
}

/// D5. `slice_mut(17)` of two 10-byte members lands at byte 7 of the second
/// member, which holds 5 initialized bytes. The view has 3 writable bytes and
/// no initialized ones, so total_len() should be 0.
#[test]
fn slice_mut_into_uninit_tail_total_len() {
    let bufs = [vec_with(b"hello", 10), vec_with(b"world", 10)];
    let mut s = bufs.slice_mut(17);
    assert_eq!(s.total_capacity(), 3);
    assert_eq!(s.total_len(), 0); // panics: range start index 7 out of range for slice of length 5
}

/// D5 via advance_vec_to: write 2 bytes into that view and record them.
#[test]
fn slice_mut_into_uninit_tail_advance() {
    let bufs = [vec_with(b"hello", 10), vec_with(b"world", 10)];
    let mut s = bufs.slice_mut(17);
    let n = fill(s.iter_uninit_slice(), b"ab");
    assert_eq!(n, 2);
    unsafe { s.advance_vec_to(n) }; // panics inside total_len()
}

/// The loop of `AsyncReadExt::read_vectored_exact` with a reader that delivers
/// 3 bytes per call, on [empty cap 4, "zzz" cap 4] (8 bytes to read).
/// Expected: ["abcd", "efgh"]. Actual: the first fill is not recorded (D4) and
/// the second round panics in total_len() (D5).
#[test]
fn read_vectored_exact_pattern() {
    let mut bufs = [vec_with(b"", 4), vec_with(b"zzz", 4)];
    let total = bufs.total_capacity();
    let src = b"abcdefgh";
    let mut read = 0;
    while read < total {
        let mut s = bufs.slice_mut(read);
        let end = (read + 3).min(src.len());
        let n = fill(s.iter_uninit_slice(), &src[read..end]);
        assert!(n > 0);
        unsafe { s.advance_vec_to(n) };
        read += n;
        bufs = s.into_inner();
    }
    assert_eq!(
        (bufs[0].as_slice(), bufs[1].as_slice()),
        (&b"abcd"[..], &b"efgh"[..])
    );
}
