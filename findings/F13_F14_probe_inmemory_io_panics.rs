use std::io::Cursor;
use compio_io::{AsyncRead, AsyncReadAt, AsyncWriteAt, AsyncWriteZerocopy};
use futures_executor::block_on;

#[test]
fn vec_write_vectored_at_inside() {
    block_on(async {
        let mut dst = vec![0u8; 100];
        let (n, _) = dst.write_vectored_at([b"ab".to_vec()], 0).await.unwrap();
        assert_eq!(n, 2);
        assert_eq!(&dst[..3], b"ab\0");
        assert_eq!(dst.len(), 100);
    })
}

#[test]
fn vec_write_zerocopy_vectored_nonempty() {
    block_on(async {
        let mut dst = vec![1u8; 10];
        let (n, f) = dst.write_zerocopy_vectored([b"ab".to_vec()]).await.unwrap();
        let _ = f.await;
        assert_eq!(n, 2);
        assert_eq!(dst.len(), 12);
    })
}

#[test]
fn slice_read_vectored_at_beyond_end() {
    block_on(async {
        let src = [1u8, 2, 3];
        let (n, _) = src.read_at(Vec::with_capacity(4), 10).await.unwrap();
        assert_eq!(n, 0);
        let (n, _) = src.read_vectored_at([Vec::<u8>::with_capacity(4)], 10).await.unwrap();
        assert_eq!(n, 0);
    })
}

#[test]
fn cursor_read_vectored_beyond_end() {
    block_on(async {
        let mut c = Cursor::new(vec![1u8, 2, 3]);
        c.set_position(10);
        let (n, _) = c.read_vectored([Vec::<u8>::with_capacity(4)]).await.unwrap();
        assert_eq!(n, 0);
    })
}
