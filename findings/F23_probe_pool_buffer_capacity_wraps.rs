//! F23 probe: BufferRef::set_capacity / set_len narrowed the requested size with `as u32` BEFORE clamping it, so a
//! request of 1 << 32 bytes became capacity 0 (a managed read then reports a false end-of-stream). Fails before the
//! /repo commit "fix: pool buffers clamp a requested size before narrowing it", passes after.
use compio_buf::IoBufMutExt;
use compio_driver::{Proactor, ProactorBuilder};

#[test]
fn huge_capacity_request_is_clamped_not_wrapped() {
    let mut driver: Proactor = ProactorBuilder::new().build().unwrap();
    let pool = driver.buffer_pool().unwrap();
    let mut buf = pool.take(0).unwrap().expect("buffer 0");
    let full = buf.buf_capacity();
    assert!(full > 0);
    buf.set_capacity(1usize << 32);
    assert_eq!(buf.buf_capacity(), full, "a request larger than the buffer keeps the whole buffer");
    buf.set_capacity((1usize << 32) + 7);
    assert_eq!(buf.buf_capacity(), full.min(full), "wrapped to {}", buf.buf_capacity());
}
