//! HC20a demonstration 1: `Child::wait` / `Child::wait_with_output` keep the
//! child's stdin pipe open while waiting.
//!
//! `std::process::Child::wait{,_with_output}` (which the compio docs point to:
//! "See std::process::Child for detailed documents") close the stdin handle
//! before waiting so that a child that reads stdin until EOF can exit.
//! compio moves only `self.child` out of `self`; `self.stdin` stays alive until
//! the async fn body ends, i.e. until after the wait finished -> deadlock.

use std::{process::Stdio, sync::mpsc, time::Duration};

use compio_io::AsyncWriteExt;
use compio_process::Command;

/// Run `f` on a fresh runtime in another thread, fail when it takes too long.
fn with_timeout<T: Send + 'static>(
    secs: u64,
    f: impl FnOnce() -> T + Send + 'static,
) -> Result<T, &'static str> {
    let (tx, rx) = mpsc::channel();
    std::thread::spawn(move || {
        let _ = tx.send(f());
    });
    rx.recv_timeout(Duration::from_secs(secs))
        .map_err(|_| "TIMEOUT: the wait never finished")
}

fn kill(pid: u32) {
    let _ = std::process::Command::new("kill")
        .arg("-9")
        .arg(pid.to_string())
        .status();
}

/// Control: the same scenario with std finishes and yields the data.
#[test]
fn control_std_wait_with_output_closes_stdin() {
    use std::io::Write;
    let mut child = std::process::Command::new("cat")
        .stdin(Stdio::piped())
        .stdout(Stdio::piped())
        .spawn()
        .unwrap();
    child.stdin.as_mut().unwrap().write_all(b"hello").unwrap();
    let out = child.wait_with_output().unwrap();
    assert!(out.status.success());
    assert_eq!(out.stdout, b"hello");
}

#[test]
fn wait_with_output_closes_stdin() {
    let (pid_tx, pid_rx) = mpsc::channel();
    let res = with_timeout(5, move || {
        compio_runtime::Runtime::new().unwrap().block_on(async move {
            let mut child = Command::new("cat")
                .stdin(Stdio::piped())
                .unwrap()
                .stdout(Stdio::piped())
                .unwrap()
                .spawn()
                .unwrap();
            pid_tx.send(child.id()).unwrap();
            child
                .stdin
                .as_mut()
                .unwrap()
                .write_all(b"hello")
                .await
                .0
                .unwrap();
            let out = child.wait_with_output().await.unwrap();
            (out.status, out.stdout)
        })
    });
    if res.is_err() {
        kill(pid_rx.recv().unwrap());
    }
    let (status, stdout) = res.unwrap();
    assert!(status.success());
    assert_eq!(stdout, b"hello");
}

#[test]
fn wait_closes_stdin() {
    let (pid_tx, pid_rx) = mpsc::channel();
    let res = with_timeout(5, move || {
        compio_runtime::Runtime::new().unwrap().block_on(async move {
            // `cat` exits as soon as it sees EOF on stdin.
            let child = Command::new("cat")
                .stdin(Stdio::piped())
                .unwrap()
                .stdout(Stdio::null())
                .unwrap()
                .spawn()
                .unwrap();
            pid_tx.send(child.id()).unwrap();
            child.wait().await.unwrap()
        })
    });
    if res.is_err() {
        kill(pid_rx.recv().unwrap());
    }
    assert!(res.unwrap().success());
}
