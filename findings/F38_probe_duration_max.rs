//! F38 probe (defect found by a hunting sub-agent, confirmed here): sleep(Duration::MAX) / timeout(Duration::MAX, ..)
//! panicked with "overflow when adding duration to instant" before the inner future was polled. Fails before the /repo
//! commit "fix: sleep and timeout accept durations that do not fit an Instant", passes after.
use std::time::Duration;

#[test]
fn timeout_max_is_no_timeout() {
    let r = compio_runtime::Runtime::new().unwrap().block_on(async {
        compio_runtime::time::timeout(Duration::MAX, async { 7 }).await
    });
    assert_eq!(r.unwrap(), 7);
}

#[test]
fn huge_timeout_is_no_timeout() {
    let r = compio_runtime::Runtime::new().unwrap().block_on(async {
        compio_runtime::time::timeout(Duration::from_secs(u64::MAX / 2 + 1), async { 7 }).await
    });
    assert_eq!(r.unwrap(), 7);
}

#[test]
fn sleep_max_stays_pending() {
    let r = compio_runtime::Runtime::new().unwrap().block_on(async {
        compio_runtime::time::timeout(Duration::from_millis(20), compio_runtime::time::sleep(Duration::MAX)).await
    });
    assert!(r.is_err(), "the huge sleep must still be pending after 20 ms");
}
