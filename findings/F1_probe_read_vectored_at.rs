// Put into compio-fs/tests/ of a scratch copy and run with
//   cargo test --workspace --test <name> --offline      (NOT `-p compio-fs`: that builds the stub driver)
// Observed on the pinned tree: n = 0, bufs = [[], []]; preadv(2) would read 8 bytes.
use compio_fs::File;
use compio_io::AsyncReadAt;

#[compio_macros::test]
async fn probe_read_vectored_at_spare_capacity() {
    let file = File::open("Cargo.toml").await.unwrap();
    let bufs = [Vec::<u8>::with_capacity(4), Vec::<u8>::with_capacity(4)];
    let (n, bufs) = file.read_vectored_at(bufs, 0).await.unwrap();
    let std = std::fs::read("Cargo.toml").unwrap();
    assert_eq!(n, 8);
    assert_eq!(&bufs[0][..], &std[..4]);
    assert_eq!(&bufs[1][..], &std[4..8]);
}
