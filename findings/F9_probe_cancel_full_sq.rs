// Put into compio-driver/tests/ of a scratch copy:
//   CAP=2 cargo test -p compio-driver --features io-uring --test <name> --offline -- --nocapture   (control: CAP=4)
// Observed: CAP=2 -> cancel_token() returns true but the op never finishes; CAP=4 -> finishes with ECANCELED;
// with findings/F9_candidate_fix.patch both finish.
use std::time::Duration;

use compio_driver::{
    ErrorExt, Proactor, PushEntry, SharedFd,
    op::{Interest, PollOnce},
};

// Submission queue of 2 entries, both taken by not-yet-submitted operations;
// then one of them is cancelled through a token before the next poll.
#[test]
fn probe_cancel_with_full_sq() {
    let mut driver = Proactor::builder().capacity(std::env::var("CAP").ok().and_then(|s| s.parse().ok()).unwrap_or(2)).build().unwrap();
    let (r1, _w1) = std::io::pipe().unwrap();
    let (r2, _w2) = std::io::pipe().unwrap();
    let r1 = SharedFd::new(r1);
    let r2 = SharedFd::new(r2);

    let PushEntry::Pending(mut k1) = driver.push(PollOnce::new(r1.clone(), Interest::Readable)) else { panic!() };
    let PushEntry::Pending(_k2) = driver.push(PollOnce::new(r2.clone(), Interest::Readable)) else { panic!() };

    let token = driver.register_cancel(&k1);
    let issued = driver.cancel_token(token);
    eprintln!("PROBE cancel_token returned {issued}");

    for _ in 0..10 {
        let _ = driver.poll(Some(Duration::from_millis(100)));
        match driver.pop(k1) {
            PushEntry::Ready(res) => {
                eprintln!("PROBE cancelled op finished: cancelled={}", res.is_cancelled());
                return;
            }
            PushEntry::Pending(k) => k1 = k,
        }
    }
    panic!("PROBE: cancellation was reported as issued but the operation never finished (1 s)");
}
