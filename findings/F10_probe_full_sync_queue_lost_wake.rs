//! A remote wake that finds the cross-thread queue full nudges the runtime, spins until there is
//! room, pushes — and must then wake the runtime again: the earlier nudge happened *before* the
//! push and may already have been consumed.
use std::{
    future::Future,
    pin::Pin,
    sync::{
        Arc, Condvar, Mutex,
        atomic::{AtomicBool, AtomicUsize, Ordering::SeqCst},
    },
    task::{Context, Poll, Wake, Waker},
    time::Duration,
};

use compio_executor::{Executor, ExecutorConfig};

/// Models the driver's waker: counts wake-ups and lets the test hold the 2nd one (a waking thread
/// may be preempted at any point, e.g. inside the eventfd write).
struct DriverWaker {
    wakes: AtomicUsize,
    hold_second: AtomicBool,
    gate: Mutex<bool>,
    cv: Condvar,
}

impl Wake for DriverWaker {
    fn wake(self: Arc<Self>) {
        self.wake_by_ref()
    }

    fn wake_by_ref(self: &Arc<Self>) {
        let n = self.wakes.fetch_add(1, SeqCst) + 1;
        if n == 2 && self.hold_second.load(SeqCst) {
            let mut open = self.gate.lock().unwrap();
            while !*open {
                open = self.cv.wait(open).unwrap();
            }
        }
    }
}

struct Park {
    slot: Arc<Mutex<Option<Waker>>>,
    done: Arc<AtomicBool>,
    polls: Arc<AtomicUsize>,
}

impl Future for Park {
    type Output = ();

    fn poll(self: Pin<&mut Self>, cx: &mut Context<'_>) -> Poll<()> {
        self.polls.fetch_add(1, SeqCst);
        if self.done.load(SeqCst) {
            Poll::Ready(())
        } else {
            *self.slot.lock().unwrap() = Some(cx.waker().clone());
            Poll::Pending
        }
    }
}

#[test]
fn wake_with_full_sync_queue_is_not_lost() {
    let dw = Arc::new(DriverWaker {
        wakes: AtomicUsize::new(0),
        hold_second: AtomicBool::new(true),
        gate: Mutex::new(false),
        cv: Condvar::new(),
    });
    let exe = Executor::with_config(ExecutorConfig {
        sync_queue_size: 1,
        waker: Some(Waker::from(dw.clone())),
        ..Default::default()
    });
    let mk = || {
        (
            Arc::new(Mutex::new(None)),
            Arc::new(AtomicBool::new(false)),
            Arc::new(AtomicUsize::new(0)),
        )
    };
    let (sa, da, pa) = mk();
    let (sb, db, pb) = mk();
    exe.spawn(Park { slot: sa.clone(), done: da.clone(), polls: pa.clone() }).detach();
    exe.spawn(Park { slot: sb.clone(), done: db.clone(), polls: pb.clone() }).detach();
    while exe.tick() {}
    let wa = sa.lock().unwrap().take().unwrap();
    let wb = sb.lock().unwrap().take().unwrap();
    let w0 = dw.wakes.load(SeqCst);
    assert_eq!(w0, 0, "local spawns wake the driver too? adjust the probe");

    let t = std::thread::spawn(move || {
        da.store(true, SeqCst);
        db.store(true, SeqCst);
        wa.wake(); // fills the 1-slot queue, wake #1
        wb.wake(); // queue full: wake #2 (held by the test), then spins until there is room
    });
    // wait until the second wake is in progress (the waking thread is "preempted" inside it)
    while dw.wakes.load(SeqCst) < 2 {
        std::thread::yield_now();
    }
    // runtime side: woken -> tick (drains A, makes room) -> nothing left -> goes to sleep
    while exe.tick() {}
    assert_eq!(pa.load(SeqCst), 2, "A was woken and re-polled");
    let before_sleep = dw.wakes.load(SeqCst);
    // the waking thread resumes: pushes B
    *dw.gate.lock().unwrap() = true;
    dw.cv.notify_all();
    t.join().unwrap();
    // B is queued now. The runtime is asleep: it must have been woken after the push.
    std::thread::sleep(Duration::from_millis(50));
    let after = dw.wakes.load(SeqCst);
    assert!(
        after > before_sleep,
        "B was pushed to the cross-thread queue but the runtime was not woken afterwards \
         (wakes before sleeping: {before_sleep}, after the push: {after}) -> lost wake-up"
    );
    while exe.tick() {}
    assert_eq!(pb.load(SeqCst), 2);
}
