//! HC17 demonstration 1: with a tiny `recv_timeout` a freshly spawned pool
//! worker can retire before the dispatcher reaches its rendezvous `send`, and
//! `AsyncifyPool::dispatch` then blocks forever (the pool keeps a `Receiver`
//! clone, so the zero-capacity channel never disconnects).

use std::{
    sync::{
        Arc,
        atomic::{AtomicUsize, Ordering},
        mpsc,
    },
    time::Duration,
};

use compio_driver::AsyncifyPool;

fn run(limit: usize, timeout: Duration, jobs: usize) -> Result<usize, String> {
    let ran = Arc::new(AtomicUsize::new(0));
    let (done_tx, done_rx) = mpsc::channel::<()>();
    let ran2 = ran.clone();
    // The submitter runs in its own thread so that the test can time out.
    std::thread::spawn(move || {
        let pool = AsyncifyPool::new(limit, timeout);
        for _ in 0..jobs {
            let ran = ran2.clone();
            let mut job = move || {
                ran.fetch_add(1, Ordering::SeqCst);
            };
            // "handed back intact or retried": retry like the drivers do.
            while let Err(e) = pool.dispatch(job) {
                job = e.0;
                std::thread::yield_now();
            }
        }
        done_tx.send(()).ok();
    });
    match done_rx.recv_timeout(Duration::from_secs(10)) {
        Ok(()) => {
            // every dispatch returned Ok, so each job was taken by a worker
            std::thread::sleep(Duration::from_millis(200));
            Ok(ran.load(Ordering::SeqCst))
        }
        Err(_) => Err(format!(
            "dispatch() is stuck: only {} of {jobs} jobs ran after 10s (limit={limit}, \
             recv_timeout={timeout:?})",
            ran.load(Ordering::SeqCst)
        )),
    }
}

#[test]
fn zero_recv_timeout() {
    assert_eq!(run(1, Duration::ZERO, 200), Ok(200));
}

#[test]
fn nanosecond_recv_timeout() {
    assert_eq!(run(4, Duration::from_nanos(1), 2000), Ok(2000));
}

#[test]
fn microsecond_recv_timeout() {
    assert_eq!(run(2, Duration::from_micros(20), 5000), Ok(5000));
}

/// The same through the public `Proactor` API: a driver configured with a
/// short idle timeout wedges inside `Proactor::push` (the driver's
/// `push_blocking` calls `AsyncifyPool::dispatch`).
#[test]
fn proactor_push_hangs() {
    use compio_buf::BufResult;
    use compio_driver::{Proactor, PushEntry, op::Asyncify};

    let (done_tx, done_rx) = mpsc::channel::<usize>();
    std::thread::spawn(move || {
        let mut driver = Proactor::builder()
            .thread_pool_limit(2)
            .thread_pool_recv_timeout(Duration::from_micros(20))
            .build()
            .unwrap();
        let mut finished = 0;
        for _ in 0..2000 {
            let mut key = match driver.push(Asyncify::new(|| BufResult(Ok(7), ()))) {
                PushEntry::Pending(key) => key,
                PushEntry::Ready(_) => unreachable!(),
            };
            loop {
                _ = driver.poll(Some(Duration::from_millis(1)));
                match driver.pop(key) {
                    PushEntry::Pending(k) => key = k,
                    PushEntry::Ready(res) => {
                        assert_eq!(res.0.unwrap(), 7);
                        finished += 1;
                        break;
                    }
                }
            }
            done_tx.send(finished).ok();
        }
    });
    let mut last = 0;
    loop {
        match done_rx.recv_timeout(Duration::from_secs(10)) {
            Ok(n) => last = n,
            Err(mpsc::RecvTimeoutError::Disconnected) => break,
            Err(mpsc::RecvTimeoutError::Timeout) => {
                panic!("Proactor::push is stuck after {last} of 2000 blocking ops")
            }
        }
    }
    assert_eq!(last, 2000);
}
