//! F27 probe (defect found by a hunting sub-agent, confirmed here): Metadata::modified()/accessed() panicked for a
//! timestamp before 1970 (negative st_mtime cast to u64). Fails before the /repo commit
//! "fix: file times before 1970 are converted instead of overflowing", passes after it.
use std::time::{Duration, SystemTime};

#[test]
fn modified_before_epoch() {
    let tmp = tempfile::NamedTempFile::new().unwrap();
    let t = SystemTime::UNIX_EPOCH - Duration::from_secs(10);
    tmp.as_file().set_times(std::fs::FileTimes::new().set_modified(t).set_accessed(t)).unwrap();
    assert_eq!(std::fs::metadata(tmp.path()).unwrap().modified().unwrap(), t);
    let path = tmp.path().to_path_buf();
    let m = compio_runtime::Runtime::new().unwrap().block_on(async move { compio_fs::metadata(path).await.unwrap() });
    assert_eq!(m.modified().unwrap(), t);
    assert_eq!(m.accessed().unwrap(), t);
}
