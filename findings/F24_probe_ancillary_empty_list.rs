//! HC13a / D5: `AncillaryIter::new` panics on an empty control buffer, so the
//! empty list of control messages does not round-trip (and the receive path
//! shown in the crate's own docs panics whenever a message arrives without
//! ancillary data).
//!
//! `AncillaryBuilder` with zero `push`es leaves the buffer with `len == 0`,
//! which is exactly what `sendmsg` wants for "no control data", and `recvmsg`
//! reports a control length of 0 for every message that carries none. The
//! idiom from the docs (`compio-net/src/unix.rs`:
//! `AncillaryIter::new(&ctrl_recv[..ctrl_len])`, and `compio-quic`'s
//! `AncillaryIter::new(&control)`) then hits
//! `assert!(len >= CMSG_SPACE(0), "buffer too short")` in `CMsgIter::new`.
//! `CMSG_FIRSTHDR` already returns NULL for `controllen < sizeof(cmsghdr)`,
//! so the natural result is an iterator that yields nothing.
//!
//! Run: CARGO_TARGET_DIR=/tmp/sa/HC13a/target cargo test --offline --workspace --test hc13a_ancillary_empty
//! (needs features `ancillary` + `bytemuck`, which `--workspace` unifies in)

#![cfg(all(feature = "ancillary", feature = "bytemuck"))]

use compio_buf::IoBufExt;
use compio_io::ancillary::{AncillaryBuf, AncillaryIter};

/// Round trip of the empty message list through builder and iterator.
#[test]
fn empty_list_roundtrips() {
    let mut buf = AncillaryBuf::<64>::new();
    {
        let _builder = buf.builder(); // no push
    }
    assert_eq!(buf.buf_len(), 0);
    let n = unsafe { AncillaryIter::new(&buf) }.count();
    assert_eq!(n, 0);
}

/// What a receiver sees after `recvmsg` returned `msg_controllen == 0`.
#[test]
fn zero_control_len_after_recv() {
    let ctrl_recv = AncillaryBuf::<64>::new();
    let ctrl_len = 0usize; // as returned by recv_msg / read_with_ancillary
    let mut iter = unsafe { AncillaryIter::new(&ctrl_recv[..ctrl_len]) };
    assert!(iter.next().is_none());
}

/// Sanity: non-empty lists of every shape that fits do round-trip, for every
/// buffer size (including sizes that are not a multiple of the alignment).
#[test]
fn nonempty_lists_roundtrip_all_buffer_sizes() {
    fn run<const N: usize>() {
        let mut buf = AncillaryBuf::<N>::new();
        let mut pushed: Vec<(i32, i32, usize)> = Vec::new();
        {
            let mut b = buf.builder();
            let mut i = 0;
            loop {
                let r = match i % 4 {
                    0 => b.push(i, i + 1, &()).map(|_| 0usize),
                    1 => b.push(i, i + 1, &(i as u8)).map(|_| 1),
                    2 => b.push(i, i + 1, &(i as u32)).map(|_| 4),
                    _ => b.push(i, i + 1, &[i as u8; 9]).map(|_| 9),
                };
                match r {
                    Ok(sz) => pushed.push((i, i + 1, sz)),
                    Err(_) => break,
                }
                i += 1;
                assert!(i < 1000);
            }
        }
        if pushed.is_empty() {
            return;
        }
        assert!(buf.buf_len() <= N);
        let got: Vec<(i32, i32, usize)> = unsafe { AncillaryIter::new(&buf) }
            .map(|m| (m.level(), m.ty(), m.len() - 16))
            .collect();
        assert_eq!(got, pushed, "N = {N}");
        for (idx, m) in unsafe { AncillaryIter::new(&buf) }.enumerate() {
            let i = idx as i32;
            match idx % 4 {
                0 => m.data::<()>().unwrap(),
                1 => assert_eq!(m.data::<u8>().unwrap(), i as u8),
                2 => assert_eq!(m.data::<u32>().unwrap(), i as u32),
                _ => assert_eq!(m.data::<[u8; 9]>().unwrap(), [i as u8; 9]),
            }
        }
    }
    run::<16>();
    run::<17>();
    run::<23>();
    run::<24>();
    run::<31>();
    run::<32>();
    run::<39>();
    run::<40>();
    run::<41>();
    run::<47>();
    run::<63>();
    run::<64>();
    run::<65>();
    run::<100>();
    run::<127>();
    run::<128>();
    run::<255>();
}
