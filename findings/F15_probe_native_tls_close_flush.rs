//! F15 probe (harness written by a seeding sub-agent, extended here): on the unfixed tree
//! `native_every_flush_pending_once` deadlocks (close_notify stays in the transport's buffer because
//! SSL_shutdown ignores the result of BIO_flush and native `poll_close` never flushed); it passes with
//! /repo commit "fix: native-tls poll_close flushes the transport after close_notify".
//! The two rustls tests are controls that FAIL with and without the fix: futures-rustls (third party)
//! forgets a pending flush during the handshake; that is not compio code.
//! Place in compio-tls/tests/ and run: cargo test -p compio-tls --features all,ring --offline --test f15_probe
//!
//! TLS over an in-memory duplex transport that buffers writes until they are
//! flushed, and whose `poll_flush` may return `Pending` before it delivers.
//!
//! Everything here is single threaded and driven by wakers only, so a stall
//! (all tasks pending, nobody woken) is detected deterministically.

use std::{
    cell::RefCell,
    collections::VecDeque,
    future::Future,
    io,
    pin::{Pin, pin},
    rc::Rc,
    sync::{
        Arc,
        atomic::{AtomicBool, Ordering},
    },
    task::{Context, Poll, Wake, Waker},
};

use compio_tls::{TlsAcceptor, TlsConnector};
use futures_util::{AsyncRead, AsyncReadExt, AsyncWrite, AsyncWriteExt};

#[derive(Default)]
struct Pipe {
    data: VecDeque<u8>,
    closed: bool,
    reader: Option<Waker>,
}

/// One end of the duplex. Writes are staged in `staged` and reach the peer only
/// when flushed. The first `flush_pending` flushes that have something to
/// deliver return `Pending` once (waking themselves) and deliver on the
/// following call; later flushes deliver at once.
struct Endpoint {
    rx: Rc<RefCell<Pipe>>,
    tx: Rc<RefCell<Pipe>>,
    staged: Vec<u8>,
    flush_pending: usize,
    armed: bool,
}

fn duplex(flush_pending: usize) -> (Endpoint, Endpoint) {
    let a = Rc::new(RefCell::new(Pipe::default()));
    let b = Rc::new(RefCell::new(Pipe::default()));
    let mk = |rx: &Rc<RefCell<Pipe>>, tx: &Rc<RefCell<Pipe>>| Endpoint {
        rx: rx.clone(),
        tx: tx.clone(),
        staged: Vec::new(),
        flush_pending,
        armed: false,
    };
    (mk(&a, &b), mk(&b, &a))
}

impl Endpoint {
    fn deliver(&mut self) {
        let mut tx = self.tx.borrow_mut();
        tx.data.extend(self.staged.drain(..));
        if let Some(w) = tx.reader.take() {
            w.wake();
        }
    }
}

impl AsyncRead for Endpoint {
    fn poll_read(
        self: Pin<&mut Self>,
        cx: &mut Context<'_>,
        buf: &mut [u8],
    ) -> Poll<io::Result<usize>> {
        let mut rx = self.rx.borrow_mut();
        if rx.data.is_empty() {
            if rx.closed {
                return Poll::Ready(Ok(0));
            }
            rx.reader = Some(cx.waker().clone());
            return Poll::Pending;
        }
        let n = buf.len().min(rx.data.len());
        for (d, s) in buf.iter_mut().zip(rx.data.drain(..n)) {
            *d = s;
        }
        Poll::Ready(Ok(n))
    }
}

impl AsyncWrite for Endpoint {
    fn poll_write(
        mut self: Pin<&mut Self>,
        _cx: &mut Context<'_>,
        buf: &[u8],
    ) -> Poll<io::Result<usize>> {
        self.staged.extend_from_slice(buf);
        Poll::Ready(Ok(buf.len()))
    }

    fn poll_flush(mut self: Pin<&mut Self>, cx: &mut Context<'_>) -> Poll<io::Result<()>> {
        if self.staged.is_empty() {
            return Poll::Ready(Ok(()));
        }
        if self.flush_pending > 0 && !self.armed {
            // Not ready yet: ask to be polled again.
            self.flush_pending -= 1;
            self.armed = true;
            cx.waker().wake_by_ref();
            return Poll::Pending;
        }
        self.armed = false;
        self.deliver();
        Poll::Ready(Ok(()))
    }

    fn poll_close(mut self: Pin<&mut Self>, cx: &mut Context<'_>) -> Poll<io::Result<()>> {
        std::task::ready!(self.as_mut().poll_flush(cx))?;
        let mut tx = self.tx.borrow_mut();
        tx.closed = true;
        if let Some(w) = tx.reader.take() {
            w.wake();
        }
        Poll::Ready(Ok(()))
    }
}

struct Flag(AtomicBool);

impl Wake for Flag {
    fn wake(self: Arc<Self>) {
        self.0.store(true, Ordering::SeqCst);
    }

    fn wake_by_ref(self: &Arc<Self>) {
        self.0.store(true, Ordering::SeqCst);
    }
}

/// Polls `f` as long as somebody wakes it. Returns `None` if the future is
/// pending and nobody has woken it (a deadlock), panics if it spins.
fn run_until_stalled<F: Future>(f: F) -> Option<F::Output> {
    let mut f = pin!(f);
    let flag = Arc::new(Flag(AtomicBool::new(false)));
    let waker = Waker::from(flag.clone());
    let mut cx = Context::from_waker(&waker);
    for _ in 0..1_000_000 {
        if let Poll::Ready(v) = f.as_mut().poll(&mut cx) {
            return Some(v);
        }
        if !flag.0.swap(false, Ordering::SeqCst) {
            return None;
        }
    }
    panic!("the connection spins without making progress");
}

const PAYLOAD: &[u8] = b"Hello world!";

async fn server(acceptor: TlsAcceptor, io: Endpoint) {
    let mut stream = acceptor.accept(io).await.unwrap();
    let mut res = [0; PAYLOAD.len()];
    stream.read_exact(&mut res).await.unwrap();
    stream.write_all(&res).await.unwrap();
    stream.flush().await.unwrap();
    stream.close().await.unwrap();
    assert_eq!(stream.read(&mut [0]).await.unwrap(), 0);
}

async fn client(connector: TlsConnector, io: Endpoint) {
    let mut stream = connector.connect("localhost", io).await.unwrap();
    stream.write_all(PAYLOAD).await.unwrap();
    stream.flush().await.unwrap();
    let mut res = vec![];
    stream.read_to_end(&mut res).await.unwrap();
    assert_eq!(res, PAYLOAD);
    stream.close().await.unwrap();
}

fn echo(acceptor: TlsAcceptor, connector: TlsConnector, flush_pending: usize) {
    let (a, b) = duplex(flush_pending);
    let both = async {
        futures_util::join!(server(acceptor, a), client(connector, b));
    };
    run_until_stalled(both).expect("TLS connection deadlocked: every task is pending, none woken");
}

#[cfg(feature = "native-tls")]
fn native_pair() -> (TlsAcceptor, TlsConnector) {
    let rcgen::CertifiedKey { cert, signing_key } =
        rcgen::generate_simple_self_signed(vec!["localhost".into()]).unwrap();
    #[allow(deprecated)]
    let acceptor = TlsAcceptor::from(
        native_tls::TlsAcceptor::builder(
            native_tls::Identity::from_pkcs8(
                cert.pem().as_bytes(),
                signing_key.serialize_pem().as_bytes(),
            )
            .unwrap(),
        )
        .build()
        .unwrap(),
    );
    let connector = TlsConnector::from(
        native_tls::TlsConnector::builder()
            .add_root_certificate(native_tls::Certificate::from_pem(cert.pem().as_bytes()).unwrap())
            .build()
            .unwrap(),
    );
    (acceptor, connector)
}

#[cfg(feature = "rustls")]
fn rustls_pair() -> (TlsAcceptor, TlsConnector) {
    use rustls::pki_types::pem::PemObject;

    let rcgen::CertifiedKey { cert, signing_key } =
        rcgen::generate_simple_self_signed(vec!["localhost".into()]).unwrap();
    let acceptor = TlsAcceptor::from(Arc::new(
        rustls::ServerConfig::builder()
            .with_no_client_auth()
            .with_single_cert(
                vec![cert.der().clone()],
                rustls::pki_types::PrivateKeyDer::from_pem_slice(
                    signing_key.serialize_pem().as_bytes(),
                )
                .unwrap(),
            )
            .unwrap(),
    ));
    let mut store = rustls::RootCertStore::empty();
    store.add(cert.der().clone()).unwrap();
    let connector = TlsConnector::from(Arc::new(
        rustls::ClientConfig::builder()
            .with_root_certificates(store)
            .with_no_client_auth(),
    ));
    (acceptor, connector)
}

/// Buffering transport whose flush is always immediately ready.
#[cfg(feature = "native-tls")]
#[test]
fn native_buffered_flush_ready() {
    let (acceptor, connector) = native_pair();
    echo(acceptor, connector, 0);
}

/// Buffering transport whose first flush (the one that carries the first
/// handshake flight) returns `Pending` once before delivering.
#[cfg(feature = "native-tls")]
#[test]
fn native_buffered_flush_pending_once() {
    let (acceptor, connector) = native_pair();
    echo(acceptor, connector, 1);
}

#[cfg(feature = "rustls")]
#[test]
fn rustls_buffered_flush_pending_once() {
    let (acceptor, connector) = rustls_pair();
    echo(acceptor, connector, 1);
}

/// Every flush that has something to deliver returns `Pending` once (waking itself).
#[cfg(feature = "native-tls")]
#[test]
fn native_every_flush_pending_once() {
    let (acceptor, connector) = native_pair();
    echo(acceptor, connector, usize::MAX);
}

#[cfg(feature = "rustls")]
#[test]
fn rustls_every_flush_pending_once() {
    let (acceptor, connector) = rustls_pair();
    echo(acceptor, connector, usize::MAX);
}
