//! BufWriter::write accepts the bytes into its buffer and then reports the
//! error of the trailing flush. `write_all` (and `copy`) retry an
//! `Interrupted` write with the same bytes, so they are buffered twice.
use compio_buf::{BufResult, IntoInner, IoBuf};
use compio_io::{AsyncWrite, AsyncWriteExt, BufWriter};
use futures_executor::block_on;

/// Writer that fails the `fail_at`-th write call with `kind`, accepts at most
/// `chunk` bytes per call otherwise.
struct Flaky {
    out: Vec<u8>,
    calls: usize,
    fail_at: usize,
    kind: std::io::ErrorKind,
    chunk: usize,
}

impl AsyncWrite for Flaky {
    async fn write<T: IoBuf>(&mut self, buf: T) -> BufResult<usize, T> {
        let call = self.calls;
        self.calls += 1;
        if call == self.fail_at {
            return BufResult(Err(std::io::Error::new(self.kind, "flaky")), buf);
        }
        let n = buf.as_init().len().min(self.chunk);
        self.out.extend_from_slice(&buf.as_init()[..n]);
        BufResult(Ok(n), buf)
    }

    async fn flush(&mut self) -> std::io::Result<()> {
        Ok(())
    }

    async fn shutdown(&mut self) -> std::io::Result<()> {
        Ok(())
    }
}

#[test]
fn write_all_through_bufwriter_with_one_interrupt() {
    block_on(async {
        let inner = Flaky {
            out: vec![],
            calls: 0,
            fail_at: 0,
            kind: std::io::ErrorKind::Interrupted,
            chunk: usize::MAX,
        };
        let mut w = BufWriter::with_capacity(4, inner);
        // 3 > 4 * 2 / 3, so the write is followed by a flush
        w.write_all(b"abc").await.unwrap();
        w.flush().await.unwrap();
        let out = w.into_inner().out;
        assert_eq!(
            std::str::from_utf8(&out).unwrap(),
            "abc",
            "payload must arrive exactly once"
        );
    })
}

#[test]
fn copy_through_bufwriter_with_one_interrupt() {
    block_on(async {
        let payload: Vec<u8> = (0..64u8).collect();
        let inner = Flaky {
            out: vec![],
            calls: 0,
            fail_at: 1,
            kind: std::io::ErrorKind::Interrupted,
            chunk: 3,
        };
        let mut w = BufWriter::with_capacity(8, inner);
        let mut r = &payload[..];
        let n = compio_io::copy(&mut r, &mut w).await.unwrap();
        assert_eq!(n, 64);
        assert_eq!(w.into_inner().out, payload);
    })
}

#[test]
fn plain_write_reports_error_although_bytes_were_accepted() {
    block_on(async {
        let inner = Flaky {
            out: vec![],
            calls: 0,
            fail_at: 0,
            kind: std::io::ErrorKind::Other,
            chunk: usize::MAX,
        };
        let mut w = BufWriter::with_capacity(4, inner);
        let BufResult(res, _) = w.write(b"abc").await;
        // either the caller is told nothing was written and the bytes never show up, or they were accepted (Ok) and
        // show up exactly once
        let accepted = res.is_ok();
        let _ = w.flush().await;
        w.flush().await.unwrap();
        assert_eq!(w.into_inner().out, if accepted { &b"abc"[..] } else { &b""[..] }, "what write() reported and what reached the sink disagree");
    })
}
