//! F39 probe (defect found by hunting sub-agents, confirmed here): a vectored view made by `slice_mut(begin)` that starts in
//! the uninitialized tail of a member made `iter_slice()` / `total_len()` panic ("range start index .. out of range"),
//! and with it `advance_vec_to` and compio-io's `read_vectored_exact`. Fails before the /repo commit
//! "fix: a vectored view that starts in a member's spare capacity has no initialized bytes of it", passes after.
use compio_buf::{IoVectoredBuf, IoVectoredBufMut};

fn v(init: &[u8], cap: usize) -> Vec<u8> {
    let mut v = Vec::with_capacity(cap);
    v.extend_from_slice(init);
    v
}

#[test]
fn view_starting_in_spare_capacity_has_no_init_bytes_of_that_member() {
    let bufs = [v(b"hello", 10), v(b"world", 10)];
    let view = bufs.slice_mut(7); // 7 > 5 initialized bytes of member 0, inside its capacity of 10
    assert_eq!(view.total_len(), 5, "only member 1's bytes are initialized inside the view");
    let got: Vec<&[u8]> = view.iter_slice().collect();
    assert_eq!(got, vec![&b""[..], &b"world"[..]]);
}
