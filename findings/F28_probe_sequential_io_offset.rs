//! F28 probe (defect found by a hunting sub-agent, confirmed here): on io_uring the sequential Read / Write ops
//! (used by compio_fs::stdin()/stdout() and AsyncFd) were submitted with offset 0: on a regular file (stdin redirected
//! from a file) every read returned the first bytes again and every write overwrote the start. Fails before the
//! /repo commit "fix: sequential io_uring reads and writes use the file position", passes after it.
use std::io::Write;

use compio_buf::{BufResult, IntoInner};
use compio_driver::{SharedFd, op::{Read, Write as WriteOp}};

#[test]
fn sequential_reads_advance_on_a_regular_file() {
    let mut tmp = tempfile::NamedTempFile::new().unwrap();
    tmp.write_all(b"ABCDEF").unwrap();
    let f = std::fs::File::open(tmp.path()).unwrap();
    let fd = SharedFd::new(f);
    compio_runtime::Runtime::new().unwrap().block_on(async move {
        let mut seen = Vec::new();
        for _ in 0..3 {
            let BufResult(n, op) = compio_runtime::submit(Read::new(fd.clone(), Vec::with_capacity(2))).await;
            let n = n.unwrap();
            let mut b: Vec<u8> = op.into_inner();
            unsafe { b.set_len(n) };
            seen.extend_from_slice(&b);
        }
        assert_eq!(seen, b"ABCDEF", "sequential reads must continue where the previous one stopped");
    });
}

#[test]
fn sequential_writes_advance_on_a_regular_file() {
    let tmp = tempfile::NamedTempFile::new().unwrap();
    let f = std::fs::OpenOptions::new().write(true).open(tmp.path()).unwrap();
    let fd = SharedFd::new(f);
    compio_runtime::Runtime::new().unwrap().block_on(async move {
        for chunk in [b"AB", b"CD"] {
            let BufResult(n, _) = compio_runtime::submit(WriteOp::new(fd.clone(), chunk.to_vec())).await;
            assert_eq!(n.unwrap(), 2);
        }
    });
    assert_eq!(std::fs::read(tmp.path()).unwrap(), b"ABCD");
}
