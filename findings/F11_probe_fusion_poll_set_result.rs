//! Fusion build (io_uring + polling compiled together), polling driver selected at run time:
//! the fused managed ops (`mop!` in compio-driver/src/sys/op/managed/fusion.rs) forward
//! init / pre_submit / op_type / operate to the polling variant, but not `set_result`, so the
//! values the polling variant copies back in `set_result` (message flags, control length, address
//! length, received length) never reach the caller.
use std::net::Ipv6Addr;

use compio_driver::{DriverType, ProactorBuilder};
use compio_net::UdpSocket;
use compio_runtime::RuntimeBuilder;
use futures_util::StreamExt;
use compio_io::ancillary::ReturnFlags;

fn run_on(ty: DriverType, multi: bool) -> (ReturnFlags, usize) {
    let mut pb = ProactorBuilder::new();
    pb.driver_type(ty).buffer_pool_buffer_len(256);
    let rt = RuntimeBuilder::new().with_proactor(pb).build().unwrap();
    rt.block_on(async move {
        let a = UdpSocket::bind((Ipv6Addr::LOCALHOST, 0)).await.unwrap();
        let a_addr = a.local_addr().unwrap();
        let b = UdpSocket::bind((Ipv6Addr::LOCALHOST, 0)).await.unwrap();
        b.send_to(vec![7u8; 1024], a_addr).await.0.unwrap();
        if multi {
            let r = a.recv_msg_multi(64).next().await.unwrap().unwrap();
            (r.flags(), r.data().len())
        } else {
            let (buf, _c, _addr, flags) = a
                .recv_msg_managed(0, Vec::with_capacity(64))
                .await
                .unwrap()
                .unwrap();
            (flags, buf.len())
        }
    })
}

#[test]
fn control_iouring_reports_truncation() {
    let (flags, len) = run_on(DriverType::IoUring, false);
    assert_eq!(len, 256);
    assert!(flags.contains(ReturnFlags::TRUNC), "io_uring: flags = {flags:?}");
}

#[test]
fn polling_recv_msg_managed_reports_truncation() {
    let (flags, len) = run_on(DriverType::Poll, false);
    assert_eq!(len, 256);
    assert!(
        flags.contains(ReturnFlags::TRUNC),
        "polling driver: a 1024-byte datagram was cut to the 256-byte buffer but the call reports flags = {flags:?}"
    );
}

#[test]
fn polling_recv_msg_multi_reports_truncation() {
    let (flags, len) = run_on(DriverType::Poll, true);
    assert!(len > 0, "polling driver: recv_msg_multi yielded an empty datagram");
    assert!(
        flags.contains(ReturnFlags::TRUNC),
        "polling driver: truncated datagram reported with flags = {flags:?}"
    );
}

#[test]
fn polling_recv_from_multi_yields_the_datagram() {
    let mut pb = ProactorBuilder::new();
    pb.driver_type(DriverType::Poll).buffer_pool_buffer_len(256);
    let rt = RuntimeBuilder::new().with_proactor(pb).build().unwrap();
    let len = rt.block_on(async move {
        let a = UdpSocket::bind((Ipv6Addr::LOCALHOST, 0)).await.unwrap();
        let a_addr = a.local_addr().unwrap();
        let b = UdpSocket::bind((Ipv6Addr::LOCALHOST, 0)).await.unwrap();
        b.send_to(vec![7u8; 100], a_addr).await.0.unwrap();
        let r = a.recv_from_multi().next().await.unwrap().unwrap();
        r.data().len()
    });
    assert_eq!(len, 100, "polling driver: recv_from_multi lost the datagram's length");
}
