//! F25 / F26 probes (observations of a defect-hunting sub-agent, confirmed here). Both FAIL before the /repo commits
//! "fix: AnyDelimited refuses an empty delimiter" / "fix: LengthDelimited refuses a frame its length field cannot express"
//! and pass after them.
use std::panic::{AssertUnwindSafe, catch_unwind};

use compio_buf::IoBufExt;
use compio_io::framed::frame::{AnyDelimited, Framer, LengthDelimited};

/// F25: bytes from the peer must never panic the extractor. (Refusing the degenerate delimiter at construction is fine.)
#[test]
fn peer_bytes_never_panic_the_delimiter_extractor() {
    let Ok(mut framer) = catch_unwind(|| AnyDelimited::new(b"")) else {
        return; // refused where the programmer made the mistake
    };
    let buf = b"hello".to_vec();
    let r = catch_unwind(AssertUnwindSafe(|| Framer::<Vec<u8>>::extract(&mut framer, &buf.slice(..)).map(|_| ())));
    assert!(r.is_ok(), "extract panicked on input bytes");
}

/// F26: whatever the sender is allowed to encode decodes to the same frames: a payload the length field cannot
/// express must be refused by the encoder, not announced with a truncated length.
#[test]
fn length_field_never_truncates_silently() {
    for (width, big_endian) in [(1usize, true), (1, false), (2, true), (2, false)] {
        let payload = vec![b'x'; (1usize << (8 * width)) + 44];
        let mut framer = LengthDelimited::new().set_length_field_len(width).set_length_field_is_big_endian(big_endian);
        let mut wire = payload.clone();
        let encoded = catch_unwind(AssertUnwindSafe(|| Framer::<Vec<u8>>::enclose(&mut framer, &mut wire)));
        if encoded.is_err() {
            continue; // refused at the sender
        }
        let frame = Framer::<Vec<u8>>::extract(&mut framer, &wire.slice(..)).unwrap().expect("a frame");
        assert_eq!(frame.len(), width + payload.len(), "width {width}: the receiver sees a different frame");
    }
}
