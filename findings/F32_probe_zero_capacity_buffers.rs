//! Capacity 0 for BufReader / BufWriter / copy_with_size.
use compio_io::{AsyncReadExt, AsyncWrite, AsyncWriteExt, BufReader, BufWriter, util::copy_with_size};
use futures_executor::block_on;

#[test]
fn bufreader_capacity_0_read_to_end() {
    block_on(async {
        let data = b"hello world";
        let mut r = BufReader::with_capacity(0, &data[..]);
        let (n, buf) = r.read_to_end(vec![]).await.unwrap();
        assert_eq!((n, &buf[..]), (data.len(), &data[..]), "silent truncation");
    })
}

#[test]
fn bufreader_capacity_0_read_exact() {
    block_on(async {
        let data = b"hello world";
        let mut r = BufReader::with_capacity(0, &data[..]);
        let ((), buf) = r.read_exact(Vec::with_capacity(5)).await.unwrap();
        assert_eq!(buf, b"hello");
    })
}

#[test]
fn bufreader_capacity_1_read_to_end() {
    block_on(async {
        let data = b"hello world";
        let mut r = BufReader::with_capacity(1, &data[..]);
        let (n, buf) = r.read_to_end(vec![]).await.unwrap();
        assert_eq!((n, &buf[..]), (data.len(), &data[..]));
    })
}

#[test]
fn bufwriter_capacity_0_write_all() {
    block_on(async {
        let mut w = BufWriter::with_capacity(0, Vec::<u8>::new());
        w.write_all(b"hello").await.unwrap();
        w.flush().await.unwrap();
        assert_eq!(compio_buf::IntoInner::into_inner(w), b"hello");
    })
}

#[test]
fn bufwriter_capacity_1_write_all() {
    block_on(async {
        let mut w = BufWriter::with_capacity(1, Vec::<u8>::new());
        w.write_all(b"hello").await.unwrap();
        w.flush().await.unwrap();
        assert_eq!(compio_buf::IntoInner::into_inner(w), b"hello");
    })
}

#[test]
fn copy_with_size_0() {
    block_on(async {
        let data = b"hello world";
        let mut r = &data[..];
        let mut w = Vec::<u8>::new();
        let res = copy_with_size(&mut r, &mut w, 0).await;
        // Either everything is copied or an error (InvalidInput) is reported;
        // "Ok(0), nothing copied, reader not drained" is silent truncation.
        match res {
            Ok(n) => assert_eq!((n, &w[..]), (data.len() as u64, &data[..])),
            Err(e) => assert_eq!(e.kind(), std::io::ErrorKind::InvalidInput),
        }
    })
}
