// Put into compio-io/tests/ of a scratch copy:
//   MIRIFLAGS="-Zmiri-disable-isolation -Zmiri-disable-stacked-borrows" \
//   cargo +nightly miri test -p compio-io --features ancillary,bytemuck --test <name> --offline
// Observed: UB "constructing invalid value of type &[u8]: encountered a dangling reference
// (going beyond the bounds of its allocation)" in CMsgRef::decode_data (ancillary/sys.rs).
use compio_io::ancillary::AncillaryIter;

#[repr(C, align(8))]
struct Exact([u8; 24]);

#[test]
fn probe_cmsg_exact() {
    // one cmsg: header 16 bytes (len=20, level=1, type=1) + 4 data bytes + 4 pad = CMSG_SPACE(4) = 24
    let mut b = Box::new(Exact([0u8; 24]));
    b.0[0..8].copy_from_slice(&20usize.to_ne_bytes());
    b.0[8..12].copy_from_slice(&1i32.to_ne_bytes());
    b.0[12..16].copy_from_slice(&1i32.to_ne_bytes());
    b.0[16..20].copy_from_slice(&u32::MAX.to_ne_bytes());
    let mut iter = unsafe { AncillaryIter::new(&b.0) };
    let cmsg = iter.next().unwrap();
    assert_eq!(cmsg.data::<u32>().unwrap(), u32::MAX);
}
