//! F16 probe (written by a seeding sub-agent as a side observation, confirmed here): FAILS on the tree before
//! /repo commit "fix: a stopping actor drops the messages still queued in its mailbox", passes after it.
//! Run with: cargo test --workspace --offline --test f16_probe (file placed in compio-actor/tests/).
//! a Call that is still queued in the mailbox when the actor exits is never
//! answered. flume keeps queued items after the last Receiver is dropped, and the
//! caller's own `&Mailbox` keeps the Sender (and so the queue holding the
//! oneshot::Sender) alive, so `mailbox.call(..)` hangs instead of CallError::NoReply.
//! Put into compio-actor/tests/ and run
//!   cargo nextest run --workspace --offline -E 'test(scratch_queued_call_after_stop)'
use std::{convert::Infallible, num::NonZeroUsize, sync::mpsc, time::Duration};

use compio_actor::{Actor, ActorExit, Call, Cluster, Handler, Mailbox};
use compio_dispatcher::Dispatcher;
use futures_channel::oneshot;

struct W;
#[derive(Debug)]
struct Block;
#[derive(Debug)]
struct Read;
impl Actor for W {
    type Arguments = (mpsc::Sender<()>, Option<oneshot::Receiver<()>>);
    type Error = Infallible;
    type State = (mpsc::Sender<()>, Option<oneshot::Receiver<()>>);

    async fn pre_start(&self, _m: &Mailbox<Self>, a: Self::Arguments) -> Result<Self::State, Infallible> {
        Ok(a)
    }
}
impl Handler<Block> for W {
    async fn handle(&self, _m: &Mailbox<Self>, _b: Block, s: &mut Self::State) -> Result<(), Infallible> {
        s.0.send(()).unwrap();
        s.1.take().unwrap().await.ok();
        Ok(())
    }
}
impl Handler<Call<Read, usize>> for W {
    async fn handle(&self, _m: &Mailbox<Self>, c: Call<Read, usize>, _s: &mut Self::State) -> Result<(), Infallible> {
        c.reply(1).ok();
        Ok(())
    }
}

#[compio_macros::test]
async fn scratch_queued_call_after_stop() {
    let d = Dispatcher::builder()
        .worker_threads(NonZeroUsize::new(2).unwrap())
        .build()
        .unwrap();
    let cluster = Cluster::from_dispatcher(d);
    let (tx, rx) = mpsc::channel();
    let (rtx, rrx) = oneshot::channel();
    let (m, h) = cluster.spawn(|| W, (tx, Some(rrx))).await.unwrap();
    m.send(Block).unwrap();
    rx.recv_timeout(Duration::from_secs(2)).unwrap();
    let m2 = m.clone();
    let call = compio_runtime::spawn(async move { m2.call(Read).await.is_ok() });
    compio_runtime::time::sleep(Duration::from_millis(100)).await;
    m.stop();
    rtx.send(()).ok();
    assert_eq!(h.await.unwrap(), ActorExit::Stopped);
    let r = compio_runtime::time::timeout(Duration::from_secs(3), call).await;
    assert!(r.is_ok(), "queued call hung after the actor exited");
}
