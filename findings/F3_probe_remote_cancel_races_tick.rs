//! Dropping a JoinHandle on another thread cancels the task: `Task::cancel` publishes the task to the
//! run queue (`schedule()`) *before* it sets the cancelled flag. If the executor runs the task in
//! between, it polls the future once more, parks it again, and nothing ever schedules it afterwards:
//! the cancelled future is never dropped (until it is woken by something else or the executor dies).
use std::{
    future::Future,
    pin::Pin,
    sync::{
        Arc, Condvar, Mutex,
        atomic::{AtomicBool, AtomicUsize, Ordering::SeqCst},
    },
    task::{Context, Poll, Wake, Waker},
};

use compio_executor::{Executor, ExecutorConfig};

struct DriverWaker {
    wakes: AtomicUsize,
    hold_first: bool,
    gate: Mutex<bool>,
    cv: Condvar,
}

impl Wake for DriverWaker {
    fn wake(self: Arc<Self>) {
        self.wake_by_ref()
    }

    fn wake_by_ref(self: &Arc<Self>) {
        let n = self.wakes.fetch_add(1, SeqCst) + 1;
        if n == 1 && self.hold_first {
            // the waking (cancelling) thread is preempted right after it queued the task
            let mut open = self.gate.lock().unwrap();
            while !*open {
                open = self.cv.wait(open).unwrap();
            }
        }
    }
}

struct Forever {
    polls: Arc<AtomicUsize>,
    dropped: Arc<AtomicBool>,
}

impl Future for Forever {
    type Output = ();

    fn poll(self: Pin<&mut Self>, _: &mut Context<'_>) -> Poll<()> {
        self.polls.fetch_add(1, SeqCst);
        Poll::Pending // waits for an event that never happens
    }
}

impl Drop for Forever {
    fn drop(&mut self) {
        self.dropped.store(true, SeqCst);
    }
}

fn scenario(hold: bool) -> (usize, bool) {
    let dw = Arc::new(DriverWaker {
        wakes: AtomicUsize::new(0),
        hold_first: hold,
        gate: Mutex::new(false),
        cv: Condvar::new(),
    });
    let exe = Executor::with_config(ExecutorConfig {
        waker: Some(Waker::from(dw.clone())),
        ..Default::default()
    });
    let polls = Arc::new(AtomicUsize::new(0));
    let dropped = Arc::new(AtomicBool::new(false));
    let handle = exe.spawn(Forever { polls: polls.clone(), dropped: dropped.clone() });
    while exe.tick() {}
    assert_eq!(polls.load(SeqCst), 1);

    let t = std::thread::spawn(move || drop(handle)); // remote cancel
    if hold {
        while dw.wakes.load(SeqCst) < 1 {
            std::thread::yield_now();
        }
        // the executor was woken: it runs what is queued
        while exe.tick() {}
        *dw.gate.lock().unwrap() = true;
        dw.cv.notify_all();
    }
    t.join().unwrap();
    // the cancellation is complete; give the executor every chance to act on it
    for _ in 0..10 {
        exe.tick();
    }
    (polls.load(SeqCst), dropped.load(SeqCst))
}

#[test]
fn control_remote_cancel_without_interleaving_drops_the_future() {
    let (_polls, dropped) = scenario(false);
    assert!(dropped, "control: a cancelled task's future is dropped by the executor");
}

#[test]
fn remote_cancel_racing_with_a_tick_still_drops_the_future() {
    let (polls, dropped) = scenario(true);
    assert!(
        dropped,
        "the handle was dropped (task cancelled) but the future is still alive after 10 ticks \
         (it was polled {polls} times): cancel published the task before setting the cancelled flag"
    );
}
