#!/usr/bin/env python3
"""Both-ways self-test: applies every patch of selftest/mutants (and seeded/*/patch.diff) to a scratch
worktree of /repo (never /repo itself), runs the quick checks against it, and records which
properties fire. Usage: run_mutants.py [name-substring ...]"""
import glob
import json
import os
import subprocess
import sys
import time

V = os.path.dirname(os.path.dirname(os.path.abspath(__file__)))
BASE = os.environ.get("VFMUT_DIR", "/var/tmp/vfmut")
WT = BASE + "/wt"
CACHE = BASE + "/cache"
EVD = BASE + "/evidence"
KIND = os.environ.get("VFMUT_KIND", "mutants")   # mutants | refactors


def sh(cmd, **kw):
    return subprocess.run(cmd, shell=True, stdout=subprocess.PIPE, stderr=subprocess.STDOUT, text=True, **kw)


def main():
    sel = sys.argv[1:]
    os.makedirs(os.path.dirname(WT), exist_ok=True)
    if not os.path.isdir(WT):
        print(sh("git -C /repo worktree add --detach %s HEAD" % WT).stdout)
    head = sh("git -C /repo rev-parse HEAD").stdout.strip()
    sh("git -C %s checkout -q --detach %s && git -C %s checkout -q -- . && git -C %s clean -fdq" % (WT, head, WT, WT))
    claims = json.load(open(os.path.join(V, "tools", "claims.json")))
    props = sorted(p for p, c in claims.items() if c.get("claimed"))
    if os.environ.get("VFMUT_PROPS"):          # ad-hoc runs: only these properties (results are not recorded)
        props = os.environ["VFMUT_PROPS"].split(",")
    if KIND == "refactors":
        patches = sorted(glob.glob(os.path.join(V, "selftest", "refactors", "*.patch")))
    else:
        patches = sorted(glob.glob(os.path.join(V, "selftest", "mutants", "*.patch"))) + \
            sorted(glob.glob(os.path.join(V, "seeded", "*", "patch.diff")))
    if os.environ.get("VFMUT_PATCHES"):        # ad-hoc: explicit patch files
        patches = os.environ["VFMUT_PATCHES"].split(",")
    env = dict(os.environ, VF_REPO=WT, VF_CACHE=CACHE, VF_EVIDENCE_DIR=EVD)
    results = {}
    respath = os.path.join(V, "selftest", "results.json" if KIND != "refactors" else "results_refactors.json")
    if os.environ.get("VFMUT_PROPS") or os.environ.get("VFMUT_PATCHES"):
        respath = os.path.join(BASE, "adhoc_results.json")
    if os.path.exists(respath):
        results = json.load(open(respath))
    shard = os.environ.get("VFMUT_SHARD")          # "i/n": this process handles patches[i::n]; results go to BASE/shard_<kind>.json
    if shard:
        i, n = (int(x) for x in shard.split("/"))
        patches = patches[i::n]
        respath = os.path.join(BASE, "shard_%s.json" % KIND)
        results = json.load(open(respath)) if os.path.exists(respath) else {}
    done = set()
    if os.environ.get("VFMUT_RESUME"):
        main_res = os.path.join(V, "selftest", "results.json" if KIND != "refactors" else "results_refactors.json")
        if os.path.exists(main_res):
            done = set(json.load(open(main_res)).keys())
        done |= set(results.keys())
    for p in [None] + patches:
        name = "BASELINE(unchanged)" if p is None else (os.path.basename(os.path.dirname(p)) + "/patch.diff" if p.endswith("patch.diff") else os.path.basename(p))
        if sel and p is not None and not any(s in name for s in sel):
            continue
        if sel and p is None and "BASELINE" not in sel:
            continue
        if name in done and p is not None:
            continue
        sh("git -C %s checkout -q -- . && git -C %s clean -fdq" % (WT, WT))
        if p is not None:
            r = sh("git -C %s apply %s" % (WT, p))
            if r.returncode != 0:
                results[name] = {"error": "patch does not apply: " + r.stdout[-300:]}
                print(name, "PATCH DOES NOT APPLY")
                continue
        t0 = time.time()
        fired = {}
        # one check first (it re-extracts the facts of the patched tree under the cache lock), the rest in parallel
        from concurrent.futures import ThreadPoolExecutor

        def one(pr):
            return pr, subprocess.run([os.path.join(V, "vf"), "check", pr], env=env, stdout=subprocess.PIPE, stderr=subprocess.STDOUT, text=True)
        outs = [one(props[0])]
        with ThreadPoolExecutor(max_workers=int(os.environ.get("VFMUT_JOBS", "6"))) as ex:
            outs += list(ex.map(one, props[1:]))
        for pr, r in outs:
            if r.returncode == 1:
                fired[pr] = [l.strip() for l in r.stdout.splitlines() if l.strip().startswith("rule ")]
            elif r.returncode != 0:
                fired[pr] = ["ERROR exit %d: %s" % (r.returncode, r.stdout[-400:])]
        results[name] = {"fired": fired, "head": head, "wall_s": round(time.time() - t0, 1)}
        print("%-55s -> %s" % (name, {k: len(v) for k, v in fired.items()} or "silent"), flush=True)
        json.dump(results, open(respath, "w"), indent=1)
    sh("git -C %s checkout -q -- . && git -C %s clean -fdq" % (WT, WT))


if __name__ == "__main__":
    main()
