#!/usr/bin/env python3
"""merge_shards.py <kind> <dir>...: merge BASE/shard_<kind>.json of sharded run_mutants.py runs into selftest/results*.json"""
import json, os, sys
V = os.path.dirname(os.path.dirname(os.path.abspath(__file__)))
kind = sys.argv[1]
dst = os.path.join(V, "selftest", "results.json" if kind != "refactors" else "results_refactors.json")
res = json.load(open(dst)) if os.path.exists(dst) else {}
for d in sys.argv[2:]:
    p = os.path.join(d, "shard_%s.json" % kind)
    if os.path.exists(p):
        res.update(json.load(open(p)))
json.dump(res, open(dst, "w"), indent=1)
print(kind, len(res), "entries")
