#!/bin/bash
# usage: mutate.sh <patch> <PROP> [more props...]   — apply a patch to /repo, run the quick checks, undo it.
set -u
patch="$(realpath "$1")"; shift
cd /repo || exit 2
if ! git diff --quiet; then echo "repo dirty, refusing"; exit 2; fi
git apply "$patch" || { echo "patch does not apply"; exit 2; }
trap 'git -C /repo checkout -- . ; git -C /repo clean -fdq -- . 2>/dev/null' EXIT
rc=0; export VF_EVIDENCE_DIR=/tmp/vf-mutate-ev
for p in "$@"; do
  /verif/vf check "$p" ; r=$?
  echo "== $p exit $r"
  [ $r -ne 0 ] && rc=$r
done
exit $rc
