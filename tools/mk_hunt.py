#!/usr/bin/env python3
"""mk_hunt.py <agent-id> [focus text]: render tools/hunt_prompt.txt (id = H<property id>[letter], e.g. HC08a)."""
import json, sys
props = {json.loads(l)['id']: json.loads(l) for l in open('/verif/properties.jsonl')}
aid = sys.argv[1]
focus = sys.argv[2] if len(sys.argv) > 2 else ""
p = props[aid[1:4]]
d = "/tmp/sa/" + aid
s = open('/verif/tools/hunt_prompt.txt').read()
for k, v in (("{wt}", d + "/wt"), ("{out}", d + "/out"), ("{target}", d + "/target"), ("{title}", p['title']),
             ("{statement}", p['statement']), ("{quant}", p['quantifier']['text']), ("{focus}", focus)):
    s = s.replace(k, v)
open(d + "/prompt.txt", "w").write(s)
print(d + "/prompt.txt")
