#!/bin/bash
# usage: confirm_seed.sh <agent-id> <demo-src-file> <dest-path-in-wt> <demo cargo args...>
# Re-runs, in the agent's scratch worktree, the demonstration with and without the source change and the test suite with it.
id="$1"; src="$2"; dest="$3"; shift 3
d=/tmp/sa/$id; wt=$d/wt; export CARGO_TARGET_DIR=$d/target
cd $wt || exit 2
log=$d/confirm.log; : > $log
git diff --quiet && { echo "no source change in worktree" | tee -a $log; exit 2; }
cp "$d/out/$src" "$wt/$dest"
echo "== demo WITH change" >> $log
timeout 1500 cargo test --workspace --offline "$@" >> $log 2>&1; rc_with=$?
# NOTE: never `git stash` here: the stash is shared by all worktrees of /repo
git diff > $d/confirm_src.patch
git apply -R $d/confirm_src.patch
echo "== demo WITHOUT change" >> $log
timeout 1500 cargo test --workspace --offline "$@" >> $log 2>&1; rc_without=$?
git apply $d/confirm_src.patch
rm -f "$wt/$dest"
echo "== suite WITH change" >> $log
timeout 3000 cargo nextest run --workspace --no-fail-fast --offline 2>&1 | tail -5 >> $log; 
suite=$(grep -E "tests run:" $log | tail -1)
echo "RESULT id=$id demo_with_change_rc=$rc_with demo_without_change_rc=$rc_without suite='$suite'" | tee -a $log
