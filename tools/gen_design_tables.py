#!/usr/bin/env python3
"""Regenerates the machine-derived tables of DESIGN.md (between the BEGIN/END markers):
 * the per-property rule table, from the evidence files of the last run
 * the self-test table (hand-written mutants, reverted fixes, seeded agent changes, refactorings),
   from selftest/results*.json and seeded/*/meta.json"""
import glob
import json
import os
import re

V = os.path.dirname(os.path.dirname(os.path.abspath(__file__)))


def rules_table():
    out = ["| prop | rule | template | what it demands (on every enumerated construct) | instances (quick tier) |",
           "|------|------|----------|------------------------------------------------|-----------|"]
    for p in sorted(glob.glob(os.path.join(V, "evidence", "C*.json"))):
        ev = json.load(open(p))
        pid = ev["property_id"]
        for rid, r in ev["coverage"]["rules"].items():
            out.append("| %s | %s | %s | %s | %d |" % (pid, rid, r.get("template", ""), r.get("text", "").replace("|", "\\|"), r.get("instances", 0)))
    return "\n".join(out)


def selftest_table():
    out = ["| change | kind | fires (property: #rule instances) |", "|--------|------|------------------------------------|"]
    res = {}
    p = os.path.join(V, "selftest", "results.json")
    if os.path.exists(p):
        res = json.load(open(p))
    for name, r in sorted(res.items()):
        if "error" in r:
            out.append("| %s | — | patch no longer applies |" % name)
            continue
        kind = "unchanged tree" if name.startswith("BASELINE") else ("reverted fix" if name.startswith("revert_") else (
            "seeded (agent)" if name.endswith("patch.diff") else "hand-written mutant"))
        fired = ", ".join("%s: %d" % (k, len(v)) for k, v in sorted(r["fired"].items())) or "silent"
        out.append("| %s | %s | %s |" % (name.replace(".patch", ""), kind, fired))
    p = os.path.join(V, "selftest", "results_refactors.json")
    if os.path.exists(p):
        for name, r in sorted(json.load(open(p)).items()):
            if "error" in r:
                continue
            fired = ", ".join("%s: %d" % (k, len(v)) for k, v in sorted(r["fired"].items())) or "silent"
            out.append("| %s | %s | %s |" % (name.replace(".patch", ""), "unchanged tree" if name.startswith("BASELINE") else "behaviour-preserving refactoring (must be silent)", fired))
    return "\n".join(out)


def seeded_table():
    out = ["| seeded change | breaks | needs in order to manifest | caught by | first version of the rules |",
           "|---------------|--------|----------------------------|-----------|-----------------------------|"]
    for d in sorted(glob.glob(os.path.join(V, "seeded", "*"))):
        mp = os.path.join(d, "meta.json")
        if not os.path.exists(mp):
            continue
        m = json.load(open(mp))
        needs = (m.get("needs_to_manifest") or "")[:260].replace("|", "\\|").replace("\n", " ")
        out.append("| %s | %s | %s | %s | %s |" % (os.path.basename(d), m.get("breaks_property", m.get("property")), needs,
                                                 (m.get("detected_by") or "").replace("|", "\\|"), (m.get("detection_note") or "").replace("|", "\\|")))
    n = len(out) - 2
    first = sum(1 for d in sorted(glob.glob(os.path.join(V, "seeded", "*"))) if os.path.exists(os.path.join(d, "meta.json")) and
                (json.load(open(os.path.join(d, "meta.json"))).get("detection_note") or "").startswith("caught by the rule"))
    out.append("")
    out.append("Score of the rules *as they were when each change arrived*: **%d of %d caught as written**, %d missed and caught only "
               "after a rule was added or strengthened (the last column says which). Sub-agent changes that merely repeated a stored "
               "one (same site, same idea) were checked, found caught, and not stored again." % (first, n, n - first))
    return "\n".join(out)


def main():
    p = os.path.join(V, "DESIGN.md")
    s = open(p).read()
    for tag, fn in (("RULES", rules_table), ("SELFTEST", selftest_table), ("SEEDED", seeded_table)):
        b, e = "<!-- BEGIN %s -->" % tag, "<!-- END %s -->" % tag
        if b in s and e in s:
            s = s[:s.index(b) + len(b)] + "\n" + fn() + "\n" + s[s.index(e):]
    open(p, "w").write(s)
    print("tables regenerated")


if __name__ == "__main__":
    main()
