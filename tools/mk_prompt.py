#!/usr/bin/env python3
"""mk_prompt.py <agent-id>...: render tools/agent_prompt.txt for agents created by mk_agent.sh (id = <property id><letter>)."""
import json, sys
props = {json.loads(l)['id']: json.loads(l) for l in open('/verif/properties.jsonl')}
tpl = open('/verif/tools/agent_prompt.txt').read()
for aid in sys.argv[1:]:
    p = props[aid[:3]]
    d = "/tmp/sa/" + aid
    open(d + "/prompt.txt", "w").write(tpl.format(wt=d + "/wt", out=d + "/out", target=d + "/target", title=p['title'],
                                                    statement=p['statement'], quant=p['quantifier']['text'], pid=p['id']))
    print(d + "/prompt.txt")
