#!/usr/bin/env python3
"""Regenerates /verif/MANIFEST.json from the table in /verif/tools/claims.json."""
import json
import os

V = os.path.dirname(os.path.dirname(os.path.abspath(__file__)))
claims = json.load(open(os.path.join(V, "tools", "claims.json")))
props = [json.loads(l) for l in open(os.path.join(V, "properties.jsonl"))]
checks = []
na = []
for p in props:
    pid = p["id"]
    c = claims.get(pid, {})
    if c.get("claimed"):
        checks.append({
            "property_id": pid,
            "quick_cmd": "./vf check %s --tier quick" % pid,
            "thorough_cmd": "./vf check %s --tier thorough" % pid,
            "evidence_file": "/verif/evidence/%s.json" % pid,
            "replay_cmd_template": "./vf explain {path}",
            "engine": "factdrv+rules" + ("+witness" if c.get("witness") else ""),
            "level_claimed": {
                "category": "other",
                "text": c["text"],
                "design_ref": "DESIGN.md §3 " + pid,
            },
            "level_note": c["note"],
            "technique": c.get("technique", "static analysis: repository-specific MIR rules (dominance / guard / "
                                            "who-may-call / coverage) over rustc's type-checked program"),
        })
    else:
        na.append({"property_id": pid, "reason": c.get("reason", "no sound static clause built; see DESIGN.md §5")})
m = {
    "version": 1,
    "setup_cmd": "./vf setup",
    "hooks": {
        "guard": "compio_verif",
        "enable": "none needed: the checks read the source through a rustc_private driver "
                  "(RUSTC_WORKSPACE_WRAPPER under cargo +nightly check); no instrumentation is compiled into /repo",
        "baseline_off_cmd": "cd /repo && cargo test --workspace --no-fail-fast --offline",
        "source_commits": [],
        "add_only": True,
    },
    "engines": [
        {"name": "factdrv", "path": "/verif/factdrv",
         "serves_properties": [c["property_id"] for c in checks],
         "kind_free_text": "rustc_private fact extractor: MIR (mir_promoted), ADT, impl and trait facts of every "
                           "workspace crate in 2-4 cargo configurations"},
        {"name": "rules", "path": "/verif/vflib",
         "serves_properties": [c["property_id"] for c in checks],
         "kind_free_text": "Python rule engine: call graph, dominators / post-dominators, edge dominance, "
                           "def-use value flow; frozen rule instances, fail-closed anchors and floors"},
        {"name": "witness", "path": "/verif/witness",
         "serves_properties": [pid for pid, c in claims.items() if c.get("witness")],
         "kind_free_text": "compile_fail / compile-pass doctest pairs (rustc is the decision procedure; nothing is run)"},
    ],
    "checks": checks,
    "not_applicable": na,
    "notes": "All checks are static: nothing under /repo is executed. Fixes of genuine defects found by the rules are "
             "'fix:' commits in /repo, recorded in /verif/known_findings.json.",
}
json.dump(m, open(os.path.join(V, "MANIFEST.json"), "w"), indent=1)
print("claimed:", [c["property_id"] for c in checks])
print("not applicable:", [n["property_id"] for n in na])
