#!/bin/bash
# usage: mk_agent.sh <id>   -> creates /tmp/sa/<id>/{wt,out} (scratch worktree of /repo HEAD) and a warm target dir
set -e
id="$1"
d=/tmp/sa/$id
rm -rf "$d"; mkdir -p "$d/out"
git -C /repo worktree add -q --detach "$d/wt" HEAD
cp -r /repo/target "$d/target" 2>/dev/null || true
echo "$d"
