#!/usr/bin/env python3
"""store_seed.py <agent-id> <seed-id> <caught-by> <note>: copy an agent's confirmed change into /verif/seeded/<seed-id>/."""
import json, os, shutil, sys, re
aid, sid, caught, note = sys.argv[1:5]
src = "/tmp/sa/%s/out" % aid
dst = "/verif/seeded/%s" % sid
os.makedirs(dst, exist_ok=True)
for f in os.listdir(src):
    shutil.copy(os.path.join(src, f), os.path.join(dst, f))
meta = json.load(open(os.path.join(dst, "meta.json")))
conf = open("/tmp/sa/%s/confirm.log" % aid).read() if os.path.exists("/tmp/sa/%s/confirm.log" % aid) else ""
m = re.search(r"RESULT .*", conf)
meta["confirmed_by_me"] = {
    "how": "tools/confirm_seed.sh in the agent's scratch worktree: demonstration run with the source change (must fail) "
           "and with it reverted via git apply -R (must pass); full nextest suite with the change",
    "result": m.group(0) if m else "n/a",
}
meta["breaks_property"] = meta.get("property")
meta["detected_by"] = caught
meta["detection_note"] = note
json.dump(meta, open(os.path.join(dst, "meta.json"), "w"), indent=1)
print("stored", dst, sorted(os.listdir(dst)))
