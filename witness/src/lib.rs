//! Type-level witnesses for the compio properties: each obligation is a `compile_fail` doctest with
//! the expected error code plus a compiling twin that differs only in the offending line (a witness
//! whose paths are merely wrong would also "fail to compile"). rustc is the decision procedure;
//! nothing is executed (`no_run`).
#![allow(dead_code)]

/// C04: `JoinHandle<T>` crosses threads only when its output may.
///
/// ```compile_fail,E0277
/// fn needs_send<T: Send>() {}
/// needs_send::<compio_executor::JoinHandle<std::rc::Rc<()>>>();
/// ```
/// twin:
/// ```no_run
/// fn needs_send<T: Send>() {}
/// needs_send::<compio_executor::JoinHandle<u32>>();
/// ```
pub struct C04JoinHandleSendNeedsTSend;

/// C04: the executor and the runtime stay on their thread.
///
/// ```compile_fail,E0277
/// fn needs_send<T: Send>() {}
/// needs_send::<compio_executor::Executor>();
/// ```
/// ```compile_fail,E0277
/// fn needs_sync<T: Sync>() {}
/// needs_sync::<compio_executor::Executor>();
/// ```
/// ```compile_fail,E0277
/// fn needs_send<T: Send>() {}
/// needs_send::<compio_runtime::Runtime>();
/// ```
/// twin:
/// ```no_run
/// fn needs_send<T: Send>() {}
/// needs_send::<compio_executor::ExecutorConfig>();
/// fn needs_sized<T: Sized>() {}
/// needs_sized::<compio_executor::Executor>();
/// needs_sized::<compio_runtime::Runtime>();
/// ```
pub struct C04ExecutorNotSend;

/// C01: the proactor, its keys and the buffers it hands out are confined to their thread
/// (their reference counts and borrow flags are not atomic).
///
/// ```compile_fail,E0277
/// fn needs_send<T: Send>() {}
/// needs_send::<compio_driver::Proactor>();
/// ```
/// ```compile_fail,E0277
/// fn needs_send<T: Send>() {}
/// needs_send::<compio_driver::Key<compio_driver::op::CloseFile>>();
/// ```
/// ```compile_fail,E0277
/// fn needs_send<T: Send>() {}
/// needs_send::<compio_driver::BufferRef>();
/// ```
/// ```compile_fail,E0277
/// fn needs_send<T: Send>() {}
/// needs_send::<compio_runtime::Submit<compio_driver::op::CloseFile>>();
/// ```
/// twin:
/// ```no_run
/// fn needs_sized<T: Sized>() {}
/// needs_sized::<compio_driver::Proactor>();
/// needs_sized::<compio_driver::Key<compio_driver::op::CloseFile>>();
/// needs_sized::<compio_driver::BufferRef>();
/// needs_sized::<compio_runtime::Submit<compio_driver::op::CloseFile>>();
/// fn needs_send<T: Send>() {}
/// needs_send::<compio_driver::ProactorBuilder>();
/// ```
pub struct C01DriverTypesNotSend;

/// C07: a pool buffer handle is exclusive: it cannot be duplicated.
///
/// ```compile_fail,E0277
/// fn needs_clone<T: Clone>() {}
/// needs_clone::<compio_driver::BufferRef>();
/// ```
/// twin:
/// ```no_run
/// fn needs_clone<T: Clone>() {}
/// needs_clone::<compio_driver::BufferPool>();
/// ```
pub struct C07BufferRefNotClone;

/// C07: a pool buffer handle cannot be forged from parts outside the driver crate.
///
/// ```compile_fail,E0451
/// fn forge(b: compio_driver::BufferRef) {
///     let compio_driver::BufferRef { ptr, .. } = b;
///     let _ = ptr;
/// }
/// ```
/// twin:
/// ```no_run
/// fn not_forge(b: compio_driver::BufferRef) -> usize {
///     b.len()
/// }
/// ```
pub struct C07BufferRefFieldsPrivate;

/// C10: views are constructed only through the checked API (`slice(range)`), never directly.
///
/// ```compile_fail,E0624
/// let _ = unsafe { compio_buf::Slice::new(vec![0u8; 4], 9, None) };
/// ```
/// twin:
/// ```no_run
/// use compio_buf::IoBufExt;
/// let _ = vec![0u8; 4].slice(1..3);
/// ```
pub struct C10SliceNewIsPrivate;

/// C10: moving the start of a view without the bounds check is an `unsafe` operation.
///
/// ```compile_fail,E0133
/// use compio_buf::IoBufExt;
/// let mut s = vec![0u8; 4].slice(..);
/// s.set_begin_unchecked(9);
/// ```
/// twin:
/// ```no_run
/// use compio_buf::IoBufExt;
/// let mut s = vec![0u8; 4].slice(..);
/// s.set_begin(2);
/// ```
pub struct C10SetBeginUncheckedIsUnsafe;

/// C17: a job handed to the blocking pool must be `Send` (it runs on another thread), and so must its result.
///
/// ```compile_fail,E0277
/// let rc = std::rc::Rc::new(1);
/// let _ = compio_runtime::spawn_blocking(move || *rc);
/// ```
/// ```compile_fail,E0277
/// let _ = compio_runtime::spawn_blocking(move || std::rc::Rc::new(1));
/// ```
/// twin:
/// ```no_run
/// let v = std::sync::Arc::new(1);
/// let _ = compio_runtime::spawn_blocking(move || *v);
/// ```
pub struct C17BlockingJobsAreSend;

/// C05: a cancel token does not give access to the operation (it can only be used to cancel).
///
/// ```compile_fail,E0624
/// fn peek(c: &compio_driver::Cancel) {
///     let _ = c.upgrade();
/// }
/// ```
/// twin:
/// ```no_run
/// fn peek(c: &compio_driver::Cancel) -> compio_driver::Cancel {
///     c.clone()
/// }
/// ```
pub struct C05CancelIsOpaque;
